-------------------------- MODULE SolverHookTrace --------------------------
(***************************************************************************)
(* Validates the solver-protocol events of UNMODIFIED user programs (the   *)
(* three programs under examples/, rebuilt with the hooks in SQuIDS.cpp)   *)
(* against module Solver.  Only what the hooks see is logged: (re)          *)
(* initialisation, the start and end of every Evolve, every right-hand     *)
(* side with the arrays GSL passed and where the in-step views pointed     *)
(* afterwards, moves.  The term switches are set by calls that are not     *)
(* hooked, so AnyNumerics is learnt at EvolveStart (a silent SetAny step    *)
(* composed into it); the user's callbacks are not observed at all.        *)
(* Checked on every event: BindOK (views = the arrays of this call, and    *)
(* the cache logic of Rebind), AfterEvolve, SysUnique, one driver at a     *)
(* time, paramsok (the system handed to GSL points back at this object).   *)
(***************************************************************************)
EXTENDS Solver, Json, IOUtils

Log == ndJsonDeserialize(IOEnv.TRACE)
VARIABLE l
tvars == <<vars, l>>
Ev == Log[l]

HIni == /\ Ev.e = "Ini" /\ Ini(Ev.o, Ev.sys, 1, 1, 0, 0) /\ Ev.cacheclear
HStart == /\ Ev.e = "EvolveStart" /\ Ev.paramsok
          /\ obj[Ev.o].inited /\ obj[Ev.o].sys = Ev.sys /\ drv.o = 0
          /\ obj' = [obj EXCEPT ![Ev.o].any = (Ev.num = 1)]                 \* silent SetAny: the switches are not hooked
          /\ drv' = (IF Ev.num = 1 THEN [o |-> Ev.o, bufs |-> {}, nrhs |-> 0] ELSE drv)
          /\ UNCHANGED bad
HRhs == /\ Ev.e = "Rhs" /\ drv.o = Ev.o
        /\ LET r == Rebind(obj[Ev.o], Ev.sp, Ev.dp) IN
           /\ r.ebind = Ev.eact /\ r.dbind = Ev.dact        \* the code follows the specification's cache logic
           /\ Ev.eact = Ev.sp /\ Ev.dact = Ev.dp            \* BindOK
           /\ obj' = [obj EXCEPT ![Ev.o] = r]
        /\ drv' = [drv EXCEPT !.nrhs = @ + 1, !.bufs = @ \cup ({Ev.sp, Ev.dp} \ {obj[Ev.o].sys})]
        /\ UNCHANGED bad
HEnd == /\ Ev.e = "EvolveEnd"
        /\ Ev.eact = obj[Ev.o].sys                          \* AfterEvolve
        /\ IF drv.o = Ev.o
           THEN /\ Ev.num = 1 /\ Ev.nrhs = drv.nrhs /\ EvolveEnd(Ev.o, 0)
           ELSE /\ drv.o = 0 /\ Ev.num = 0 /\ Ev.nrhs = 0 /\ UNCHANGED <<obj, drv, bad>>
HMove == /\ Ev.e = "Move" /\ MoveTo(Ev.dst, Ev.src)
HDone == Ev.e = "End" /\ UNCHANGED vars

TNext == /\ l <= Len(Log) /\ l' = l + 1 /\ steps' = steps
         /\ (HIni \/ HStart \/ HRhs \/ HEnd \/ HMove \/ HDone)
TInit == Init /\ l = 1
TSpec == TInit /\ [][TNext]_tvars
Accepted == TLCGet("stats").diameter - 1 = Len(Log)
=============================================================================
