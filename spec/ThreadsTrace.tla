---------------------------- MODULE ThreadsTrace ----------------------------
(***************************************************************************)
(* Validates a linearised trace of real threads (harness/threads_drive,    *)
(* mode "trace") against module Threads: every block event must be a step  *)
(* of the specification (blocks are held by exactly one thread, go into    *)
(* the releasing thread's cache, cross threads only through Send/Recv) and *)
(* when a thread has ended nothing may be left in its cache.               *)
(***************************************************************************)
EXTENDS Threads, Json, IOUtils
Log == ndJsonDeserialize(IOEnv.TRACE)
VARIABLE l
tvars == <<vars, l>>
Ev == Log[l]
\* a block given back by the thread whose cache holds it (draining the cache, e.g. when the thread ends)
DrainFree(t, b) == /\ alive[t] /\ b \in cache[t]
                   /\ blk' = [blk EXCEPT ![b] = Free] /\ cache' = [cache EXCEPT ![t] = @ \ {b}]
                   /\ UNCHANGED <<chan, alive, raced, res>>
TExit(t) == /\ alive[t] /\ \A b \in Blocks : ~(blk[b].st = "vec" /\ blk[b].th = t)
            /\ cache[t] = {} /\ Len(Ev.left) = 0        \* storage cached by the thread has been given back
            /\ alive' = [alive EXCEPT ![t] = FALSE] /\ UNCHANGED <<blk, cache, chan, raced, res>>
TNext == /\ l <= Len(Log) /\ l' = l + 1 /\ nops' = nops
         /\ LET e == Ev.e IN
            CASE e = "AllocNew" -> AllocNew(Ev.t, Ev.b)
              [] e = "AllocHit" -> AllocHit(Ev.t, Ev.b)
              [] e = "ReleaseCache" -> ReleaseCache(Ev.t, Ev.b)
              [] e = "ReleaseFree" -> (ReleaseFree(Ev.t, Ev.b) \/ DrainFree(Ev.t, Ev.b))
              [] e = "Send" -> Send(Ev.t, Ev.b)
              [] e = "Recv" -> Recv(Ev.t, Ev.b)
              [] e = "Exit" -> TExit(Ev.t)
              [] e = "Respawn" -> (~alive[Ev.t] /\ alive' = [alive EXCEPT ![Ev.t] = TRUE] /\ UNCHANGED <<blk, cache, chan, raced, res>>)   \* a new thread under the same label
              [] e = "ResMake" -> ResMake(Ev.t, Ev.r)
              [] e = "ResUse" -> ResUse(Ev.t, Ev.r)
              [] e = "ResDrop" -> ResDrop(Ev.t, Ev.r)
              [] OTHER -> FALSE
TInit == Init /\ l = 1
TSpec == TInit /\ [][TNext]_tvars
Accepted == TLCGet("stats").diameter - 1 = Len(Log)
=============================================================================
