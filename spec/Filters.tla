------------------------------ MODULE Filters ------------------------------
(***************************************************************************)
(* C11: averaging and low-pass filters on the pre-evolution table.         *)
(*                                                                         *)
(* H = diag(E), E in Z^d.  The evolution table prepared from H has one     *)
(* (cos, sin) pair per level pair (i,j), i<j, frequency                    *)
(*        omega_ij = E_i - E_j ,                                           *)
(* and Evolve(table) multiplies entry (i,j) of a Hermitian matrix by       *)
(*        w_ij = CX_ij + i SX~_ij   (plain table: w_ij = exp(i omega t)),  *)
(* entry (j,i) by the conjugate, the diagonal by 1.                        *)
(*                                                                         *)
(* Table layout of the library (read off PreSinCosEvolSU*.txt and          *)
(* SinCosEvolSU*.txt, all five families agree): pairs in ROW-MAJOR order   *)
(* (0,1),(0,2),..,(0,d-1),(1,2),..,(d-2,d-1); buffer = [CX(0..np-1),       *)
(* SX(0..np-1)], np = d(d-1)/2; the stored sine carries the sign           *)
(* Sgn = +1 for i = 0 and -1 for i >= 1:                                   *)
(*        CX[p] = Re w_p ,   SX[p] = Sgn(p) * Im w_p .                     *)
(* The layout is pinned independently by comparing Evolve(table) with the  *)
(* exact matrix (w o A), A running over the generators.                    *)
(*                                                                         *)
(* Times / thresholds.  A time is k*U with U = 1 (u = 0) or U = pi/4       *)
(* (u = 1).  Thresholds (scale, cutoff) are HALF-integer multiples c2/2 of *)
(* the same unit with c2 odd, ramps integer multiples r: the quantities    *)
(* compared, 2|omega k| (even) against |c2| and |c2| - 2|r| (odd), are     *)
(* never equal, so no case sits on a floating-point rounding boundary      *)
(* (invariant OffBoundary).  LowPassFilter acts on |omega| itself          *)
(* (cutoff c2/2, ramp r, no unit).                                         *)
(*                                                                         *)
(* Classification per pair, x = omega (LowPass) or omega k (Avg..):        *)
(*    cut   2|x| > |c2|                      factor 0                      *)
(*    ramp  |c2| - 2|r| < 2|x| < |c2|        factor (|c2|-2|x|)/(2|r|)     *)
(*    pass  2|x| < |c2| - 2|r|               factor 1                      *)
(* 2|r| > |c2|  => the call is rejected (exception), table untouched.      *)
(* PrepareEvolve(t,scale,avr) is the hard version (r = 0) and additionally *)
(* sets avr[p] = (pair p was cut).                                         *)
(*                                                                         *)
(* Interval average over [k0,k1]*pi/4:                                     *)
(*    omega # 0 :  w = -i (z^(omega k1) - z^(omega k0)) / (omega (k1-k0))  *)
(*                     * (4/pi)          (exact Q(zeta8) scalar, pd = 1)   *)
(*    omega = 0 :  w = 1                 (pd = 0)            [Repaired]    *)
(* With Repaired = FALSE the module models the code as written             *)
(* (0/0 for coincident levels) and invariant AllFinite fails.              *)
(***************************************************************************)
EXTENDS Exact, Json

CONSTANTS Dims,        \* subset of 2..6
          FullD,       \* spectra {0..3}^d (mod shift) enumerated completely for d <= FullD
          SpecKeep,    \* for d > FullD keep 1 of SpecKeep of them (plus the special spectra)
          NPlain,      \* seeded filters per plain table (besides the complete grids)
          AvgKeep,     \* 1 of AvgKeep averaged tables gets a filter on top
          NRange,      \* seeded filters per interval table
          Chain2Keep,  \* 1 of Chain2Keep filtered tables gets a second filter
          Seed,
          Repaired     \* TRUE: interval average finite for coincident levels (the property); FALSE: as written

VARIABLES d, E, tab, fac, lastf, cls, avr, out, hist, stage,
          w, pd      \* exact multiplier per pair (all factors applied) and its 4/pi flag; S0 / 0 off the lattice
vars == <<d, E, tab, fac, lastf, cls, avr, out, hist, stage, w, pd>>

--------------------------------------------------------------------------
\* the stated parameter lattice
TimesK  == {1, 2, -1}                 \* t = k * unit
TimesK0 == TimesK \cup {0}             \* first-level tables are also prepared at t = 0 (no phase at all)
Units   == {0, 1}                     \* 0: unit 1, 1: unit pi/4
Scales2 == {1, 3, 5, -7, 9, 13}       \* averaging scale = c2/2 * unit   (signs: the code takes fabs)
Cuts2   == {1, 3, 5, -7, 9, 13}       \* cutoff = c2/2 (* unit for AvgRamp)
Ramps   == {0, 1, -2, 4}              \* ramp = r (* unit for AvgRamp); powers of two => dyadic factors
Ranges  == {<<0,1>>, <<0,2>>, <<1,3>>, <<-1,2>>, <<0,8>>, <<-3,4>>, <<-1,1>>, <<-2,2>>}   \* [k0,k1] * pi/4, k0 < k1

--------------------------------------------------------------------------
\* pairs, row-major, 0-based levels
PairSeq(dd) == LET RECURSIVE B(_,_)
                   B(i,j) == IF i >= dd - 1 THEN <<>>
                             ELSE IF j >= dd THEN B(i+1,i+2)
                             ELSE <<<<i,j>>>> \o B(i,j+1)
               IN B(0,1)
PS == [dd \in 2..6 |-> PairSeq(dd)]
NP(dd) == (dd*(dd-1)) \div 2
PI(p) == PS[d][p][1]
PJ(p) == PS[d][p][2]
Omega(p) == E[PI(p)+1] - E[PJ(p)+1]
Sgn(p) == IF PI(p) = 0 THEN 1 ELSE -1

\* rationals <<n,m>>, m > 0, reduced
RNorm(q) == LET g == Gcd(Abs(q[1]), q[2]) IN IF g <= 1 THEN q ELSE <<q[1] \div g, q[2] \div g>>
RMul(a,b) == RNorm(<<a[1]*b[1], a[2]*b[2]>>)
RLeq(a,b) == a[1]*b[2] <= b[1]*a[2]
R0 == <<0,1>>
R1 == <<1,1>>
RECURSIVE IsPow2(_)
IsPow2(n) == n = 1 \/ (n > 1 /\ n % 2 = 0 /\ IsPow2(n \div 2))

--------------------------------------------------------------------------
\* classification (three independently written predicates; Partition shows exactly one holds)
CutP(x,c2)     == 2*Abs(x) > Abs(c2)
RampP(x,c2,r)  == 2*Abs(x) <= Abs(c2) /\ 2*Abs(x) > Abs(c2) - 2*Abs(r)
PassP(x,c2,r)  == 2*Abs(x) <= Abs(c2) - 2*Abs(r)
Rejected(c2,r) == 2*Abs(r) > Abs(c2)
ClassOf(x,c2,r)  == IF CutP(x,c2) THEN "cut" ELSE IF RampP(x,c2,r) THEN "ramp" ELSE "pass"
FactorOf(x,c2,r) == IF CutP(x,c2) THEN R0
                    ELSE IF RampP(x,c2,r) THEN RNorm(<<Abs(c2) - 2*Abs(x), 2*Abs(r)>>)
                    ELSE R1

--------------------------------------------------------------------------
\* spectra
RECURSIVE HashE(_,_)
HashE(e,n) == IF n = 0 THEN Seed ELSE HashE(e,n-1) + e[n]*(n*n*7 + n*13 + 5)
MinIs0(e,dd) == (\E i \in 1..dd : e[i] = 0)
Special(dd) == { [i \in 1..dd |-> 0],                           \* fully degenerate
                 [i \in 1..dd |-> i - 1],                       \* distinct
                 [i \in 1..dd |-> dd - i],                      \* distinct, descending
                 [i \in 1..dd |-> i \div 2],                    \* pairs
                 [i \in 1..dd |-> IF i = 1 THEN 3 ELSE 0],      \* one level apart
                 [i \in 1..dd |-> IF i = dd THEN 2 ELSE 0],
                 [i \in 1..dd |-> (i*i) % 4] }
Spectra(dd) == { e \in [1..dd -> 0..3] : MinIs0(e,dd) /\ (dd <= FullD \/ HashE(e,dd) % SpecKeep = 0) }
               \cup Special(dd)

--------------------------------------------------------------------------
\* exact multiplier of the (i,j), i<j entry
NoTab == [kind |-> "none", u |-> 0, k |-> 0, k1 |-> 0]
Lattice == tab.kind = "range" \/ (tab.kind = "plain" /\ tab.u = 1)
NanP(p) == tab.kind = "range" /\ Omega(p) = 0 /\ ~Repaired
RangeW(om,k0,k1) == IF om = 0 THEN S1
                    ELSE SNorm(SDiv(SMul(Zeta(6), SSub(Zeta(om*k1), Zeta(om*k0))), om*(k1-k0)))
ScaleW(x,f) == IF f = R1 THEN x ELSE IF f = R0 THEN S0 ELSE SNorm(SDiv(SScale(f[1], x), f[2]))
\* recomputed from the base table and the cumulative factor (used by the invariants only)
BaseW(p) == IF tab.kind = "plain" THEN Zeta(tab.k * Omega(p)) ELSE RangeW(Omega(p), tab.k, tab.k1)
PiDen(p) == IF tab.kind = "range" /\ Omega(p) # 0 THEN 1 ELSE 0     \* 1: multiply by 4/pi
WOf(p,f) == ScaleW(BaseW(p), f)

--------------------------------------------------------------------------
Ones(v)  == [p \in 1..NP(d) |-> v]
Act(op,u,k,a,b) == [op |-> op, u |-> u, k |-> k, a |-> a, b |-> b]
LastAct == hist[Len(hist)]

Init == /\ d \in Dims /\ E = <<>> /\ tab = NoTab /\ fac = <<>> /\ lastf = <<>> /\ cls = <<>> /\ avr = <<>>
        /\ out = "ok" /\ hist = <<>> /\ stage = 0 /\ w = <<>> /\ pd = <<>>

ChooseSpec == /\ stage = 0
              /\ \E e \in Spectra(d) : E' = e
              /\ stage' = 1 /\ UNCHANGED <<d, tab, fac, lastf, cls, avr, out, hist, w, pd>>

\* PrepareEvolve(buffer, t)
DoPlain == /\ stage = 1
           /\ \E u \in Units : \E k \in TimesK0 :
                /\ tab' = [kind |-> "plain", u |-> u, k |-> k, k1 |-> 0]
                /\ hist' = <<Act("plain",u,k,0,0)>>
                /\ w' = [p \in 1..NP(d) |-> IF u = 1 THEN Zeta(k * Omega(p)) ELSE S0]
           /\ fac' = Ones(R1) /\ lastf' = Ones(R1) /\ cls' = Ones("none") /\ avr' = Ones(-1) /\ pd' = Ones(0)
           /\ out' = "ok" /\ stage' = 2 /\ UNCHANGED <<d,E>>

\* PrepareEvolve(buffer, t, scale, avr)
DoAvg == /\ stage = 1
         /\ \E u \in Units : \E k \in TimesK0 : \E s2 \in Scales2 :
              /\ tab' = [kind |-> "plain", u |-> u, k |-> k, k1 |-> 0]
              /\ hist' = <<Act("avg",u,k,s2,0)>>
              /\ fac'   = [p \in 1..NP(d) |-> FactorOf(Omega(p)*k, s2, 0)]
              /\ lastf' = [p \in 1..NP(d) |-> FactorOf(Omega(p)*k, s2, 0)]
              /\ cls'   = [p \in 1..NP(d) |-> ClassOf(Omega(p)*k, s2, 0)]
              /\ avr'   = [p \in 1..NP(d) |-> IF CutP(Omega(p)*k, s2) THEN 1 ELSE 0]
              /\ w'     = [p \in 1..NP(d) |-> IF u = 1 /\ ~CutP(Omega(p)*k, s2) THEN Zeta(k * Omega(p)) ELSE S0]
         /\ pd' = Ones(0) /\ out' = "ok" /\ stage' = 2 /\ UNCHANGED <<d,E>>

\* PrepareEvolve(buffer, t0, t1)
DoRange == /\ stage = 1
           /\ \E rg \in Ranges :
                /\ tab' = [kind |-> "range", u |-> 1, k |-> rg[1], k1 |-> rg[2]]
                /\ hist' = <<Act("range",1,rg[1],rg[2],0)>>
                /\ w'  = [p \in 1..NP(d) |-> RangeW(Omega(p), rg[1], rg[2])]
           /\ pd' = [p \in 1..NP(d) |-> IF Omega(p) # 0 THEN 1 ELSE 0]
           /\ fac' = Ones(R1) /\ lastf' = Ones(R1) /\ cls' = Ones("none") /\ avr' = Ones(-1)
           /\ out' = "ok" /\ stage' = 2 /\ UNCHANGED <<d,E>>

\* the 168 filter calls of the lattice, indexed 0..167:
\*   0..23 LowPass(c2,r);  24..95 AvgRamp(pi/4 unit; k,c2,r);  96..167 AvgRamp(unit 1; k,c2,r)
TimeSeq == <<1, 2, -1>>
CutSeq  == <<1, 3, 5, -7, 9, 13>>
RampSeq == <<0, 1, -2, 4>>
FA == [i \in 0..167 |->
        LET j == IF i < 24 THEN i ELSE (i - 24) % 24
            c2 == CutSeq[(j \div 4) + 1]
            r  == RampSeq[(j % 4) + 1] IN
        IF i < 24 THEN Act("lowpass",0,0,c2,r)
        ELSE Act("avgramp", IF i < 96 THEN 1 ELSE 0, TimeSeq[(((i - 24) % 72) \div 24) + 1], c2, r)]
LatticeOK == /\ {CutSeq[i] : i \in 1..6} = Cuts2 /\ {RampSeq[i] : i \in 1..4} = Ramps /\ {TimeSeq[i] : i \in 1..3} = TimesK
             /\ \A i \in 0..167 : \A j \in 0..167 : i # j => FA[i] # FA[j]

\* which filter applications are explored from which table.
\*  complete grids:  LowPass on the plain table (pi/4, k = 1);  AvgRamp (pi/4 unit) on the plain table of its own time
\*  seeded compositions: NPlain filters on every plain table, one on 1 of AvgKeep averaged tables,
\*  NRange on every interval table, one second filter on 1 of Chain2Keep filtered tables
StHash == Seed + HashE(E,d) + hist[1].k*31 + hist[1].u*53 + hist[1].a*17
          + (IF Len(hist) > 1 THEN hist[2].a*3 + hist[2].b*11 + hist[2].k*23 + hist[2].u*19 ELSE 0)
          + (IF hist[1].op = "avg" THEN 7 ELSE IF hist[1].op = "range" THEN 13 ELSE 0)
Candidates ==
   IF out # "ok" THEN {}
   ELSE IF stage = 2 /\ hist[1].op = "plain"
        THEN (IF hist[1].u = 1 /\ hist[1].k = 1 THEN {FA[i] : i \in 0..23} ELSE {})
             \cup (IF hist[1].u = 1 THEN {FA[i] : i \in {x \in 24..95 : FA[x].k = hist[1].k}} ELSE {})
             \cup {FA[(StHash*5 + n*67) % 168] : n \in 1..NPlain}
   ELSE IF stage = 2 /\ hist[1].op = "avg"
        THEN (IF StHash % AvgKeep = 0 THEN {FA[(StHash \div AvgKeep) % 168]} ELSE {})
   ELSE IF stage = 2 /\ hist[1].op = "range"
        THEN {FA[(StHash*5 + n*29) % 96] : n \in 1..NRange}          \* LowPass or AvgRamp in the pi/4 unit
   ELSE IF stage = 3
        THEN (IF StHash % Chain2Keep = 0
              THEN {FA[(StHash \div Chain2Keep) % (IF tab.kind = "range" THEN 96 ELSE 168)]} ELSE {})
   ELSE {}

ApplyFilter(a) ==
   LET xs == [p \in 1..NP(d) |-> IF a.op = "lowpass" THEN Omega(p) ELSE Omega(p)*a.k] IN   \* what the call looks at
   /\ hist' = Append(hist, a)
   /\ stage' = stage + 1
   /\ (IF Rejected(a.a, a.b)
       THEN (/\ out' = "throw" /\ cls' = Ones("none") /\ lastf' = Ones(R1) /\ UNCHANGED <<fac, w>>)
       ELSE (/\ out' = "ok"
             /\ cls'   = [p \in 1..NP(d) |-> ClassOf(xs[p], a.a, a.b)]
             /\ lastf' = [p \in 1..NP(d) |-> FactorOf(xs[p], a.a, a.b)]
             /\ fac'   = [p \in 1..NP(d) |-> RMul(fac[p], FactorOf(xs[p], a.a, a.b))]
             /\ w'     = [p \in 1..NP(d) |-> ScaleW(w[p], FactorOf(xs[p], a.a, a.b))]))
   /\ UNCHANGED <<d, E, tab, avr, pd>>

\* LowPassFilter(buffer, cutoff, ramp): on |omega|
DoLowPass == /\ stage \in {2,3}
             /\ \E a \in Candidates : a.op = "lowpass" /\ ApplyFilter(a)

\* AvgRampFilter(buffer, t, cutoff, ramp): on |omega t|
DoAvgRamp == /\ stage \in {2,3}
             /\ \E a \in Candidates : a.op = "avgramp" /\ ApplyFilter(a)

Next == ChooseSpec \/ DoPlain \/ DoAvg \/ DoRange \/ DoLowPass \/ DoAvgRamp
Spec == Init /\ [][Next]_vars

--------------------------------------------------------------------------
\* export: one line per generated library call, with the complete history that leads to it
\* (only variable look-ups under the prime: TLC does not cache operator arguments in primed contexts)
Emit == IF stage' >= 2
        THEN PrintT(<<"EDGE", ToJson([d |-> d, E |-> E, hist |-> hist', out |-> out',
                 cls |-> cls', lastf |-> lastf', fac |-> fac', avr |-> avr',
                 lat |-> IF Lattice' THEN 1 ELSE 0,
                 om  |-> [p \in 1..NP(d) |-> Omega(p)],
                 nan |-> [p \in 1..NP(d) |-> IF NanP(p)' THEN 1 ELSE 0],
                 w   |-> w', pd |-> pd'])>>)
        ELSE TRUE

--------------------------------------------------------------------------
\* invariants
TypeOK == /\ (stage = 0 => LatticeOK)
          /\ d \in 2..6 /\ stage \in 0..4 /\ out \in {"ok","throw"}
          /\ (stage >= 2 => /\ \A p \in 1..NP(d) : /\ cls[p] \in {"pass","ramp","cut","none"}
                                                   /\ fac[p][2] > 0 /\ lastf[p][2] > 0
                            /\ Len(hist) = stage - 1)

\* what the last call looked at
LastX(p) == LET a == LastAct IN IF a.op = "lowpass" THEN Omega(p) ELSE Omega(p) * a.k
Classifying == stage >= 2 /\ LastAct.op \in {"avg","lowpass","avgramp"} /\ out = "ok"

\* the three classes partition the pairs and no case sits on a threshold
Partition ==
  Classifying =>
    LET a == LastAct IN
    \A p \in 1..NP(d) :
      LET x == LastX(p)
          c == CutP(x,a.a)  r == RampP(x,a.a,a.b)  q == PassP(x,a.a,a.b) IN
      /\ (c \/ r \/ q) /\ ~(c /\ r) /\ ~(c /\ q) /\ ~(r /\ q)
      /\ cls[p] = (IF c THEN "cut" ELSE IF r THEN "ramp" ELSE "pass")
      /\ (a.op = "avg" => ~r)
OffBoundary ==
  Classifying =>
    LET a == LastAct IN
    \A p \in 1..NP(d) : 2*Abs(LastX(p)) # Abs(a.a) /\ 2*Abs(LastX(p)) # Abs(a.a) - 2*Abs(a.b)

\* factors: in [0,1], dyadic, 0 exactly for cut, 1 exactly for pass, strictly inside for ramp
FactorsOK ==
  stage >= 2 =>
    \A p \in 1..NP(d) :
      /\ RLeq(R0, fac[p]) /\ RLeq(fac[p], R1) /\ RLeq(R0, lastf[p]) /\ RLeq(lastf[p], R1)
      /\ IsPow2(fac[p][2]) /\ IsPow2(lastf[p][2])
      /\ (cls[p] = "cut"  => lastf[p] = R0 /\ fac[p] = R0)
      /\ (cls[p] \in {"pass","none"} => lastf[p] = R1)
      /\ (cls[p] = "ramp" => lastf[p] # R0 /\ lastf[p] # R1)
RejectOK == (stage >= 2 /\ out = "throw") => Rejected(LastAct.a, LastAct.b) /\ LastAct.op \in {"lowpass","avgramp"}
AcceptOK == (Classifying /\ LastAct.op # "avg") => ~Rejected(LastAct.a, LastAct.b)

\* flags of the averaging PrepareEvolve: exactly the cut pairs
FlagsOK == (stage = 2 /\ LastAct.op = "avg") =>
             \A p \in 1..NP(d) : (avr[p] = 1) = (fac[p] = R0) /\ (avr[p] = 0) = (fac[p] = R1) /\ avr[p] \in {0,1}

\* the exported multiplier is the base multiplier times the cumulative factor (recomputed from scratch)
WConsistent == stage >= 2 => \A p \in 1..NP(d) :
                 /\ (Lattice => SEq(w[p], WOf(p, fac[p])) /\ pd[p] = PiDen(p))
                 /\ (~Lattice => w[p] = S0 /\ pd[p] = 0)

\* every table entry is finite (fails with Repaired = FALSE: the code as written)
AllFinite == stage >= 2 => \A p \in 1..NP(d) : ~NanP(p)

\* coincident levels always pass untouched, with cos = 1 and sin = 0; in particular a fully degenerate spectrum
CoincidentPass ==
  (stage >= 2 /\ out = "ok") =>
    \A p \in 1..NP(d) : Omega(p) = 0 =>
       /\ fac[p] = R1 /\ cls[p] \in {"pass","none"}
       /\ (Lattice /\ ~NanP(p) => w[p] = S1 /\ pd[p] = 0)
Degenerate ==
  (stage >= 2 /\ out = "ok" /\ (\A i \in 1..d : E[i] = E[1])) =>
    \A p \in 1..NP(d) : fac[p] = R1 /\ (Lattice /\ Repaired => w[p] = S1)

\* the classification depends only on magnitudes (the code takes fabs of term, cutoff and ramp)
SignFree ==
  Classifying =>
    LET a == LastAct IN
    \A p \in 1..NP(d) : LET x == LastX(p) IN
       /\ ClassOf(x,a.a,a.b) = ClassOf(-x,-a.a,-a.b)
       /\ FactorOf(x,a.a,a.b) = FactorOf(-x,a.a,-a.b)
\* monotone in the frequency: a pair with larger |x| is never attenuated less
MonotoneX ==
  Classifying =>
    \A p \in 1..NP(d) : \A q \in 1..NP(d) :
       Abs(LastX(p)) <= Abs(LastX(q)) => RLeq(lastf[q], lastf[p])

\* compositions
\* a hard AvgRamp (ramp 0) on the plain table of the same time is the averaging PrepareEvolve
HardCutIsAvg ==
  (stage = 3 /\ out = "ok" /\ hist[1].op = "plain" /\ LastAct.op = "avgramp" /\ LastAct.b = 0
     /\ LastAct.k = hist[1].k) =>
    \A p \in 1..NP(d) : fac[p] = FactorOf(Omega(p)*hist[1].k, LastAct.a, 0)
\* cut stays cut; the cumulative factor never exceeds the last one
ProductOK ==
  (stage >= 3 /\ out = "ok") => \A p \in 1..NP(d) : RLeq(fac[p], lastf[p])

\* interval average: additivity of the integral  (k1-k0) W[k0,k1] = (m-k0) W[k0,m] + (k1-m) W[m,k1], m = k0+1,
\* the defining identity  i om (k1-k0) W = z^(om k1) - z^(om k0), and W(-om) = conj W(om)
RangeOK ==
  (stage = 2 /\ tab.kind = "range") =>
    \A p \in 1..NP(d) :
      LET om == Omega(p)  k0 == tab.k  k1 == tab.k1  m == tab.k + 1 IN
      /\ (om # 0 => /\ SEq(SScale(k1-k0, RangeW(om,k0,k1)),
                           SAdd(SScale(m-k0, RangeW(om,k0,m)), IF m = k1 THEN S0 ELSE SScale(k1-m, RangeW(om,m,k1))))
                    /\ SEq(SMul(SI, SScale(om*(k1-k0), RangeW(om,k0,k1))), SSub(Zeta(om*k1), Zeta(om*k0)))
                    /\ SEq(RangeW(-om,k0,k1), SConj(RangeW(om,k0,k1))))
      /\ (om = 0 => RangeW(om,k0,k1) = S1)

\* action property: a filter never increases a magnitude, and a rejected call changes nothing
FilterMono == [][ (stage >= 2 /\ stage' = stage + 1) =>
                    /\ \A p \in 1..NP(d) : RLeq(fac'[p], fac[p])
                    /\ (out' = "throw" => fac' = fac /\ tab' = tab /\ w' = w /\ pd' = pd) ]_vars
=============================================================================
