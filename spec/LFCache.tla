------------------------------ MODULE LFCache ------------------------------
(***************************************************************************)
(* The shared (lock-free) variant of squids::detail::cache<T,N>            *)
(* (include/SQuIDS/detail/Cache.h compiled WITHOUT SQUIDS_THREAD_LOCAL).   *)
(*                                                                         *)
(* One action per atomic operation / plain memory access of the code.  A   *)
(* thread is always parked *in front of* the access named by its pc; the   *)
(* action performs that access and the thread-local computation up to the  *)
(* next access.  The pcs are the yield points of the hooked header:        *)
(*                                                                         *)
(*   popLoad  list.load()                       in pop()                   *)
(*   popNext  entries[orig.index].next  (plain read)                       *)
(*   popCas   compare_exchange_weak(list,orig,next)                        *)
(*   pushLoad list.load()                       in push()                  *)
(*   pushLink node->next = ...          (plain write)                      *)
(*   pushCas  compare_exchange_weak(list,orig,next)                        *)
(*   insWrite entry->data = value       (plain write, insert())            *)
(*   getRead  read of entry->data       (plain read,  get())               *)
(*   ret      the public call has returned (result in .res)                *)
(*                                                                         *)
(* GetReadsAfterPush = TRUE  : get() as written at Cache.h:143-149, the    *)
(*                             payload is read after the record went back  *)
(*                             onto the free list                          *)
(*                   = FALSE : repaired order (read, then push)            *)
(*                             (all configurations of the check use FALSE; *)
(*                             TRUE is kept to show that the invariants    *)
(*                             catch the defect: LFCache_aswritten.cfg     *)
(*                             yields a 36-state behaviour in which one    *)
(*                             value is returned by two get() calls, which *)
(*                             the replayer reproduced on the real code)   *)
(* Spurious = TRUE : compare_exchange_weak may fail although the head      *)
(*                   equals the expected value                             *)
(*                                                                         *)
(* Invariants (property C19): AtMostOnce, OnlyInserted, FailedInsertKeeps, *)
(* Drain (at quiescence).  Bindings: Emit / EmitPath export transitions /  *)
(* behaviours for harness/lfcache_replay.cpp; LFCacheTrace.tla validates   *)
(* recorded executions of the real code.                                   *)
(***************************************************************************)
EXTENDS Naturals, Sequences, FiniteSets, TLC, Json

CONSTANTS N,                \* capacity (1 .. 4 in the harness)
          Threads,          \* set of thread ids (small positive integers)
          OpsPerThread,     \* public calls per thread
          GetReadsAfterPush,
          Spurious,
          RecordPath        \* TRUE: keep the behaviour in the hidden variable path (simulation)

VARIABLES nxt,      \* [0..N-1 -> 0..N]   record.next as an index, N = nullptr
          dat,      \* [0..N-1 -> Nat]    record.data, 0 = T()
          freeH,    \* [c,i] head of the free list  (counter, index; index N = empty)
          dataH,    \* [c,i] head of the data list
          th,       \* per thread: pc and the locals of the running call
          ins,      \* ghost: values whose insert succeeded (added at the linearisation point, the push CAS)
          failed,   \* ghost: values whose insert returned false
          fetched,  \* ghost: values returned by a get that popped a record
          dupl,     \* ghost: values returned by more than one get
          hist,     \* ghost, hidden by View: completed calls in return order
          path      \* ghost, hidden by View: the behaviour so far (only if RecordPath)

shared == <<nxt, dat, freeH, dataH>>
ghost  == <<ins, failed, fetched, dupl>>
vars   == <<nxt, dat, freeH, dataH, th, ins, failed, fetched, dupl, hist, path>>
\* Only the order logs are hidden.  The ghost *sets* stay in the fingerprint: TLC evaluates
\* invariants only on states that are new under the view, so hiding them would be unsound.
View   == <<nxt, dat, freeH, dataH, th, ins, failed, fetched, dupl>>

ASSUME Threads = 1 .. Cardinality(Threads)

Nil == N
Idx == 0 .. (N - 1)
Z   == [c |-> 0, i |-> 0]
ValOf(t, k) == 10 * t + k          \* the value passed by thread t's k-th call if it is an insert
Kinds == {"ins", "get"}

IdleRec(k) == [pc |-> "idle", op |-> "none", lst |-> "none", orig |-> Z, nx |-> 0,
               entry |-> Nil, val |-> 0, res |-> 0, done |-> k]

\* The state as nested tuples of integers (what the replayer compares, plus the ghost sets):
\*   << <<freeH.c, freeH.i, dataH.c, dataH.i>>, nxt[0..N-1], dat[0..N-1],
\*      per thread <<pc, op, lst, orig.c, orig.i, nx, entry, val, res, done>>, ins, failed, fetched, dupl >>
\* pc / op / lst codes as in harness/lfcache_sched.h and tools/c19_lib.py
PcCode(p) == CASE p = "idle" -> 0 [] p = "popLoad" -> 1 [] p = "popNext" -> 2 [] p = "popCas" -> 3
               [] p = "insWrite" -> 4 [] p = "pushLoad" -> 5 [] p = "pushLink" -> 6 [] p = "pushCas" -> 7
               [] p = "getRead" -> 8 [] p = "ret" -> 9
OpCode(o)  == CASE o = "none" -> 0 [] o = "ins" -> 1 [] o = "get" -> 2
LstCode(x) == CASE x = "none" -> 0 [] x = "free" -> 1 [] x = "data" -> 2
ThVec(s) == <<PcCode(s.pc), OpCode(s.op), LstCode(s.lst), s.orig.c, s.orig.i, s.nx, s.entry, s.val, s.res, s.done>>
StVec == << <<freeH.c, freeH.i, dataH.c, dataH.i>>,
            [i \in 1 .. N |-> nxt[i - 1]], [i \in 1 .. N |-> dat[i - 1]],
            [t \in 1 .. Cardinality(Threads) |-> ThVec(th[t])],
            ins, failed, fetched, dupl >>

H(l) == IF l = "free" THEN freeH ELSE dataH
SetH(l, h) == /\ freeH' = (IF l = "free" THEN h ELSE freeH)
              /\ dataH' = (IF l = "data" THEN h ELSE dataH)

Init == /\ nxt = [i \in Idx |-> IF i = 0 THEN Nil ELSE i - 1]
        /\ dat = [i \in Idx |-> 0]
        /\ freeH = [c |-> 0, i |-> N - 1]
        /\ dataH = [c |-> 0, i |-> Nil]
        /\ th = [t \in Threads |-> IdleRec(0)]
        /\ ins = {} /\ failed = {} /\ fetched = {} /\ dupl = {}
        /\ hist = <<>> /\ path = <<>>

Upd(t, s) == th' = [th EXCEPT ![t] = s]

\* pop() returned nullptr: insert returns false, get returns T()
PopNull(s) == [s EXCEPT !.pc = "ret", !.res = 0, !.orig = Z, !.nx = 0, !.lst = "none", !.entry = Nil]

AfterPop(s) ==
  IF s.op = "ins"
  THEN [s EXCEPT !.pc = "insWrite", !.entry = s.orig.i, !.orig = Z, !.nx = 0, !.lst = "none"]
  ELSE IF GetReadsAfterPush
       THEN [s EXCEPT !.pc = "pushLoad", !.entry = s.orig.i, !.orig = Z, !.nx = 0, !.lst = "free"]
       ELSE [s EXCEPT !.pc = "getRead",  !.entry = s.orig.i, !.orig = Z, !.nx = 0, !.lst = "none"]

AfterPush(s) ==
  IF s.op = "ins"
  THEN [s EXCEPT !.pc = "ret", !.res = 1, !.orig = Z, !.lst = "none"]
  ELSE IF GetReadsAfterPush
       THEN [s EXCEPT !.pc = "getRead", !.orig = Z, !.lst = "none"]
       ELSE [s EXCEPT !.pc = "ret",     !.orig = Z, !.lst = "none"]

Start(t, k) ==
  LET s == th[t] IN
  /\ s.pc = "idle" /\ s.done < OpsPerThread
  /\ Upd(t, [s EXCEPT !.pc = "popLoad", !.op = k,
                      !.lst = (IF k = "ins" THEN "free" ELSE "data"),
                      !.val = (IF k = "ins" THEN ValOf(t, s.done + 1) ELSE 0)])
  /\ UNCHANGED <<shared, ghost, hist>>

PopLoad(t) ==
  LET s == th[t]  h == H(s.lst) IN
  /\ s.pc = "popLoad"
  /\ Upd(t, IF h.i = Nil THEN PopNull(s) ELSE [s EXCEPT !.pc = "popNext", !.orig = h])
  /\ UNCHANGED <<shared, ghost, hist>>

PopReadNext(t) ==
  LET s == th[t] IN
  /\ s.pc = "popNext"
  /\ Upd(t, [s EXCEPT !.pc = "popCas", !.nx = nxt[s.orig.i]])
  /\ UNCHANGED <<shared, ghost, hist>>

PopCas(t) ==
  LET s == th[t]  h == H(s.lst) IN
  /\ s.pc = "popCas"
  /\ \/ /\ h = s.orig                                   \* success
        /\ SetH(s.lst, [c |-> h.c + 1, i |-> s.nx])
        /\ Upd(t, AfterPop(s))
     \/ /\ h = s.orig /\ Spurious                       \* spurious failure: expected reloaded (same value)
        /\ Upd(t, [s EXCEPT !.pc = "popNext", !.nx = 0])
        /\ UNCHANGED <<freeH, dataH>>
     \/ /\ h # s.orig                                   \* genuine failure: expected := current head
        /\ Upd(t, IF h.i = Nil THEN PopNull(s) ELSE [s EXCEPT !.pc = "popNext", !.orig = h, !.nx = 0])
        /\ UNCHANGED <<freeH, dataH>>
  /\ UNCHANGED <<nxt, dat, ghost, hist>>

InsWrite(t) ==
  LET s == th[t] IN
  /\ s.pc = "insWrite"
  /\ dat' = [dat EXCEPT ![s.entry] = s.val]
  /\ Upd(t, [s EXCEPT !.pc = "pushLoad", !.lst = "data"])
  /\ UNCHANGED <<nxt, freeH, dataH, ghost, hist>>

PushLoad(t) ==
  LET s == th[t] IN
  /\ s.pc = "pushLoad"
  /\ Upd(t, [s EXCEPT !.pc = "pushLink", !.orig = H(s.lst)])
  /\ UNCHANGED <<shared, ghost, hist>>

PushLink(t) ==
  LET s == th[t] IN
  /\ s.pc = "pushLink"
  /\ nxt' = [nxt EXCEPT ![s.entry] = s.orig.i]
  /\ Upd(t, [s EXCEPT !.pc = "pushCas"])
  /\ UNCHANGED <<dat, freeH, dataH, ghost, hist>>

PushCas(t) ==
  LET s == th[t]  h == H(s.lst) IN
  /\ s.pc = "pushCas"
  /\ \/ /\ h = s.orig
        /\ SetH(s.lst, [c |-> h.c + 1, i |-> s.entry])
        /\ Upd(t, AfterPush(s))
        /\ ins' = (IF s.op = "ins" THEN ins \cup {s.val} ELSE ins)
     \/ /\ h = s.orig /\ Spurious
        /\ Upd(t, [s EXCEPT !.pc = "pushLink"])
        /\ UNCHANGED <<freeH, dataH, ins>>
     \/ /\ h # s.orig
        /\ Upd(t, [s EXCEPT !.pc = "pushLink", !.orig = h])
        /\ UNCHANGED <<freeH, dataH, ins>>
  /\ UNCHANGED <<nxt, dat, failed, fetched, dupl, hist>>

GetRead(t) ==
  LET s == th[t] IN
  /\ s.pc = "getRead"
  /\ Upd(t, IF GetReadsAfterPush
            THEN [s EXCEPT !.pc = "ret", !.res = dat[s.entry]]
            ELSE [s EXCEPT !.pc = "pushLoad", !.res = dat[s.entry], !.lst = "free"])
  /\ UNCHANGED <<shared, ghost, hist>>

Return(t) ==
  LET s == th[t]
      popped == s.op = "get" /\ s.entry # Nil IN
  /\ s.pc = "ret"
  /\ failed'  = (IF s.op = "ins" /\ s.res = 0 THEN failed \cup {s.val} ELSE failed)
  /\ fetched' = (IF popped THEN fetched \cup {s.res} ELSE fetched)
  /\ dupl'    = (IF popped /\ s.res \in fetched THEN dupl \cup {s.res} ELSE dupl)
  /\ hist' = Append(hist, <<t, s.op, s.val, s.res>>)
  /\ Upd(t, IdleRec(s.done + 1))
  /\ UNCHANGED <<shared, ins>>

Mover == CHOOSE t \in Threads : th[t] # th'[t]
Rec == path' = (IF RecordPath THEN Append(path, <<Mover, StVec'>>) ELSE path)

\* named wrappers so that TLC reports coverage per action
AStart       == \E t \in Threads, k \in Kinds : Start(t, k) /\ Rec
APopLoad     == \E t \in Threads : PopLoad(t) /\ Rec
APopReadNext == \E t \in Threads : PopReadNext(t) /\ Rec
APopCas      == \E t \in Threads : PopCas(t) /\ Rec
AInsWrite    == \E t \in Threads : InsWrite(t) /\ Rec
APushLoad    == \E t \in Threads : PushLoad(t) /\ Rec
APushLink    == \E t \in Threads : PushLink(t) /\ Rec
APushCas     == \E t \in Threads : PushCas(t) /\ Rec
AGetRead     == \E t \in Threads : GetRead(t) /\ Rec
AReturn      == \E t \in Threads : Return(t) /\ Rec

Next == \/ AStart \/ APopLoad \/ APopReadNext \/ APopCas \/ AInsWrite
        \/ APushLoad \/ APushLink \/ APushCas \/ AGetRead \/ AReturn

Spec == Init /\ [][Next]_vars

-----------------------------------------------------------------------------
RECURSIVE Walk(_, _)
Walk(i, fuel) == IF i = Nil \/ fuel = 0 THEN <<>> ELSE <<i>> \o Walk(nxt[i], fuel - 1)
Range(s) == {s[k] : k \in DOMAIN s}

PCs == {"idle", "popLoad", "popNext", "popCas", "insWrite", "pushLoad", "pushLink", "pushCas", "getRead", "ret"}
HeadOK(h) == h.c \in Nat /\ h.i \in 0 .. N
TypeOK ==
  /\ \A i \in Idx : nxt[i] \in 0 .. N /\ dat[i] \in Nat
  /\ HeadOK(freeH) /\ HeadOK(dataH)
  /\ \A t \in Threads : /\ th[t].pc \in PCs /\ th[t].op \in Kinds \cup {"none"}
                        /\ th[t].entry \in 0 .. N /\ th[t].done \in 0 .. OpsPerThread
                        /\ (th[t].pc \in {"insWrite", "pushLoad", "pushLink", "pushCas", "getRead"} => th[t].entry # Nil)

Quiescent == \A t \in Threads : th[t].pc = "idle"

\* each successfully inserted block is returned by at most one fetch
AtMostOnce == dupl = {}
\* nothing is returned that was not inserted (0 = T() returned although a record was popped counts as foreign)
OnlyInserted == fetched \subseteq ins
\* a failed insert leaves the block with its caller: the cache never holds or hands out the value
FailedInsertKeeps == /\ failed \cap ins = {}
                     /\ failed \cap fetched = {}
                     /\ \A i \in Idx : dat[i] \notin failed
\* at quiescence the two lists partition the records and the data list holds exactly ins \ fetched, each once
Drain == Quiescent =>
  LET dl == Walk(dataH.i, N + 1)  fl == Walk(freeH.i, N + 1) IN
  /\ Len(dl) + Len(fl) = N
  /\ Range(dl) \cup Range(fl) = Idx
  /\ {dat[dl[k]] : k \in DOMAIN dl} = ins \ fetched
  /\ Cardinality(ins \ fetched) = Len(dl)

AllDone == \A t \in Threads : th[t].pc = "idle" /\ th[t].done = OpsPerThread

-----------------------------------------------------------------------------
\* binding A, exhaustive: one line per generated transition   "EDGE <thread> <from> <to>"
\* (a single string: TLC's pretty-printer wraps long tuples over several lines)
Emit == PrintT("EDGE " \o ToString(Mover) \o " " \o ToJson(StVec) \o " " \o ToJson(StVec'))
\* binding A, simulation (RecordPath = TRUE): one line per completed behaviour   "PATH [[thread, state], ...]"
EmitPath == IF AllDone' THEN PrintT("PATH " \o ToJson(path')) ELSE TRUE
=============================================================================
