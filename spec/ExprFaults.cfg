SPECIFICATION Spec
ACTION_CONSTRAINT Emit
CHECK_DEADLOCK FALSE
