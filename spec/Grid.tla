-------------------------------- MODULE Grid --------------------------------
(***************************************************************************)
(* C17: node grids and the index lookup SQuIDS::Get_i.                     *)
(*                                                                         *)
(* A grid is a strictly increasing sequence of integers g (here 4*node so  *)
(* that queries on the quarter-integer lattice are integers, x = 4*xi).    *)
(* The machine: pick a grid, call Get_i(x), run the lookup ONE LOOP        *)
(* ITERATION PER STEP, return.  Two algorithms:                            *)
(*                                                                         *)
(*  Repaired = FALSE : the bisection exactly as coded in SQuIDS.cpp        *)
(*     nr=nx-1; nl=0; xl=x[nl]; xr=x[nr]; range check;                     *)
(*     while(nr-nl>1){ if((nr-nl)%2){ if(nr<nx-1)nr++; else if(nl>0)nl--;} *)
(*        if(xi < xl+(xr-xl)/2){ nr=nl+(nr-nl)/2; xr=x[nr]; }              *)
(*        else                 { nl=nl+(nr-nl)/2; xl=x[nl]; } }  return nl *)
(*     i.e. the odd-interval adjustment moves nr/nl WITHOUT refreshing     *)
(*     xr/xl (stale), and the ARITHMETIC midpoint of xl,xr is compared     *)
(*     while the INDEX midpoint is taken.                                  *)
(*  Repaired = TRUE  : bisection on the node values (std::upper_bound:     *)
(*     number of nodes <= xi), last interval for xi = x_last.              *)
(*                                                                         *)
(* Invariant ResultOK: the call returns an element of Bracket(g,x) when x  *)
(* is in [g_first,g_last] and raises an error exactly otherwise.           *)
(* The vector overload's accept/reject rule is action SetVec.              *)
(* Every chosen grid is exported with the table of admissible answers for  *)
(* every x (ACTION_CONSTRAINT Emit); the replayer executes all of them on  *)
(* a real SQuIDS object.                                                   *)
(***************************************************************************)
EXTENDS GridOps, TLC, Json

CONSTANTS NxSet,      \* numbers of nodes explored
          MaxVal,     \* nodes are 4*v, v in 0..MaxVal ; queries x in -4..4*MaxVal+4
          Repaired,   \* BOOLEAN: which algorithm
          GridMode,   \* "all" | "uniform" | "seeded" (all uniform + 1 of SeedKeep non-uniform)
          SeedKeep,
          VecNx,      \* object sizes for the vector overload cases
          VecMaxLen,  \* input vectors have length 1..VecMaxLen over 0..VecMaxVal
          VecMaxVal

VARIABLES pc,   \* "idle" "grid" "loop" "done" "vec"
          g,    \* the grid (sequence, values 4*node)
          x,    \* the query, 4*xi
          nl, nr, xl, xr,   \* the locals of Get_i (repaired: nl = first, nr = count)
          res,  \* returned index, Throw = -1 for the error
          it,   \* loop iterations executed
          vec   \* [nx, v, verdict] for the vector overload

vars == <<pc,g,x,nl,nr,xl,xr,res,it,vec>>

XLo == -4
XHi == 4*MaxVal + 4
XSet == XLo..XHi
nx == Len(g)
Node(i) == g[i+1]                     \* the code's x[i]

Hash(S) == LET s == SeqOfSet(S) IN
           LET RECURSIVE H(_)
               H(i) == IF i = 0 THEN 7 ELSE (H(i-1)*31 + s[i]*(i+2) + 5) % 1009
           IN H(Len(s))
GridSets == { S \in SUBSET (0..MaxVal) : Cardinality(S) \in NxSet }
Scaled(S) == LET s == SeqOfSet(S) IN [i \in 1..Len(s) |-> 4*s[i]]
Keep(S) == \/ GridMode = "all"
           \/ IsUniform(SeqOfSet(S))
           \/ GridMode = "seeded" /\ Hash(S) % SeedKeep = 0

NoVec == [nx |-> 0, v |-> <<>>, verdict |-> "none"]
Init == /\ pc = "idle" /\ g = <<>> /\ x = 0 /\ nl = 0 /\ nr = 0 /\ xl = 0 /\ xr = 0
        /\ res = 0 /\ it = 0 /\ vec = NoVec

ChooseGrid == /\ pc = "idle"
              /\ \E S \in GridSets : Keep(S) /\ g' = Scaled(S)
              /\ pc' = "grid"
              /\ UNCHANGED <<x,nl,nr,xl,xr,res,it,vec>>

\* Get_i(x): prologue with the range check
Call == /\ pc = "grid"
        /\ \E xx \in XSet :
             /\ x' = xx
             /\ IF xx > g[nx] \/ xx < g[1]
                THEN /\ pc' = "done" /\ res' = Throw
                     /\ UNCHANGED <<nl,nr,xl,xr>>
                ELSE /\ pc' = "loop" /\ res' = 0
                     /\ (IF Repaired THEN nl' = 0 /\ nr' = nx /\ xl' = 0 /\ xr' = 0      \* first, count
                                     ELSE nl' = 0 /\ nr' = nx-1 /\ xl' = g[1] /\ xr' = g[nx])
        /\ it' = 0 /\ UNCHANGED <<g,vec>>

\* one iteration of the loop as coded
IterCoded ==
   /\ pc = "loop" /\ ~Repaired /\ nr - nl > 1
   /\ LET odd == (nr - nl) % 2 # 0
          nr1 == IF odd /\ nr < nx-1 THEN nr + 1 ELSE nr
          nl1 == IF odd /\ ~(nr < nx-1) /\ nl > 0 THEN nl - 1 ELSE nl
          mid == xl + (xr - xl) \div 2                   \* exact: nodes are multiples of 4
          h   == nl1 + (nr1 - nl1) \div 2
      IN (IF x < mid
          THEN nr' = h /\ xr' = Node(h) /\ nl' = nl1 /\ xl' = xl
          ELSE nl' = h /\ xl' = Node(h) /\ nr' = nr1 /\ xr' = xr)
   /\ it' = it + 1 /\ UNCHANGED <<pc,g,x,res,vec>>
RetCoded == /\ pc = "loop" /\ ~Repaired /\ nr - nl <= 1
            /\ res' = nl /\ pc' = "done" /\ UNCHANGED <<g,x,nl,nr,xl,xr,it,vec>>

\* one iteration of std::upper_bound(x.begin(),x.end(),xi): first = nl, count = nr
IterRep ==
   /\ pc = "loop" /\ Repaired /\ nr > 0
   /\ LET step == nr \div 2
          m == nl + step
      IN (IF ~(x < Node(m)) THEN nl' = m + 1 /\ nr' = nr - (step + 1)
                            ELSE nl' = nl /\ nr' = step)
   /\ it' = it + 1 /\ UNCHANGED <<pc,g,x,xl,xr,res,vec>>
\* nl = number of nodes <= xi (>= 1 after the range check); xi = x_last -> last interval
RetRep == /\ pc = "loop" /\ Repaired /\ nr = 0
          /\ res' = (IF nl >= nx THEN nx - 1 ELSE nl) - 1
          /\ pc' = "done" /\ UNCHANGED <<g,x,nl,nr,xl,xr,it,vec>>

\* the vector overload on an object with n nodes
VecInputs == UNION { [1..len -> 0..VecMaxVal] : len \in 1..VecMaxLen }
SetVec == /\ pc = "idle"
          /\ \E n \in VecNx : \E v \in VecInputs :
               vec' = [nx |-> n, v |-> [i \in 1..Len(v) |-> 4*v[i]], verdict |-> VecVerdict(n,v)]
          /\ pc' = "vec" /\ UNCHANGED <<g,x,nl,nr,xl,xr,res,it>>

Next == ChooseGrid \/ Call \/ IterCoded \/ RetCoded \/ IterRep \/ RetRep \/ SetVec
Spec == Init /\ [][Next]_vars

--------------------------------------------------------------------------
TypeOK == /\ pc \in {"idle","grid","loop","done","vec"}
          /\ (pc \in {"grid","loop","done"} => IsGrid(g))
\* every node read stays inside the array
IndexSafe == (pc = "loop" /\ ~Repaired) => (0 <= nl /\ nl <= nr /\ nr <= nx - 1)
IndexSafeRep == (pc = "loop" /\ Repaired) => (0 <= nl /\ nl + nr <= nx)
\* the property
ResultOK == pc = "done" => res \in Allowed(g,x)
ThrowsIffOutside == pc = "done" => ((res = Throw) <=> ~InRange(g,x))
Terminates == it <= 2 * nx
GridFacts == pc = "grid" => BracketFacts(g)
\* an accepted vector is a grid the lookup can be asked about; a rejected one has a reason
VecRule == pc = "vec" =>
             /\ (vec.verdict = "accept" => IsGrid(vec.v) \/ (vec.nx = 1 /\ Len(vec.v) = 1))
             /\ (vec.verdict = "reject" => Len(vec.v) # vec.nx \/ ~IsSorted(vec.v))
             /\ (vec.verdict = "either" => Len(vec.v) = vec.nx /\ IsSorted(vec.v) /\ ~IsGrid(vec.v))

--------------------------------------------------------------------------
\* export: one line per grid with the admissible answers for every x, one line per vector case
NXs == XHi - XLo + 1
Emit == IF pc = "idle" /\ pc' = "grid"
        THEN PrintT(<<"EDGE", ToJson([k |-> "grid", g |-> g', lin |-> IsUniform(g'), xlo |-> XLo,
                                      allowed |-> [q \in 1..NXs |-> Allowed(g', XLo + q - 1)]])>>)
        ELSE IF pc' = "vec"
        THEN PrintT(<<"EDGE", ToJson([k |-> "vec", nx |-> vec'.nx, v |-> vec'.v, verdict |-> vec'.verdict])>>)
        ELSE TRUE
=============================================================================
