------------------------------ MODULE GridOps ------------------------------
(***************************************************************************)
(* Node grids of a SQuIDS object and what a lookup may answer (C17, C05).  *)
(* Pure definitions, no state.  A grid is a sequence of integers (1-based  *)
(* here, the code's indices are 0-based: node i of the code is g[i+1]).    *)
(* The integers are any order-isomorphic image of the doubles the code     *)
(* sees: x4 = 4x for grids of integers queried on the quarter-integer      *)
(* lattice, or ranks for general doubles (bracketing only depends on       *)
(* order).                                                                 *)
(***************************************************************************)
EXTENDS Integers, Sequences, FiniteSets

IsGrid(g)     == Len(g) >= 2 /\ \A i \in 1..(Len(g)-1) : g[i] < g[i+1]      \* strictly increasing, >= 2 nodes
IsSorted(g)   == \A i \in 1..(Len(g)-1) : g[i] <= g[i+1]                     \* what "sorted" means for input
HasDescent(g) == \E i \in 1..(Len(g)-1) : g[i] > g[i+1]
InRange(g,x)  == g[1] <= x /\ x <= g[Len(g)]

\* the admissible answers of Get_i(x): 0-based i <= nx-2 with x_i <= x <= x_{i+1}
\* (for x = x_last this is exactly {nx-2}: "the last interval for x = b")
Bracket(g,x)  == { i \in 0..(Len(g)-2) : g[i+1] <= x /\ x <= g[i+2] }

\* the verdict a lookup must have: -1 encodes "raises an error"
Throw == -1
Allowed(g,x)  == IF InRange(g,x) THEN Bracket(g,x) ELSE {Throw}

\* the vector overload Set_xrange(xs) on an object with nx nodes:
\*   wrong size or a descent  -> must be rejected
\*   right size and strictly increasing -> must be stored exactly
\*   right size, non-decreasing with ties -> "sorted" in the weak sense; the property does not decide (either)
VecVerdict(nx,v) == IF Len(v) # nx \/ HasDescent(v) THEN "reject"
                    ELSE IF \A i \in 1..(Len(v)-1) : v[i] < v[i+1] THEN "accept" ELSE "either"

\* Set_xrange(a,b,"linear") when (nx-1) divides b-a: nodes are exactly a + m*i
IsUniform(g)  == \A i \in 1..(Len(g)-1) : g[i+1] - g[i] = g[2] - g[1]
LinGrid(a,b,nx) == [i \in 1..nx |-> a + ((b - a) * (i-1)) \div (nx-1)]

\* facts about a grid with a non-empty range
BracketFacts(g) ==
   /\ \A x \in g[1]..g[Len(g)] : Bracket(g,x) # {} /\ Cardinality(Bracket(g,x)) <= 2
   /\ Bracket(g, g[Len(g)]) = {Len(g) - 2}
   /\ Bracket(g, g[1]) = {0}

\* sorted sequence of a finite set of integers
RECURSIVE SeqOfSet(_)
SeqOfSet(S) == IF S = {} THEN <<>>
               ELSE LET m == CHOOSE y \in S : \A z \in S : y <= z IN <<m>> \o SeqOfSet(S \ {m})
=============================================================================
