------------------------------- MODULE Solver -------------------------------
(***************************************************************************)
(* The protocol between a SQuIDS object, GSL's ODE driver and the user's   *)
(* virtual callbacks (C10, protocol part of C04).                          *)
(*                                                                         *)
(* Per object: the address of its own state array (sys), where the in-step *)
(* views of the state (estate) and of the derivative (dstate) point, the   *)
(* last-pointer cache of set_system_pointers (lastE, lastD) EXACTLY AS     *)
(* CODED, the five term switches and AnyNumerics, the clock in quarter     *)
(* ticks, and the shape (nx, nrhos, nscalars).                             *)
(*                                                                         *)
(* A numerical Evolve is several steps: EvolveStart (a driver is created   *)
(* and owns some buffers), any number of Rhs(sp,dp) calls made by the      *)
(* driver, EvolveEnd (driver freed, views re-aliased to sys; lastE is NOT  *)
(* reset - as coded).  Addresses of freed driver buffers may be reused by  *)
(* a later driver or by a later state array.                               *)
(*                                                                         *)
(* Environment assumption GslContract (checked on every recorded trace):   *)
(* within one run sp is sys or a driver buffer, dp is a driver buffer, and *)
(* the FIRST right-hand side of a run is evaluated at sys.                 *)
(***************************************************************************)
EXTENDS Integers, Sequences, FiniteSets, TLC

CONSTANTS Objs,       \* object identifiers
          Addrs,      \* abstract addresses (0 is the null pointer)
          MaxSteps,   \* bound on steps in exploration
          FirstAtSys  \* TRUE: assume GslContract's "first evaluation at the caller's array"

VARIABLES obj, drv, steps, bad

vars == <<obj, drv, steps, bad>>

NoObj == [alive |-> FALSE, inited |-> FALSE, sys |-> 0, ebind |-> 0, dbind |-> 0, lastE |-> 0, lastD |-> 0,
          sw |-> <<FALSE,FALSE,FALSE,FALSE,FALSE>>, any |-> FALSE, t4 |-> 0, nx |-> 0, nrhos |-> 0, nsc |-> 0]
NoDrv == [o |-> 0, bufs |-> {}, nrhs |-> 0]

InUse == {obj[o].sys : o \in {x \in Objs : obj[x].inited}} \cup drv.bufs
FreeAddrs == (Addrs \ {0}) \ InUse

Init == obj = [o \in Objs |-> NoObj] /\ drv = NoDrv /\ steps = 0 /\ bad = FALSE

\* SQuIDS::ini : a fresh state array, views alias it, caches cleared, clock restarted
Ini(o, a, nx, nrhos, nsc, t4) ==
  /\ drv.o = 0
  /\ a \in FreeAddrs \cup {obj[o].sys} /\ a # 0
  /\ obj' = [obj EXCEPT ![o] = [NoObj EXCEPT !.alive = TRUE, !.inited = TRUE, !.sys = a, !.ebind = a, !.dbind = 0,
                                             !.sw = obj[o].sw, !.any = obj[o].any, !.t4 = t4, !.nx = nx, !.nrhos = nrhos, !.nsc = nsc]]
  /\ UNCHANGED <<drv, bad>>

AnyOf(sw) == sw[1] \/ sw[2] \/ sw[3] \/ sw[4] \/ sw[5]
SetSwitch(o, k, b) ==
  /\ obj' = [obj EXCEPT ![o].sw = [@ EXCEPT ![k] = b], ![o].any = AnyOf([obj[o].sw EXCEPT ![k] = b])]
  /\ UNCHANGED <<drv, bad>>
SetAny(o, b) == obj' = [obj EXCEPT ![o].any = b] /\ UNCHANGED <<drv, bad>>

\* Evolve(dt) with numerics: driver allocated with some buffers
EvolveStart(o, bufs) ==
  /\ obj[o].inited /\ obj[o].any /\ drv.o = 0
  /\ bufs \subseteq FreeAddrs /\ bufs # {}
  /\ drv' = [o |-> o, bufs |-> bufs, nrhs |-> 0]
  /\ UNCHANGED <<obj, bad>>

\* one right-hand-side evaluation: set_system_pointers(sp,dp) with the last-pointer cache as coded
Rebind(r, sp, dp) == [r EXCEPT !.ebind = IF sp # r.lastE THEN sp ELSE r.ebind, !.lastE = sp,
                               !.dbind = IF dp # r.lastD THEN dp ELSE r.dbind, !.lastD = dp]
GslContract(o, sp, dp) ==
  /\ sp \in {obj[o].sys} \cup drv.bufs /\ dp \in drv.bufs
  /\ (FirstAtSys /\ drv.nrhs = 0 => sp = obj[o].sys)
Rhs(o, sp, dp) ==
  /\ drv.o = o /\ GslContract(o, sp, dp)
  /\ obj' = [obj EXCEPT ![o] = Rebind(obj[o], sp, dp)]
  /\ drv' = [drv EXCEPT !.nrhs = @ + 1]
  \* the requirement: the views the term functions read and write are the arrays GSL passed
  /\ bad' = (bad \/ Rebind(obj[o], sp, dp).ebind # sp \/ Rebind(obj[o], sp, dp).dbind # dp)

\* driver freed, in-step view re-aliased to the stored state; the caches keep their last values
EvolveEnd(o, dt4) ==
  /\ drv.o = o
  /\ obj' = [obj EXCEPT ![o].ebind = obj[o].sys, ![o].t4 = @ + dt4]
  /\ drv' = NoDrv
  /\ UNCHANGED bad
\* Evolve(dt) without numerics: only the clock moves
EvolveNoNum(o, dt4) ==
  /\ obj[o].inited /\ ~obj[o].any /\ drv.o = 0
  /\ obj' = [obj EXCEPT ![o].t4 = @ + dt4]
  /\ UNCHANGED <<drv, bad>>

\* move construction / move assignment: the destination takes everything, the source is no longer initialised
MoveTo(dst, src) ==
  /\ dst # src /\ obj[src].inited /\ drv.o = 0
  /\ obj' = [obj EXCEPT ![dst] = [obj[src] EXCEPT !.alive = TRUE], ![src] = [obj[src] EXCEPT !.inited = FALSE, !.sys = 0]]
  /\ UNCHANGED <<drv, bad>>

Next ==
  /\ steps < MaxSteps /\ steps' = steps + 1
  /\ \/ \E o \in Objs, a \in Addrs \ {0} : Ini(o, a, 1, 1, 0, 0)
     \/ \E o \in Objs : SetAny(o, TRUE)
     \/ \E o \in Objs, B \in SUBSET (Addrs \ {0}) : Cardinality(B) \in 1..2 /\ EvolveStart(o, B)
     \/ \E o \in Objs, sp \in Addrs, dp \in Addrs : Rhs(o, sp, dp)
     \/ \E o \in Objs : EvolveEnd(o, 4)
     \/ \E o \in Objs : EvolveNoNum(o, 4)
     \/ \E d \in Objs, s \in Objs : MoveTo(d, s)
Spec == Init /\ [][Next]_vars

\* Requirements ---------------------------------------------------------------------------
\* C10: at every right-hand-side evaluation the views are bound to the arrays the stepper passed
BindOK == ~bad
\* C10: between Evolve calls the in-step view coincides with the stored state
AfterEvolve == \A o \in Objs : obj[o].inited /\ drv.o # o => obj[o].ebind = obj[o].sys
\* at most one owner per state array
SysUnique == \A a, b \in Objs : a # b /\ obj[a].inited /\ obj[b].inited => obj[a].sys # obj[b].sys

\* the callback discipline of one Derive: PreDerive, then node-major, per density matrix the enabled terms in the
\* documented order, then per scalar the enabled terms; every call with that node's and that matrix's/scalar's index
RECURSIVE SeqCat(_,_)
SeqCat(f, n) == IF n = 0 THEN <<>> ELSE SeqCat(f, n-1) \o f[n]
ExpectedCalls(r) ==
  <<<<"PreDerive",-1,-1>>>> \o
  SeqCat([e \in 1..r.nx |->
            SeqCat([i \in 1..r.nrhos |->
                     (IF r.sw[1] THEN <<<<"HI",e-1,i-1>>>> ELSE <<>>) \o
                     (IF r.sw[2] THEN <<<<"GammaRho",e-1,i-1>>>> ELSE <<>>) \o
                     (IF r.sw[3] THEN <<<<"InteractionsRho",e-1,i-1>>>> ELSE <<>>)], r.nrhos) \o
            SeqCat([k \in 1..r.nsc |->
                     (IF r.sw[4] THEN <<<<"GammaScalar",e-1,k-1>>>> ELSE <<>>) \o
                     (IF r.sw[5] THEN <<<<"InteractionsScalar",e-1,k-1>>>> ELSE <<>>)], r.nsc)], r.nx)
=============================================================================
