\* the interval average as the code is written (0/0 for coincident levels): AllFinite is expected to FAIL
SPECIFICATION Spec
CONSTANTS
  Dims = {2,3}
  FullD = 4
  SpecKeep = 1
  NPlain = 1
  AvgKeep = 4
  NRange = 2
  Chain2Keep = 8
  Seed = 1
  Repaired = FALSE
INVARIANTS TypeOK AllFinite
CHECK_DEADLOCK FALSE
