------------------------------- MODULE Threads -------------------------------
(***************************************************************************)
(* Independent use of the library from several threads (C18).              *)
(*                                                                         *)
(* Each thread has its own block cache (thread-local storage); the heap is *)
(* shared.  A block is free, held by a vector of some thread, in some      *)
(* thread's cache, or in flight in the hand-over channel (a vector moved   *)
(* into a mutex-protected queue).  Send/Recv are the only synchronisation. *)
(* A block allocated on one thread may be released on another: it then     *)
(* goes into the RELEASING thread's cache (or back to the heap).           *)
(* Exit(t): thread t ends.  DrainOnExit = TRUE is the requirement (storage *)
(* cached by a thread is given back when the thread ends); FALSE is the    *)
(* code as written (the thread-local cache has no destructor).             *)
(* Every block carries the thread that may access its memory (holder); an  *)
(* access by another thread without an intervening Send/Recv is a race.    *)
(***************************************************************************)
EXTENDS Integers, FiniteSets, Sequences, TLC

CONSTANTS Threads, NBlk, Cap, MaxOps, DrainOnExit

VARIABLES blk, cache, chan, alive, nops, raced

vars == <<blk, cache, chan, alive, nops, raced>>
Blocks == 1..NBlk
Free == [st |-> "free", th |-> 0]

Init == /\ blk = [b \in Blocks |-> Free]
        /\ cache = [t \in Threads |-> {}]
        /\ chan = {}
        /\ alive = [t \in Threads |-> TRUE]
        /\ nops = 0 /\ raced = FALSE

\* a vector is created on thread t: a block from t's cache or a fresh one
AllocHit(t, b) == /\ alive[t] /\ b \in cache[t]
                  /\ blk' = [blk EXCEPT ![b] = [st |-> "vec", th |-> t]]
                  /\ cache' = [cache EXCEPT ![t] = @ \ {b}]
                  /\ UNCHANGED <<chan, alive, raced>>
AllocNew(t, b) == /\ alive[t] /\ blk[b].st = "free"
                  /\ blk' = [blk EXCEPT ![b] = [st |-> "vec", th |-> t]]
                  /\ UNCHANGED <<cache, chan, alive, raced>>
\* a vector held by thread t is destroyed: its block goes into t's cache (if room) or back to the heap
ReleaseCache(t, b) == /\ alive[t] /\ blk[b] = [st |-> "vec", th |-> t] /\ Cardinality(cache[t]) < Cap
                      /\ blk' = [blk EXCEPT ![b] = [st |-> "cached", th |-> t]]
                      /\ cache' = [cache EXCEPT ![t] = @ \cup {b}]
                      /\ UNCHANGED <<chan, alive, raced>>
ReleaseFree(t, b) == /\ alive[t] /\ blk[b] = [st |-> "vec", th |-> t]
                     /\ blk' = [blk EXCEPT ![b] = Free]
                     /\ UNCHANGED <<cache, chan, alive, raced>>
\* thread t reads or writes the components of a vector: a race iff t is not the holder
Access(t, b) == /\ alive[t] /\ blk[b].st = "vec"
                /\ raced' = (raced \/ blk[b].th # t)
                /\ UNCHANGED <<blk, cache, chan, alive>>
\* hand-over through the queue
Send(t, b) == /\ alive[t] /\ blk[b] = [st |-> "vec", th |-> t]
              /\ blk' = [blk EXCEPT ![b] = [st |-> "chan", th |-> 0]]
              /\ chan' = chan \cup {b}
              /\ UNCHANGED <<cache, alive, raced>>
Recv(t, b) == /\ alive[t] /\ b \in chan
              /\ blk' = [blk EXCEPT ![b] = [st |-> "vec", th |-> t]]
              /\ chan' = chan \ {b}
              /\ UNCHANGED <<cache, alive, raced>>
\* the thread ends (it holds no vectors any more)
Exit(t) == /\ alive[t] /\ \A b \in Blocks : ~(blk[b].st = "vec" /\ blk[b].th = t)
           /\ alive' = [alive EXCEPT ![t] = FALSE]
           /\ IF DrainOnExit
              THEN /\ blk' = [b \in Blocks |-> IF b \in cache[t] THEN Free ELSE blk[b]]
                   /\ cache' = [cache EXCEPT ![t] = {}]
              ELSE UNCHANGED <<blk, cache>>
           /\ UNCHANGED <<chan, raced>>

\* in exploration a thread only ever touches vectors it holds (the discipline the property assumes)
Next == /\ nops < MaxOps /\ nops' = nops + 1
        /\ \E t \in Threads, b \in Blocks :
             \/ AllocHit(t,b) \/ AllocNew(t,b) \/ ReleaseCache(t,b) \/ ReleaseFree(t,b)
             \/ (blk[b].th = t /\ Access(t,b)) \/ Send(t,b) \/ Recv(t,b) \/ Exit(t)
Spec == Init /\ [][Next]_vars

\* Requirements -----------------------------------------------------------------------------
RaceFree == ~raced
HeapSoundT ==
  /\ \A b \in Blocks : (blk[b].st = "cached") = (\E t \in Threads : b \in cache[t])
  /\ \A b \in Blocks : blk[b].st = "cached" => b \in cache[blk[b].th]
  /\ \A t1, t2 \in Threads : t1 # t2 => cache[t1] \cap cache[t2] = {}
  /\ \A b \in Blocks : (blk[b].st = "chan") = (b \in chan)
  /\ \A t \in Threads : Cardinality(cache[t]) <= Cap
\* storage cached by a thread is given back when the thread ends
NoBlockInDeadCache == \A t \in Threads : ~alive[t] => cache[t] = {}
=============================================================================
