------------------------------- MODULE Threads -------------------------------
(***************************************************************************)
(* Independent use of the library from several threads (C18).              *)
(*                                                                         *)
(* Each thread has its own block cache (thread-local storage); the heap is *)
(* shared.  A block is free, held by a vector of some thread, in some      *)
(* thread's cache, or in flight in the hand-over channel (a vector moved   *)
(* into a mutex-protected queue).  Send/Recv are the only synchronisation. *)
(* A block allocated on one thread may be released on another: it then     *)
(* goes into the RELEASING thread's cache (or back to the heap).           *)
(* Exit(t): thread t ends.  DrainOnExit = TRUE is the requirement (storage *)
(* cached by a thread is given back when the thread ends); FALSE is the    *)
(* code as written (the thread-local cache has no destructor).             *)
(* Every block carries the thread that may access its memory (holder); an  *)
(* access by another thread without an intervening Send/Recv is a race.    *)
(* Scratch objects (the random generator of the norm estimator, work       *)
(* spaces of the matrix exponential) are mutable library-internal state:   *)
(* each is made by a thread on first need, used by that thread only, and   *)
(* dropped when the thread ends.  Using a scratch object made by another   *)
(* thread is a race (nothing synchronises it).  NRes = 0 leaves them out.  *)
(***************************************************************************)
EXTENDS Integers, FiniteSets, Sequences, TLC

CONSTANTS Threads, NBlk, Cap, MaxOps, DrainOnExit, NRes, SharedScratch

VARIABLES blk, cache, chan, alive, nops, raced, res

vars == <<blk, cache, chan, alive, nops, raced, res>>
Res == 1..NRes
Blocks == 1..NBlk
Free == [st |-> "free", th |-> 0]

Init == /\ blk = [b \in Blocks |-> Free]
        /\ cache = [t \in Threads |-> {}]
        /\ chan = {}
        /\ alive = [t \in Threads |-> TRUE]
        /\ nops = 0 /\ raced = FALSE
        /\ res = [r \in Res |-> 0]

\* a vector is created on thread t: a block from t's cache or a fresh one
AllocHit(t, b) == /\ alive[t] /\ b \in cache[t]
                  /\ blk' = [blk EXCEPT ![b] = [st |-> "vec", th |-> t]]
                  /\ cache' = [cache EXCEPT ![t] = @ \ {b}]
                  /\ UNCHANGED <<chan, alive, raced, res>>
AllocNew(t, b) == /\ alive[t] /\ blk[b].st = "free"
                  /\ blk' = [blk EXCEPT ![b] = [st |-> "vec", th |-> t]]
                  /\ UNCHANGED <<cache, chan, alive, raced, res>>
\* a vector held by thread t is destroyed: its block goes into t's cache (if room) or back to the heap
ReleaseCache(t, b) == /\ alive[t] /\ blk[b] = [st |-> "vec", th |-> t] /\ Cardinality(cache[t]) < Cap
                      /\ blk' = [blk EXCEPT ![b] = [st |-> "cached", th |-> t]]
                      /\ cache' = [cache EXCEPT ![t] = @ \cup {b}]
                      /\ UNCHANGED <<chan, alive, raced, res>>
ReleaseFree(t, b) == /\ alive[t] /\ blk[b] = [st |-> "vec", th |-> t]
                     /\ blk' = [blk EXCEPT ![b] = Free]
                     /\ UNCHANGED <<cache, chan, alive, raced, res>>
\* thread t reads or writes the components of a vector: a race iff t is not the holder
Access(t, b) == /\ alive[t] /\ blk[b].st = "vec"
                /\ raced' = (raced \/ blk[b].th # t)
                /\ UNCHANGED <<blk, cache, chan, alive, res>>
\* hand-over through the queue
Send(t, b) == /\ alive[t] /\ blk[b] = [st |-> "vec", th |-> t]
              /\ blk' = [blk EXCEPT ![b] = [st |-> "chan", th |-> 0]]
              /\ chan' = chan \cup {b}
              /\ UNCHANGED <<cache, alive, raced, res>>
Recv(t, b) == /\ alive[t] /\ b \in chan
              /\ blk' = [blk EXCEPT ![b] = [st |-> "vec", th |-> t]]
              /\ chan' = chan \ {b}
              /\ UNCHANGED <<cache, alive, raced, res>>
\* the thread ends (it holds no vectors any more)
Exit(t) == /\ alive[t] /\ \A b \in Blocks : ~(blk[b].st = "vec" /\ blk[b].th = t)
           /\ alive' = [alive EXCEPT ![t] = FALSE]
           /\ IF DrainOnExit
              THEN /\ blk' = [b \in Blocks |-> IF b \in cache[t] THEN Free ELSE blk[b]]
                   /\ cache' = [cache EXCEPT ![t] = {}]
              ELSE UNCHANGED <<blk, cache>>
           /\ res' = [r \in Res |-> IF res[r] = t /\ DrainOnExit THEN 0 ELSE res[r]]
           /\ UNCHANGED <<chan, raced>>
\* scratch objects: made by a thread, used by a thread (a race iff it is not the maker), dropped by the maker
ResMake(t, r) == /\ alive[t] /\ res[r] = 0 /\ res' = [res EXCEPT ![r] = t]
                 /\ UNCHANGED <<blk, cache, chan, alive, raced>>
ResUse(t, r) == /\ alive[t] /\ res[r] # 0
                /\ raced' = (raced \/ res[r] # t)
                /\ UNCHANGED <<blk, cache, chan, alive, res>>
ResDrop(t, r) == /\ alive[t] /\ res[r] = t /\ res' = [res EXCEPT ![r] = 0]
                 /\ UNCHANGED <<blk, cache, chan, alive, raced>>

\* in exploration a thread only ever touches vectors it holds (the discipline the property assumes)
Next == /\ nops < MaxOps /\ nops' = nops + 1
        /\ \E t \in Threads, b \in Blocks :
             \/ AllocHit(t,b) \/ AllocNew(t,b) \/ ReleaseCache(t,b) \/ ReleaseFree(t,b)
             \/ (blk[b].th = t /\ Access(t,b)) \/ Send(t,b) \/ Recv(t,b) \/ Exit(t)
             \* the library's discipline: a thread that needs a scratch object uses its own, making one if it has none
             \* (SharedScratch = TRUE is the design to be excluded: one object made by whoever comes first, used by all)
             \/ \E r \in Res : \/ ((\A q \in Res : IF SharedScratch THEN res[q] = 0 ELSE res[q] # t) /\ ResMake(t, r))
                               \/ ((IF SharedScratch THEN res[r] # 0 ELSE res[r] = t) /\ ResUse(t, r))
Spec == Init /\ [][Next]_vars

\* Requirements -----------------------------------------------------------------------------
RaceFree == ~raced
HeapSoundT ==
  /\ \A b \in Blocks : (blk[b].st = "cached") = (\E t \in Threads : b \in cache[t])
  /\ \A b \in Blocks : blk[b].st = "cached" => b \in cache[blk[b].th]
  /\ \A t1, t2 \in Threads : t1 # t2 => cache[t1] \cap cache[t2] = {}
  /\ \A b \in Blocks : (blk[b].st = "chan") = (b \in chan)
  /\ \A t \in Threads : Cardinality(cache[t]) <= Cap
\* storage cached by a thread is given back when the thread ends
NoBlockInDeadCache == \A t \in Threads : ~alive[t] => cache[t] = {}
\* one scratch object per thread at most, none kept by a thread that has ended
ScratchPerThread == /\ \A r1, r2 \in Res : (res[r1] # 0 /\ res[r1] = res[r2]) => r1 = r2
                    /\ \A r \in Res : res[r] # 0 => alive[res[r]]
=============================================================================
