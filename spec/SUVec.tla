------------------------------- MODULE SUVec -------------------------------
(***************************************************************************)
(* SU_vector as a state machine: storage, ownership, the per-thread block  *)
(* cache, theft of storage from rvalue operands, alias detection, resize   *)
(* policy, library exceptions and allocation faults.                       *)
(*                                                                         *)
(* Abstract state (one-to-one with what the code keeps):                   *)
(*   vec[v]  : live, dim, loc (null | block b | external buffer e),        *)
(*             owns (isinit), ext (isinit_d)                               *)
(*   blk[b]  : st (free | owned | cached), dim class, raw (allocated by a  *)
(*             plain new[] without alignment head-room), val               *)
(*   ebuf[e] : dim, val   -- user storage; the library never frees it      *)
(*   cache[d]: set of cached blocks of dimension class d (0..6)            *)
(* Values are exact Hermitian matrices with Gaussian-integer entries       *)
(* (module Exact): the storage of a vector denotes a matrix, and every     *)
(* expression the library can fuse has an exact value on such matrices.    *)
(*                                                                         *)
(* One action per public call.  Inside an action the micro steps of the    *)
(* code are spelled out (Dealloc, Alloc, Steal, Compute) because they are  *)
(* what the properties talk about (who owns what, what was released).      *)
(* Where the property leaves the implementation a choice the action is     *)
(* nondeterministic:                                                       *)
(*   - Alloc takes a cached block of the class or a fresh one              *)
(*   - Dealloc caches the block or gives it back                           *)
(*   - an expression whose operand is an rvalue may take its storage       *)
(*   - move assignment onto an owning target may swap or release-and-take  *)
(* Policy = "code" narrows this to what the code does today (used for      *)
(* exhaustive exploration); Policy = "any" accepts every choice (used for  *)
(* validating traces of the implementation).                               *)
(*                                                                         *)
(* Named deviation: StealEmpties = FALSE models the theft as it was coded  *)
(* before the repair (only the ownership flag of the source was cleared,   *)
(* the source kept pointing at the block).                                 *)
(***************************************************************************)
EXTENDS Exact, FiniteSets, Json, TLC

CONSTANTS Vecs,          \* names of the pool of vector variables
          Dims,          \* dimensions used for construction in exploration
          Exts,          \* external buffers (small integers)
          NBlk,          \* number of block identifiers
          CacheCap,      \* capacity of one cache class (32 in the code)
          MaxOps,        \* bound on the number of calls in exploration
          Policy,        \* "code" | "any"
          StealEmpties,  \* TRUE: a consumed rvalue operand is left empty
          OpsOn,         \* subset of expression operations explored
          Faults,        \* TRUE: explore allocation failures
          NoVec          \* placeholder for "no vector" in action records

VARIABLES vec, blk, ebuf, cache, outcome, hev, nops, lastAct

vars == <<vec, blk, ebuf, cache, outcome, hev, nops, lastAct>>

Blocks == 1..NBlk
Sym == Permutations(Vecs)
NullLoc == [k |-> "null", id |-> 0]
BlkLoc(b) == [k |-> "blk", id |-> b]
ExtLoc(e) == [k |-> "ext", id |-> e]
DeadVec == [live |-> FALSE, dim |-> 0, loc |-> NullLoc, owns |-> FALSE, ext |-> FALSE]
EmptyVec == [live |-> TRUE, dim |-> 0, loc |-> NullLoc, owns |-> FALSE, ext |-> FALSE]
FreeBlk == [st |-> "free", dim |-> 0, raw |-> FALSE, val |-> <<>>]
NoBuf == [dim |-> 0, val |-> <<>>]
ValidDim(d) == d \in 2..6
AllExprOps == {"add","sub","neg","smul","icomm","acomm","evolve","fastevolve","elementwise"}
Elementwise(op) == op \in {"add","sub","neg","smul","elementwise"}
Arity(op) == IF op \in {"neg","smul","fastevolve"} THEN 1 ELSE 2

NoAct == [name |-> "none", t |-> NoVec, a |-> NoVec, b |-> NoVec, op |-> "", w |-> "", d |-> 0, e |-> 0, c |-> 0,
          arv |-> FALSE, brv |-> FALSE, fail |-> 0, kinds |-> <<>>]

\* write patterns: c = 1,3,.. dense integer Hermitian; c even: integer diagonal (usable as evolution operator)
WriteVal(c,d) == IF c % 2 = 0 THEN MDiagInt([i \in 1..d |-> (i * (c \div 2)) % 4], d) ELSE Pattern(c,d)
ExtInitVal(e,d) == Pattern(10 + e, d)
HasStore(r) == r.live /\ (r.owns \/ r.ext)
ValAt(l, bk, eb) == IF l.k = "blk" THEN bk[l.id].val ELSE IF l.k = "ext" THEN eb[l.id].val ELSE <<>>
ValOf(v) == ValAt(vec[v].loc, blk, ebuf)
IsDiag(M,d) == \A i \in 1..d : \A j \in 1..d : i # j => SIsZero(M[i][j])
DiagOf(M,d) == [i \in 1..d |-> M[i][i][1]]
FastH(d) == [i \in 1..d |-> i - 1]       \* operator used by the harness for PrepareEvolve
\* value of an expression on exact operands; k is the scalar / the time in units of pi/2
ExprVal(op, A, B, k, d) ==
  CASE op = "add" -> MAdd(A,B,d)
    [] op = "sub" -> MSub(A,B,d)
    [] op = "neg" -> MNeg(A,d)
    [] op = "smul" -> MScale(k,A,d)
    [] op = "icomm" -> ICom(A,B,d)
    [] op = "acomm" -> ACom(A,B,d)
    [] op = "elementwise" -> MAdd(A, MScale(2,B,d), d)                      \* the linear user op x + 2y
    [] op = "evolve" -> [r \in 1..d |-> [c \in 1..d |-> SMul(Zeta(2*k*(A[r][r][1]-A[c][c][1])), B[r][c])]]  \* A = operator, B = state
    [] op = "fastevolve" -> [r \in 1..d |-> [c \in 1..d |-> SMul(Zeta(2*k*((r-1)-(c-1))), A[r][c])]]
Combine(w, T, E, d) == IF w = "=" \/ w = "ctor" THEN E ELSE IF w = "+=" THEN MAdd(T,E,d) ELSE MSub(T,E,d)

--------------------------------------------------------------------------
\* heap micro steps on a heap record hp = [blk, cache, hev]
Heap == [blk |-> blk, cache |-> cache, hev |-> {}]
FreeIds(hp) == {b \in Blocks : hp.blk[b].st = "free"}
MinOf(S) == CHOOSE x \in S : \A y \in S : x <= y
\* Alloc(d): result records [b, hp]
AllocSet(hp, d, raw) ==
  LET hits == IF raw THEN {} ELSE
                { [b |-> b, hp |-> [hp EXCEPT !.blk[b].st = "owned", !.blk[b].val = <<>>,
                                            !.cache[d] = @ \ {b}, !.hev = @ \cup {<<"hit",b>>}]] : b \in hp.cache[d] }
      fr == IF Policy = "code" THEN (IF FreeIds(hp) = {} THEN {} ELSE {MinOf(FreeIds(hp))}) ELSE FreeIds(hp)
      fresh == { [b |-> b, hp |-> [hp EXCEPT !.blk[b] = [st |-> "owned", dim |-> d, raw |-> raw, val |-> <<>>],
                                             !.hev = @ \cup {<<"new",b>>}]] : b \in fr }
  IN IF Policy = "code" /\ hits # {} THEN hits ELSE hits \cup fresh
\* the same with the fresh block numbered as the ledgers number it (smallest free identity)
AllocFew(hp, d) ==
  LET hits == { [b |-> b, hp |-> [hp EXCEPT !.blk[b].st = "owned", !.blk[b].val = <<>>,
                                            !.cache[d] = @ \ {b}, !.hev = @ \cup {<<"hit",b>>}]] : b \in hp.cache[d] }
      fr == IF FreeIds(hp) = {} THEN {} ELSE {MinOf(FreeIds(hp))}
      fresh == { [b |-> b, hp |-> [hp EXCEPT !.blk[b] = [st |-> "owned", dim |-> d, raw |-> FALSE, val |-> <<>>],
                                             !.hev = @ \cup {<<"new",b>>}]] : b \in fr }
  IN hits \cup fresh
\* Dealloc of owned block b held by a vector of dimension class d
DeallocSet(hp, b, d) ==
  LET cachedR == [hp EXCEPT !.blk[b].st = "cached", !.blk[b].dim = d, !.cache[d] = @ \cup {b}, !.hev = @ \cup {<<"cached",b>>}]
      freedR  == [hp EXCEPT !.blk[b] = FreeBlk, !.hev = @ \cup {<<"del",b>>}]
      room == Cardinality(hp.cache[d]) < CacheCap
  IN IF Policy = "code"
     THEN (IF hp.blk[b].raw THEN (IF room THEN {cachedR, freedR} ELSE {freedR})   \* raw blocks: alignment unknown
           ELSE IF room THEN {cachedR} ELSE {freedR})
     ELSE (IF room THEN {cachedR, freedR} ELSE {freedR})
\* release the storage of vector record r if it owns any
ReleaseSet(hp, r) == IF r.owns THEN DeallocSet(hp, r.loc.id, r.dim) ELSE {hp}
SetVal(hp, eb, l, M) == IF l.k = "blk" THEN [hp |-> [hp EXCEPT !.blk[l.id].val = M], eb |-> eb]
                        ELSE IF l.k = "ext" THEN [hp |-> hp, eb |-> [eb EXCEPT ![l.id].val = M]]
                        ELSE [hp |-> hp, eb |-> eb]

\* commit a step
Commit(nv, hp, eb, out, act) ==
  /\ vec' = nv /\ blk' = hp.blk /\ cache' = hp.cache /\ ebuf' = eb /\ hev' = hp.hev
  /\ outcome' = out /\ nops' = nops + 1 /\ lastAct' = act
\* a call that throws a library exception before touching anything
\* (under Policy "any": possibly after a temporary was made and given back - e.g. the implementation evaluates a
\*  non-elementwise expression into a temporary when target and operand are both empty, null = null looking like aliasing -
\*  no vector, user buffer or owned block is touched, only the free / cached status of one spare block may differ)
Reject(act) == \/ Commit(vec, Heap, ebuf, "rt", act)
               \/ /\ Policy = "any"
                  /\ \E d \in 0..6 : \E al \in AllocSet(Heap, d, FALSE) : \E r \in DeallocSet(al.hp, al.b, d) :
                        Commit(vec, r, ebuf, "rt", act)
\* a call in which an allocation fails: whatever was released before stays released (hp0),
\* every vector other than the target keeps its record and value, the target t is left
\* either unchanged (if nothing was released) or empty
FaultAt(hp0, t, act) ==
  LET released == \E x \in hp0.hev : x[1] \in {"cached","del"}
  IN Commit([vec EXCEPT ![t] = IF released THEN EmptyVec ELSE vec[t]], hp0, ebuf, "bad_alloc", act)

--------------------------------------------------------------------------
Init == /\ vec = [v \in Vecs |-> DeadVec]
        /\ blk = [b \in Blocks |-> FreeBlk]
        /\ ebuf = [e \in Exts |-> NoBuf]
        /\ cache = [d \in 0..6 |-> {}]
        /\ outcome = "ok" /\ hev = {} /\ nops = 0 /\ lastAct = NoAct

A(name) == [NoAct EXCEPT !.name = name]
Dead(v) == ~vec[v].live
Live(v) == vec[v].live

NewEmpty(v) == /\ Dead(v)
               /\ Commit([vec EXCEPT ![v] = EmptyVec], Heap, ebuf, "ok", [A("NewEmpty") EXCEPT !.t = v])

\* SU_vector(d), make_aligned(d), and the factories: an aligned block (cached or fresh), filled
NewSizedAct(v, d, fail, nm, M) ==
  LET act == [A(nm) EXCEPT !.t = v, !.d = d, !.fail = fail] IN
  /\ Dead(v)
  /\ IF ~ValidDim(d) THEN fail = 0 /\ Reject(act)
     ELSE IF fail = 1 THEN (Policy = "any" \/ cache[d] = {}) /\ Commit(vec, Heap, ebuf, "bad_alloc", act)  \* the only allocation fails: nothing exists yet
     ELSE fail = 0 /\ \E ch \in AllocSet(Heap, d, FALSE) :
            Commit([vec EXCEPT ![v] = [live |-> TRUE, dim |-> d, loc |-> BlkLoc(ch.b), owns |-> TRUE, ext |-> FALSE]],
                   [ch.hp EXCEPT !.blk[ch.b].val = M], ebuf, "ok", act)
NewSized(v, d, fail) == NewSizedAct(v, d, fail, "NewSized", IF ValidDim(d) THEN MZero(d) ELSE <<>>)
MakeAligned(v, d, fail) == NewSizedAct(v, d, fail, "MakeAligned", IF ValidDim(d) THEN MZero(d) ELSE <<>>)

\* SU_vector(std::vector<double>) / SU_vector(gsl_matrix_complex*): a plain new[] of exactly d*d doubles.
\* len is the list length (d*d for the matrix form); c selects the contents.
NewFromList(v, len, c, fail) ==
  LET act == [A("NewFromList") EXCEPT !.t = v, !.d = len, !.c = c, !.fail = fail]
      dd == CHOOSE x \in 0..8 : x*x = len \/ (x = 0 /\ \A y \in 1..8 : y*y # len) IN
  /\ Dead(v)
  /\ IF dd = 0 \/ ~ValidDim(dd) THEN fail = 0 /\ Reject(act)       \* nothing may stay allocated
     ELSE IF fail = 1 THEN Commit(vec, Heap, ebuf, "bad_alloc", act)
     ELSE fail = 0 /\ \E ch \in AllocSet(Heap, dd, TRUE) :
            Commit([vec EXCEPT ![v] = [live |-> TRUE, dim |-> dd, loc |-> BlkLoc(ch.b), owns |-> TRUE, ext |-> FALSE]],
                   [ch.hp EXCEPT !.blk[ch.b].val = WriteVal(c,dd)], ebuf, "ok", act)

\* SU_vector(d, double*): bind to user storage, contents untouched
NewExt(v, d, e) ==
  LET act == [A("NewExt") EXCEPT !.t = v, !.d = d, !.e = e] IN
  /\ Dead(v)
  /\ IF ~ValidDim(d) THEN Reject(act)
     ELSE /\ ebuf[e].dim \in {0, d}
          /\ Commit([vec EXCEPT ![v] = [live |-> TRUE, dim |-> d, loc |-> ExtLoc(e), owns |-> FALSE, ext |-> TRUE]],
                    Heap, [ebuf EXCEPT ![e] = IF @.dim = 0 THEN [dim |-> d, val |-> ExtInitVal(e,d)] ELSE @], "ok", act)

NewCopy(v, s, fail) ==
  LET act == [A("NewCopy") EXCEPT !.t = v, !.a = s, !.fail = fail]  r == vec[s] IN
  /\ Dead(v) /\ Live(s)
  /\ IF ~HasStore(r) THEN fail = 0 /\ Commit([vec EXCEPT ![v] = EmptyVec], Heap, ebuf, "ok", act)
     ELSE IF fail = 1 THEN (Policy = "any" \/ cache[r.dim] = {}) /\ Commit(vec, Heap, ebuf, "bad_alloc", act)
     ELSE fail = 0 /\ \E ch \in AllocSet(Heap, r.dim, FALSE) :
            Commit([vec EXCEPT ![v] = [live |-> TRUE, dim |-> r.dim, loc |-> BlkLoc(ch.b), owns |-> TRUE, ext |-> FALSE]],
                   [ch.hp EXCEPT !.blk[ch.b].val = ValOf(s)], ebuf, "ok", act)

\* what a consumed self-owned source looks like afterwards
Consumed(r) == IF StealEmpties THEN EmptyVec ELSE [r EXCEPT !.owns = FALSE]
NewMove(v, s) ==
  LET act == [A("NewMove") EXCEPT !.t = v, !.a = s]  r == vec[s] IN
  /\ Dead(v) /\ Live(s)
  /\ Commit([vec EXCEPT ![v] = r, ![s] = IF r.owns THEN EmptyVec ELSE r], Heap, ebuf, "ok", act)

Destroy(v) == /\ Live(v)
              /\ \E hp \in ReleaseSet(Heap, vec[v]) :
                   Commit([vec EXCEPT ![v] = DeadVec], hp, ebuf, "ok", [A("Destroy") EXCEPT !.t = v])

\* clear_mem_cache(): every cached block is given back
ClearCache == /\ (Policy = "any" \/ \E d \in 0..6 : cache[d] # {})
              /\ LET cs == UNION {cache[d] : d \in 0..6} IN
                 Commit(vec, [blk |-> [b \in Blocks |-> IF b \in cs THEN FreeBlk ELSE blk[b]],
                              cache |-> [d \in 0..6 |-> {}], hev |-> {<<"del",b>> : b \in cs}], ebuf, "ok", A("ClearCache"))

\* element writes through operator[] / SetAllComponents
Write(t, c) ==
  /\ HasStore(vec[t])
  /\ LET r == SetVal(Heap, ebuf, vec[t].loc, WriteVal(c, vec[t].dim)) IN
     Commit(vec, r.hp, r.eb, "ok", [A("Write") EXCEPT !.t = t, !.c = c])

SetBackingStore(t, e) ==
  LET act == [A("SetBackingStore") EXCEPT !.t = t, !.e = e]  r == vec[t] IN
  /\ Live(t) /\ ValidDim(r.dim) /\ ebuf[e].dim \in {0, r.dim}
  /\ \E hp \in ReleaseSet(Heap, r) :
       Commit([vec EXCEPT ![t] = [r EXCEPT !.loc = ExtLoc(e), !.owns = FALSE, !.ext = TRUE]], hp,
              [ebuf EXCEPT ![e] = IF @.dim = 0 THEN [dim |-> r.dim, val |-> ExtInitVal(e,r.dim)] ELSE @], "ok", act)

\* t = s  (copy assignment)
CopyAssign(t, s, fail) ==
  LET act == [A("CopyAssign") EXCEPT !.t = t, !.a = s, !.fail = fail]  rt == vec[t]  rs == vec[s] IN
  /\ Live(t) /\ Live(s)
  /\ IF t = s THEN fail = 0 /\ Commit(vec, Heap, ebuf, "ok", act)
     ELSE IF rt.dim # rs.dim
     THEN (IF rt.ext THEN fail = 0 /\ Reject(act)
           ELSE \E hp0 \in ReleaseSet(Heap, rt) :
                  IF ~HasStore(rs) THEN fail = 0 /\ Commit([vec EXCEPT ![t] = EmptyVec], hp0, ebuf, "ok", act)
                  ELSE IF fail = 1 THEN (Policy = "any" \/ hp0.cache[rs.dim] = {}) /\
                                        (Commit(vec, Heap, ebuf, "bad_alloc", act)      \* allocation attempted before anything was released
                                         \/ (Policy = "any" /\ FaultAt(hp0, t, act)))   \* or after: the target is left empty
                  ELSE fail = 0 /\ \E ch \in AllocSet(hp0, rs.dim, FALSE) :
                         Commit([vec EXCEPT ![t] = [live |-> TRUE, dim |-> rs.dim, loc |-> BlkLoc(ch.b), owns |-> TRUE, ext |-> FALSE]],
                                [ch.hp EXCEPT !.blk[ch.b].val = ValOf(s)], ebuf, "ok", act))
     ELSE fail = 0 /\ (IF rt.loc.k # "null" /\ rs.loc.k # "null"
                       THEN (LET r == SetVal(Heap, ebuf, rt.loc, ValOf(s)) IN Commit(vec, r.hp, r.eb, "ok", act))
                       ELSE Commit(vec, Heap, ebuf, "ok", act))

\* t = std::move(s)
MoveAssign(t, s) ==
  LET act == [A("MoveAssign") EXCEPT !.t = t, !.a = s]  rt == vec[t]  rs == vec[s] IN
  /\ Live(t) /\ Live(s)
  /\ IF t = s THEN Commit(vec, Heap, ebuf, "ok", act)
     ELSE IF rt.owns
     THEN \/ Commit([vec EXCEPT ![t] = rs, ![s] = rt], Heap, ebuf, "ok", act)                    \* swap (as coded)
          \/ /\ Policy = "any"                                                                    \* release and take
             /\ \E hp \in ReleaseSet(Heap, rt) :
                  Commit([vec EXCEPT ![t] = rs, ![s] = IF rs.owns THEN EmptyVec ELSE rs], hp, ebuf, "ok", act)
     ELSE IF rt.ext
     THEN (IF rt.dim # rs.dim THEN Reject(act)
           ELSE LET r == SetVal(Heap, ebuf, rt.loc, ValOf(s)) IN Commit(vec, r.hp, r.eb, "ok", act))
     ELSE Commit([vec EXCEPT ![t] = rs, ![s] = IF rs.owns THEN EmptyVec ELSE rs], Heap, ebuf, "ok", act)

\* t += s , t -= s
CompoundVec(t, w, s) ==
  LET act == [A("CompoundVec") EXCEPT !.t = t, !.a = s, !.w = w]  rt == vec[t]  rs == vec[s] IN
  /\ Live(t) /\ Live(s)
  /\ IF rt.dim # rs.dim THEN Reject(act)
     ELSE /\ HasStore(rt) /\ HasStore(rs)
          /\ LET r == SetVal(Heap, ebuf, rt.loc, Combine(w, ValOf(t), ValOf(s), rt.dim)) IN Commit(vec, r.hp, r.eb, "ok", act)
\* t *= k , t /= k (k = 2)
CompoundScalar(t, w) ==
  /\ HasStore(vec[t])
  /\ LET d == vec[t].dim
         r == SetVal(Heap, ebuf, vec[t].loc, IF w = "*=" THEN MScale(3,ValOf(t),d) ELSE MScale(2,ValOf(t),d)) IN
     Commit(vec, r.hp, r.eb, "ok", [A("CompoundScalar") EXCEPT !.t = t, !.w = w])

\* read-only calls that build and discard one temporary vector (Rotate(i,j,..), Real(), matrix round trip)
Probe(t, kind) ==
  LET act == [A("Probe") EXCEPT !.t = t, !.op = kind]  d == vec[t].dim IN
  /\ HasStore(vec[t]) /\ ValidDim(d)
  /\ \E ch \in AllocSet(Heap, d, kind = "matrix") : \E hp2 \in DeallocSet(ch.hp, ch.b, d) : Commit(vec, hp2, ebuf, "ok", act)
\* binary calls that do not modify their operands: scalar product, rotation by a matrix of b's dimension, equality
BinaryRead(kind, a, b) ==
  LET act == [A("BinaryRead") EXCEPT !.t = a, !.a = a, !.b = b, !.op = kind]  d == vec[a].dim IN
  /\ HasStore(vec[a]) /\ HasStore(vec[b]) /\ ValidDim(d) /\ ValidDim(vec[b].dim)
  /\ IF kind # "eq" /\ vec[a].dim # vec[b].dim THEN Reject(act)
     ELSE IF kind = "rotateU"
     THEN \E ch \in AllocSet(Heap, d, TRUE) : \E hp2 \in DeallocSet(ch.hp, ch.b, d) : Commit(vec, hp2, ebuf, "ok", act)
     ELSE Commit(vec, Heap, ebuf, "ok", act)
\* static factories: an aligned block holding the documented operator
FactoryVal(kind, d, i) ==
  CASE kind = "projector" -> MUnit(d, i+1, i+1)
    [] kind = "identity" -> MId(d)
    [] kind = "generator" -> Basis(d, i)
    [] kind = "posproj" -> [r \in 1..d |-> [c \in 1..d |-> IF r = c /\ r <= i THEN S1 ELSE S0]]
    [] kind = "negproj" -> [r \in 1..d |-> [c \in 1..d |-> IF r = c /\ r > d - i THEN S1 ELSE S0]]
FactoryArgOK(kind, d, i) == ValidDim(d) /\ (kind = "generator" => i < d*d) /\ (kind \in {"projector","posproj","negproj"} => i < d)
FactoryF(v, kind, d, i, fail) ==
  LET act == [A("Factory") EXCEPT !.t = v, !.op = kind, !.d = d, !.c = i, !.fail = fail] IN
  /\ Dead(v)
  /\ IF ~FactoryArgOK(kind, d, i) THEN fail = 0 /\ Reject(act)
     ELSE IF fail = 1 THEN (Policy = "any" \/ cache[d] = {}) /\ Commit(vec, Heap, ebuf, "bad_alloc", act)
     ELSE fail = 0 /\ \E ch \in AllocSet(Heap, d, FALSE) :
            Commit([vec EXCEPT ![v] = [live |-> TRUE, dim |-> d, loc |-> BlkLoc(ch.b), owns |-> TRUE, ext |-> FALSE]],
                   [ch.hp EXCEPT !.blk[ch.b].val = FactoryVal(kind, d, i)], ebuf, "ok", act)
Factory(v, kind, d, i) == FactoryF(v, kind, d, i, 0)

--------------------------------------------------------------------------
\* Expressions:  t w op(a,b)   with w in {"=","+=","-="} ;  SU_vector t(op(a,b)) is w = "ctor".
\* arv / brv: the operand is an rvalue (std::move(a)); k: scalar or time.
\* Operand roles follow the code: for "evolve" a is the OPERATOR and b the state.
ExprPre(op, a, b, arv, brv) ==
  /\ Live(a) /\ HasStore(vec[a]) /\ ValidDim(vec[a].dim)
  /\ (Arity(op) = 2 => Live(b) /\ HasStore(vec[b]) /\ ValidDim(vec[b].dim))
  /\ (Arity(op) = 1 => b = a /\ ~brv)
  /\ (arv => Elementwise(op))                                                   \* rvalue overloads exist for these
  /\ (brv => op \in {"add","elementwise"})
  /\ (arv /\ brv => a # b)
  /\ (op = "evolve" /\ vec[a].dim = vec[b].dim => IsDiag(ValOf(a), vec[a].dim))

\* the source operand after the expression consumed its storage
AssignExpr(t, w, op, a, b, arv, brv, k, fail) ==
  LET act == [A("AssignExpr") EXCEPT !.t = t, !.a = a, !.b = b, !.op = op, !.w = w, !.arv = arv, !.brv = brv, !.c = k, !.fail = fail]
      rt == vec[t]  ra == vec[a]  rb == vec[b]  d == ra.dim
      E == ExprVal(op, ValOf(a), ValOf(b), k, d)
      aliased == rt.loc.k # "null" /\ (rt.loc = ra.loc \/ (Arity(op) = 2 /\ rt.loc = rb.loc))
      \* operand slots of the proxy object: a + std::move(b) is built as (b + a) with the movable one first
      swapped == op = "add" /\ brv /\ ~arv
      s1 == IF swapped THEN b ELSE a
      s2 == IF swapped THEN a ELSE b
      mov1 == arv \/ swapped
      mov2 == brv /\ ~swapped
      CanSteal1 == mov1 /\ Elementwise(op)
      CanSteal2 == mov2 /\ Elementwise(op) /\ (w # "ctor" \/ Policy = "any")
  IN
  /\ ExprPre(op, a, b, arv, brv)
  /\ IF w = "ctor" THEN Dead(t) /\ t # a /\ t # b ELSE Live(t)
  /\ (arv => t # a) /\ (brv => t # b)
  /\ IF Arity(op) = 2 /\ ra.dim # rb.dim THEN fail = 0 /\ Reject(act)          \* mismatched operands: nothing is read or written
     ELSE IF w # "ctor" /\ rt.dim # d /\ (rt.ext \/ w # "=") THEN fail = 0 /\ Reject(act)
     ELSE IF w # "ctor" /\ rt.dim = d /\ rt.loc.k # "null"
     THEN \* same size: evaluate in place, or through a temporary when the target aliases an operand of a non-elementwise operation
          \/ /\ fail = 0
             /\ LET r == SetVal(Heap, ebuf, rt.loc, Combine(w, ValOf(t), E, d)) IN Commit(vec, r.hp, r.eb, "ok", act)
          \/ /\ (aliased /\ ~Elementwise(op)) \/ Policy = "any"
             /\ IF fail = 1 THEN (Policy = "any" \/ cache[d] = {}) /\ Commit(vec, Heap, ebuf, "bad_alloc", act)
                ELSE fail = 0 /\ \E ch \in AllocSet(Heap, d, FALSE) : \E hp2 \in DeallocSet(ch.hp, ch.b, d) :
                       LET r == SetVal(hp2, ebuf, rt.loc, Combine(w, ValOf(t), E, d)) IN Commit(vec, r.hp, r.eb, "ok", act)
     ELSE \* construction, or plain assignment that changes the size of a target which may be resized
          \E hp0 \in (IF w = "ctor" THEN {Heap} ELSE ReleaseSet(Heap, rt)) :
            \/ /\ CanSteal1 /\ fail = 0                                                \* take the storage of the proxy's first operand
               /\ LET r == SetVal(hp0, ebuf, vec[s1].loc, E) IN
                  Commit([vec EXCEPT ![t] = [vec[s1] EXCEPT !.live = TRUE], ![s1] = IF vec[s1].owns THEN Consumed(vec[s1]) ELSE vec[s1]], r.hp, r.eb, "ok", act)
            \/ /\ CanSteal2 /\ fail = 0 /\ (~CanSteal1 \/ Policy = "any")                   \* or of its second operand
               /\ LET r == SetVal(hp0, ebuf, vec[s2].loc, E) IN
                  Commit([vec EXCEPT ![t] = [vec[s2] EXCEPT !.live = TRUE], ![s2] = IF vec[s2].owns THEN Consumed(vec[s2]) ELSE vec[s2]], r.hp, r.eb, "ok", act)
            \/ /\ (~CanSteal1 /\ ~CanSteal2) \/ Policy = "any"                               \* or allocate
               /\ IF fail = 1 THEN (Policy = "any" \/ hp0.cache[d] = {}) /\
                                   (Commit(vec, Heap, ebuf, "bad_alloc", act) \/ (Policy = "any" /\ w # "ctor" /\ FaultAt(hp0, t, act)))
                  ELSE fail = 0 /\ \E ch \in AllocSet(hp0, d, FALSE) :
                         Commit([vec EXCEPT ![t] = [live |-> TRUE, dim |-> d, loc |-> BlkLoc(ch.b), owns |-> TRUE, ext |-> FALSE]],
                                [ch.hp EXCEPT !.blk[ch.b].val = E], ebuf, "ok", act)
            \* or (any storage strategy) a non-elementwise expression reaches an EMPTY target through a temporary although nothing aliases:
            \* the implementation compares storage pointers, and the pointer an emptied vector still carries may equal an operand's.
            \* The temporary is made, the target gets storage of its own, the temporary is given back; if the first allocation
            \* fails nothing has happened, if the second fails only the temporary was made and given back.
            \* (block identities: a cached block of that dimension or the smallest free identity, which is how the drivers' ledgers number
            \*  fresh blocks - the full choice of AllocSet twice over made trace validation a thousand times slower for nothing)
            \/ /\ Policy = "any" /\ ~Elementwise(op) /\ w = "=" /\ rt.loc.k = "null"
               /\ \E ch1 \in AllocFew(hp0, d) :
                    IF fail = 1 THEN \E hp2 \in DeallocSet(ch1.hp, ch1.b, d) : Commit(vec, hp2, ebuf, "bad_alloc", act)
                    ELSE fail = 0 /\ \E ch2 \in AllocFew(ch1.hp, d) : \E hp3 \in DeallocSet(ch2.hp, ch1.b, d) :
                           Commit([vec EXCEPT ![t] = [live |-> TRUE, dim |-> d, loc |-> BlkLoc(ch2.b), owns |-> TRUE, ext |-> FALSE]],
                                  [hp3 EXCEPT !.blk[ch2.b].val = E], ebuf, "ok", act)

--------------------------------------------------------------------------
ExprArgs == {x \in [op : OpsOn \cap AllExprOps, arv : BOOLEAN, brv : BOOLEAN] :
               /\ (x.arv => Elementwise(x.op))
               /\ (x.brv => x.op \in {"add","elementwise"}) }
FailSet == IF Faults THEN {0,1} ELSE {0}

Next ==
  /\ nops < MaxOps
  /\ \/ \E v \in Vecs : NewEmpty(v)
     \/ \E v \in Vecs, d \in Dims, f \in FailSet : NewSized(v,d,f)
     \/ \E v \in Vecs, d \in Dims, e \in Exts : NewExt(v,d,e)
     \/ \E v \in Vecs, s \in Vecs, f \in FailSet : NewCopy(v,s,f)
     \/ \E v \in Vecs, s \in Vecs : NewMove(v,s)
     \/ \E v \in Vecs : Destroy(v)
     \/ \E t \in Vecs, c \in {1,2} : Write(t,c)
     \/ \E t \in Vecs, e \in Exts : SetBackingStore(t,e)
     \/ \E t \in Vecs, s \in Vecs, f \in FailSet : CopyAssign(t,s,f)
     \/ \E t \in Vecs, s \in Vecs : MoveAssign(t,s)
     \/ \E t \in Vecs, s \in Vecs : CompoundVec(t,"+=",s)
     \/ \E t \in Vecs, a \in Vecs, b \in Vecs, x \in ExprArgs, w \in {"=","+=","ctor"}, f \in FailSet :
          AssignExpr(t, w, x.op, a, IF Arity(x.op) = 1 THEN a ELSE b, x.arv, x.brv, 1, f)
     \/ ClearCache
     \/ "list" \in OpsOn /\ \E v \in Vecs, d \in Dims, f \in FailSet : NewFromList(v, d*d, 1, f)
     \/ "factory" \in OpsOn /\ \E v \in Vecs, kind \in {"projector","negproj","identity"}, d \in Dims, i \in {0,1}, f \in FailSet : FactoryF(v, kind, d, i, f)
Spec == Init /\ [][Next]_vars

--------------------------------------------------------------------------
\* Prepared pools for the one-step shape / guard explorations (C09, C14): every vector of the pool is
\* dead, empty, self-owned of the small or the large dimension, or bound to user buffer 1 (small) or 2 (large).
\* The driver builds the same pool with ordinary calls (constructor, then Write), which are validated as such.
ShapeKinds == {"dead","empty","ownS","ownL","extS","extL"}
DimS == 2
DimL == 3
VecList == CHOOSE q \in [1..Cardinality(Vecs) -> Vecs] : \A i, j \in 1..Cardinality(Vecs) : i # j => q[i] # q[j]
Ord(v) == CHOOSE i \in 1..Cardinality(Vecs) : VecList[i] = v
KindDim(k) == IF k \in {"ownS","extS"} THEN DimS ELSE IF k \in {"ownL","extL"} THEN DimL ELSE 0
KindExt(k) == IF k = "extS" THEN 1 ELSE 2
SetupC(v) == IF Ord(v) = 1 THEN 2 ELSE 2*Ord(v) + 1       \* first vector diagonal (usable as evolution operator)
Setup(kinds) ==
  LET owners == {v \in Vecs : kinds[v] \in {"ownS","ownL"}}
      bid(v) == Cardinality({u \in owners : Ord(u) <= Ord(v)})
      lastOn(e) == LET us == {v \in Vecs : kinds[v] \in {"extS","extL"} /\ KindExt(kinds[v]) = e} IN
                   IF us = {} THEN NoVec ELSE CHOOSE v \in us : \A u \in us : Ord(u) <= Ord(v)
      nv == [v \in Vecs |->
              CASE kinds[v] = "dead" -> DeadVec
                [] kinds[v] = "empty" -> EmptyVec
                [] kinds[v] \in {"ownS","ownL"} -> [live |-> TRUE, dim |-> KindDim(kinds[v]), loc |-> BlkLoc(bid(v)), owns |-> TRUE, ext |-> FALSE]
                [] OTHER -> [live |-> TRUE, dim |-> KindDim(kinds[v]), loc |-> ExtLoc(KindExt(kinds[v])), owns |-> FALSE, ext |-> TRUE]]
      nb == [b \in Blocks |-> IF \E v \in owners : bid(v) = b
                              THEN LET v == CHOOSE u \in owners : bid(u) = b IN
                                   [st |-> "owned", dim |-> KindDim(kinds[v]), raw |-> FALSE, val |-> WriteVal(SetupC(v), KindDim(kinds[v]))]
                              ELSE FreeBlk]
      ne == [e \in Exts |-> IF lastOn(e) = NoVec THEN NoBuf
                            ELSE [dim |-> KindDim(kinds[lastOn(e)]), val |-> WriteVal(SetupC(lastOn(e)), KindDim(kinds[lastOn(e)]))]]
  IN /\ nops = 0
     /\ vec' = nv /\ blk' = nb /\ ebuf' = ne /\ cache' = cache /\ hev' = {} /\ outcome' = "ok" /\ nops' = 1
     /\ lastAct' = [A("Setup") EXCEPT !.kinds = [i \in 1..Cardinality(Vecs) |-> kinds[VecList[i]]]]

\* one expression statement from every prepared pool: the full shape product of C09
NextShape ==
  \/ \E kinds \in [Vecs -> ShapeKinds] : Setup(kinds)
  \/ /\ nops = 1
     /\ \E t \in Vecs, a \in Vecs, b \in Vecs, x \in ExprArgs, w \in {"=","+=","-=","ctor"}, f \in FailSet :
          AssignExpr(t, w, x.op, a, IF Arity(x.op) = 1 THEN a ELSE b, x.arv, x.brv, 1, f)
SpecShape == Init /\ [][NextShape]_vars

\* one call with unsupported / mismatched arguments from every prepared pool: the argument window of C14
BadDims == {1,7,8}
BadLens == {1,2,3,5,6,7,8,10,12,15,17,24,26,35,37,48,49,50,63,64}
NextGuard ==
  \/ \E kinds \in [Vecs -> ShapeKinds] : Setup(kinds)
  \/ /\ nops = 1
     /\ \/ \E v \in Vecs, d \in BadDims : NewSized(v,d,0) \/ MakeAligned(v,d,0) \/ (\E e \in Exts : NewExt(v,d,e))
        \/ \E v \in Vecs, n \in BadLens : NewFromList(v,n,1,0)
        \/ \E v \in Vecs, d \in Dims, i \in 0..2 : \/ Factory(v,"generator",d,d*d+i)
                                                    \/ Factory(v,"projector",d,d+i)
                                                    \/ Factory(v,"posproj",d,d+1+i) \/ Factory(v,"negproj",d,d+1+i)
        \/ \E v \in Vecs, k \in {"projector","identity","generator","posproj","negproj"}, d \in BadDims : Factory(v,k,d,0)
        \/ \E t \in Vecs, s \in Vecs : vec[t].dim # vec[s].dim /\
              (CopyAssign(t,s,0) \/ MoveAssign(t,s) \/ CompoundVec(t,"+=",s) \/ CompoundVec(t,"-=",s)
               \/ BinaryRead("dot",t,s) \/ BinaryRead("rotateU",t,s))
        \/ \E t \in Vecs, a \in Vecs, b \in Vecs, op \in {"add","sub","icomm","acomm","evolve","elementwise"}, w \in {"=","+=","-=","ctor"} :
              Live(a) /\ Live(b) /\ vec[a].dim # vec[b].dim /\ AssignExpr(t, w, op, a, b, FALSE, FALSE, 1, 0)
        \* compound assignment of an expression of another dimension (operands agree with each other, not with the target)
        \/ \E t \in Vecs, a \in Vecs, b \in Vecs, x \in {y \in ExprArgs : y.op \in {"add","sub","neg","elementwise"}}, w \in {"+=","-="} :
              /\ Live(t) /\ Live(a) /\ vec[t].dim # vec[a].dim /\ ValidDim(vec[t].dim)
              /\ AssignExpr(t, w, x.op, a, IF Arity(x.op) = 1 THEN a ELSE b, x.arv, x.brv, 1, 0)
        \* the overloads taking rvalue operands have their own guards
        \/ \E t \in Vecs, a \in Vecs, b \in Vecs, x \in {y \in ExprArgs : y.op \in {"add","sub","elementwise"} /\ (y.arv \/ y.brv)}, w \in {"=","+=","-=","ctor"} :
              Live(a) /\ Live(b) /\ vec[a].dim # vec[b].dim /\ AssignExpr(t, w, x.op, a, b, x.arv, x.brv, 1, 0)
SpecGuard == Init /\ [][NextGuard]_vars
EmitShape == IF nops = 1
             THEN PrintT(<<"EDGE", ToJson([kinds |-> lastAct.kinds, ord |-> VecList, act |-> [lastAct' EXCEPT !.kinds = <<>>], out |-> outcome'])>>)
             ELSE TRUE

--------------------------------------------------------------------------
\* Requirements
TypeOK == /\ \A v \in Vecs : vec[v].dim \in 0..6 /\ vec[v].loc.k \in {"null","blk","ext"}
          /\ outcome \in {"ok","rt","bad_alloc"}

\* C08: no two vectors own the same storage; an owner's block is marked owned; user storage is never owned
UniqueOwner ==
  \A v \in Vecs : vec[v].live /\ vec[v].owns =>
     /\ vec[v].loc.k = "blk" /\ blk[vec[v].loc.id].st = "owned" /\ ~vec[v].ext
     /\ \A u \in Vecs : u # v /\ vec[u].live /\ vec[u].owns => vec[u].loc # vec[v].loc
\* C08: a vector that neither owns nor is bound to user storage references nothing (moved-from sources are inert)
MovedFromSafe ==
  \A v \in Vecs : vec[v].live /\ ~vec[v].owns /\ ~vec[v].ext => vec[v].loc = NullLoc /\ vec[v].dim = 0
\* C08: a vector with user storage points exactly at a user buffer of its dimension; nobody else references an owned block
ExternalExact ==
  \A v \in Vecs : vec[v].live =>
     /\ (vec[v].ext => vec[v].loc.k = "ext" /\ ~vec[v].owns /\ ebuf[vec[v].loc.id].dim = vec[v].dim)
     /\ (vec[v].loc.k = "ext" => vec[v].ext)
     /\ (vec[v].loc.k = "blk" /\ ~vec[v].owns => FALSE)
\* C15: the heap is sound: cached blocks are exactly those in the caches, each once; owned blocks have exactly one owner
HeapSound ==
  /\ \A b \in Blocks :
       /\ (blk[b].st = "cached") = (\E d \in 0..6 : b \in cache[d])
       /\ (blk[b].st = "owned") = (\E v \in Vecs : vec[v].live /\ vec[v].owns /\ vec[v].loc = BlkLoc(b))
  /\ \A d1 \in 0..6 : \A d2 \in 0..6 : d1 # d2 => cache[d1] \cap cache[d2] = {}
  /\ \A d \in 0..6 : Cardinality(cache[d]) <= CacheCap
\* C15: at quiescence (no live vector, caches emptied) every block has been given back
Quiescent == (\A v \in Vecs : ~vec[v].live) /\ (\A d \in 0..6 : cache[d] = {})
NoLeak == Quiescent => \A b \in Blocks : blk[b].st = "free"
\* values denote Hermitian matrices of the right dimension
ValuesOK == \A v \in Vecs : HasStore(vec[v]) /\ ValOf(v) # <<>> => Len(ValOf(v)) = vec[v].dim /\ MIsHerm(ValOf(v), vec[v].dim)

\* Action properties (checked on every step) ------------------------------------------
\* locations whose contents changed in this step
ChangedBlk == {b \in Blocks : blk[b].st = "owned" /\ blk'[b].st = "owned" /\ blk[b].val # blk'[b].val}
ChangedExt == {e \in Exts : ebuf[e].dim # 0 /\ ebuf[e].val # ebuf'[e].val}
TargetOf == lastAct'.t
\* C08/C09: a call writes only storage that its target ends up with, or that an rvalue operand handed over
WriteFrame ==
  [][ lastAct'.name # "none" =>
      /\ \A b \in ChangedBlk : vec'[TargetOf].loc = BlkLoc(b) /\ vec'[TargetOf].owns
      /\ \A e \in ChangedExt : vec'[TargetOf].loc = ExtLoc(e) /\ vec'[TargetOf].ext ]_vars
\* C08: user storage is never resized or replaced: a bound buffer keeps its dimension
ExternalStable == [][ lastAct'.name # "none" => \A e \in Exts : ebuf[e].dim # 0 => ebuf'[e].dim = ebuf[e].dim ]_vars
\* C09/C14/C16: a call that throws a library exception changes nothing; an allocation failure changes no vector but the target
FailureFrame ==
  [][ /\ (outcome' = "rt" => /\ vec' = vec /\ ebuf' = ebuf
                              /\ \A b \in Blocks : blk[b].st = "owned" => blk'[b] = blk[b])
      /\ (outcome' = "bad_alloc" => /\ \A v \in Vecs : v # TargetOf => vec'[v] = vec[v]
                                    /\ ebuf' = ebuf
                                    /\ \A v \in Vecs : v # TargetOf /\ HasStore(vec[v]) => ValAt(vec[v].loc, blk', ebuf') = ValOf(v)) ]_vars
\* C08: copies are independent: after a copy the two vectors have equal values in different storage
CopyIndependent ==
  [][ (lastAct'.name \in {"NewCopy","CopyAssign"} /\ outcome' = "ok" /\ lastAct'.t # lastAct'.a /\ HasStore(vec'[lastAct'.a])) =>
        /\ ValAt(vec'[lastAct'.t].loc, blk', ebuf') = ValAt(vec'[lastAct'.a].loc, blk', ebuf')
        /\ (vec'[lastAct'.t].loc # vec'[lastAct'.a].loc
            \/ (vec[lastAct'.t].live /\ vec[lastAct'.t].ext /\ vec[lastAct'.t].loc = vec[lastAct'.a].loc)) ]_vars  \* unless the user bound both to one buffer

\* export of transitions for replay --------------------------------------------------
ProjVec(r) == [live |-> r.live, dim |-> r.dim, lk |-> r.loc.k, id |-> r.loc.id, owns |-> r.owns, ext |-> r.ext]
RECURSIVE ISum(_,_)
ISum(f,n) == IF n = 0 THEN 0 ELSE ISum(f,n-1) + f[n]
\* small digest of a value, only used to tell exported states apart
Dig(M) == IF M = <<>> THEN 0 ELSE
          LET d == Len(M) IN
          ISum([q \in 1..(d*d) |-> LET r == ((q-1) \div d) + 1  c == ((q-1) % d) + 1 IN
                   (r*31 + c*17) * (M[r][c][1] % 9973) + (r*13 + c*29) * (M[r][c][3] % 9973)], d*d) % 1000003
Emit == PrintT(<<"EDGE", ToJson([n |-> nops, act |-> lastAct', out |-> outcome',
                                 from |-> [v \in Vecs |-> ProjVec(vec[v])], to |-> [v \in Vecs |-> ProjVec(vec'[v])],
                                 fd |-> [v \in Vecs |-> Dig(ValAt(vec[v].loc, blk, ebuf))],
                                 td |-> [v \in Vecs |-> Dig(ValAt(vec'[v].loc, blk', ebuf'))],
                                 fc |-> cache, tc |-> cache',
                                 fe |-> [e \in Exts |-> <<ebuf[e].dim, Dig(ebuf[e].val)>>],
                                 te |-> [e \in Exts |-> <<ebuf'[e].dim, Dig(ebuf'[e].val)>>]])>>)
=============================================================================
