----------------------------- MODULE GridTrace -----------------------------
(***************************************************************************)
(* Trace validation for C17 (binding B): a log of real executions of       *)
(* Set_xrange / Get_i, one JSON event per line, is accepted iff every      *)
(* event is allowed by the definitions of GridOps:                         *)
(*   Grid   the integer (order-isomorphic) image of the stored nodes;      *)
(*          must be non-decreasing                                         *)
(*   Range  integer facts about Set_xrange(a,b,scale): number of descents  *)
(*          (must be 0), number of stored nodes (= nx), distance of the    *)
(*          first/last node from a/b and largest distance of any node from *)
(*          the ideal equally spaced node, in units of eps*max(|a|,|b|)    *)
(*          (linear) resp. of eps*max(1,|log a|,|log b|) measured in log x *)
(*          (logarithmic).  Rounding analysis of the documented formulas   *)
(*          a+(b-a)*i/(nx-1) and exp(la+(lb-la)*i/(nx-1)) bounds these by  *)
(*          3.5 resp. 7.5, hence MaxUlpLin = 4 and MaxUlpLog = 8 never     *)
(*          reject a correct implementation.                               *)
(*   GetI   the answer must be in Allowed(grid, x) = Bracket or the error  *)
(***************************************************************************)
EXTENDS GridOps, Json, IOUtils, TLC

CONSTANTS MaxUlpLin, MaxUlpLog

Log == ndJsonDeserialize(IOEnv.TRACE)

VARIABLES l, cur      \* next event, current grid [id, nodes]
tvars == <<l, cur>>
Ev == Log[l]

TInit == l = 1 /\ cur = [id |-> 0, nodes |-> <<>>]
IsEvent(e) == l <= Len(Log) /\ Ev.e = e /\ l' = l + 1

TGrid == /\ IsEvent("Grid")
         /\ Len(Ev.nodes) >= 2 /\ IsSorted(Ev.nodes)
         /\ cur' = [id |-> Ev.id, nodes |-> Ev.nodes]
TRange == /\ IsEvent("Range")
          /\ Ev.mono = 0 /\ Ev.stored = Ev.nx
          /\ LET m == IF Ev.kind = "log" THEN MaxUlpLog ELSE MaxUlpLin
             IN Ev.end0 <= m /\ Ev.endN <= m /\ Ev.dev <= m
          /\ UNCHANGED cur
TGetI == /\ IsEvent("GetI")
         /\ Ev.grid = cur.id
         /\ (IF Ev.threw THEN Throw ELSE Ev.res) \in Allowed(cur.nodes, Ev.x4)
         /\ UNCHANGED cur

TraceNext == TGrid \/ TRange \/ TGetI
TraceSpec == TInit /\ [][TraceNext]_tvars
Accepted == TLCGet("stats").diameter - 1 = Len(Log)
=============================================================================
