----------------------------- MODULE SolverInd -----------------------------
(***************************************************************************)
(* Typed transcription of the pointer protocol of module Solver (same      *)
(* actions: Ini, SetAny (SetSwitch only acts through it), EvolveStart, Rhs with the last-pointer *)
(* cache as coded, EvolveEnd, MoveTo; the record of an object is split into *)
(* one function per field (Apalache enumerates sets of records); the shape,*)
(* the clock, the five switches and the callback list, which the protocol  *)
(* does not read, are left out; no bound on the number of steps).          *)
(*  IndInv is inductive under  *)
(* GslContract with FirstAtSys: BindOK, AfterEvolve and SysUnique hold     *)
(* after ANY number of steps, for any number of Evolve runs per object,    *)
(* with driver buffer addresses reused freely - TLC's exploration of       *)
(* Solver is bounded by MaxSteps, this is not.  The clauses of IndInv say  *)
(* why the stale cache is harmless: the derivative view always equals the  *)
(* cached pointer (so "unchanged" means "already right"), and the state    *)
(* view equals the cached pointer once a run has made its first call, and  *)
(* equals the object's own array before that - where the first call is.    *)
(* Run by tools/props/c10.py (thorough):                                   *)
(*   apalache-mc check --cinit=CInit --init=Init   --inv=IndInv --length=0 *)
(*   apalache-mc check --cinit=CInit --init=IndInv --inv=IndInv --length=1 *)
(***************************************************************************)
EXTENDS Integers, FiniteSets

CONSTANTS
  \* @type: Set(Int);
  Objs,
  \* @type: Set(Int);
  Addrs

VARIABLES
  \* @type: Int -> Bool;
  inited,
  \* @type: Int -> Int;
  sys,
  \* @type: Int -> Int;
  ebind,
  \* @type: Int -> Int;
  dbind,
  \* @type: Int -> Int;
  lastE,
  \* @type: Int -> Int;
  lastD,
  \* @type: Int -> Bool;
  any,
  \* @type: { o: Int, bufs: Set(Int), nrhs: Int };
  drv,
  \* @type: Bool;
  bad

CInit == Objs = {1, 2, 3} /\ Addrs = 0..6
NoDrv == [o |-> 0, bufs |-> {}, nrhs |-> 0]

InUse == {sys[o] : o \in {x \in Objs : inited[x]}} \union drv.bufs
FreeAddrs == (Addrs \ {0}) \ InUse

Init == /\ inited = [o \in Objs |-> FALSE] /\ sys = [o \in Objs |-> 0] /\ ebind = [o \in Objs |-> 0] /\ dbind = [o \in Objs |-> 0]
        /\ lastE = [o \in Objs |-> 0] /\ lastD = [o \in Objs |-> 0] /\ any = [o \in Objs |-> FALSE]
        /\ drv = NoDrv /\ bad = FALSE

\* SQuIDS::ini : a fresh state array, views alias it, caches cleared
Ini(o, a) ==
  /\ drv.o = 0
  /\ a \in FreeAddrs \union {sys[o]} /\ a # 0
  /\ inited' = [inited EXCEPT ![o] = TRUE] /\ sys' = [sys EXCEPT ![o] = a] /\ ebind' = [ebind EXCEPT ![o] = a]
  /\ dbind' = [dbind EXCEPT ![o] = 0] /\ lastE' = [lastE EXCEPT ![o] = 0] /\ lastD' = [lastD EXCEPT ![o] = 0]
  /\ UNCHANGED <<any, drv, bad>>
SetAny(o, b) == any' = [any EXCEPT ![o] = b] /\ UNCHANGED <<inited, sys, ebind, dbind, lastE, lastD, drv, bad>>

EvolveStart(o, bufs) ==
  /\ inited[o] /\ any[o] /\ drv.o = 0
  /\ bufs \subseteq FreeAddrs /\ bufs # {}
  /\ drv' = [o |-> o, bufs |-> bufs, nrhs |-> 0]
  /\ UNCHANGED <<inited, sys, ebind, dbind, lastE, lastD, any, bad>>

\* set_system_pointers(sp,dp) with the last-pointer cache as coded
NewE(o, sp) == IF sp # lastE[o] THEN sp ELSE ebind[o]
NewD(o, dp) == IF dp # lastD[o] THEN dp ELSE dbind[o]
GslContract(o, sp, dp) ==
  /\ sp \in {sys[o]} \union drv.bufs /\ dp \in drv.bufs
  /\ (drv.nrhs = 0 => sp = sys[o])
Rhs(o, sp, dp) ==
  /\ drv.o = o /\ GslContract(o, sp, dp)
  /\ ebind' = [ebind EXCEPT ![o] = NewE(o, sp)] /\ lastE' = [lastE EXCEPT ![o] = sp]
  /\ dbind' = [dbind EXCEPT ![o] = NewD(o, dp)] /\ lastD' = [lastD EXCEPT ![o] = dp]
  /\ drv' = [drv EXCEPT !.nrhs = 1]      \* only "none yet / some" matters (keeps the typed state finite)
  /\ bad' = (bad \/ NewE(o, sp) # sp \/ NewD(o, dp) # dp)
  /\ UNCHANGED <<inited, sys, any>>

\* driver freed, in-step view re-aliased to the stored state; the caches keep their last values
EvolveEnd(o) ==
  /\ drv.o = o
  /\ ebind' = [ebind EXCEPT ![o] = sys[o]]
  /\ drv' = NoDrv
  /\ UNCHANGED <<inited, sys, dbind, lastE, lastD, any, bad>>
\* move construction / assignment: the destination takes everything, the source is no longer initialised
MoveTo(dst, src) ==
  /\ dst # src /\ inited[src] /\ drv.o = 0
  /\ inited' = [inited EXCEPT ![dst] = TRUE, ![src] = FALSE]
  /\ sys' = [sys EXCEPT ![dst] = sys[src], ![src] = 0]
  /\ ebind' = [ebind EXCEPT ![dst] = ebind[src]] /\ dbind' = [dbind EXCEPT ![dst] = dbind[src]]
  /\ lastE' = [lastE EXCEPT ![dst] = lastE[src]] /\ lastD' = [lastD EXCEPT ![dst] = lastD[src]]
  /\ any' = [any EXCEPT ![dst] = any[src]]
  /\ UNCHANGED <<drv, bad>>

Next ==
  \/ \E o \in Objs, a \in Addrs \ {0} : Ini(o, a)
  \/ \E o \in Objs, b \in BOOLEAN : SetAny(o, b)
  \/ \E o \in Objs, B \in SUBSET (Addrs \ {0}) : EvolveStart(o, B)
  \/ \E o \in Objs, sp \in Addrs, dp \in Addrs : Rhs(o, sp, dp)
  \/ \E o \in Objs : EvolveEnd(o)
  \/ \E d \in Objs, s \in Objs : MoveTo(d, s)

BindOK == ~bad
AfterEvolve == \A o \in Objs : inited[o] /\ drv.o # o => ebind[o] = sys[o]
SysUnique == \A a \in Objs : \A b \in Objs : a # b /\ inited[a] /\ inited[b] => sys[a] # sys[b]

TypeOK ==
  /\ inited \in [Objs -> BOOLEAN] /\ any \in [Objs -> BOOLEAN]
  /\ sys \in [Objs -> Addrs] /\ ebind \in [Objs -> Addrs] /\ dbind \in [Objs -> Addrs]
  /\ lastE \in [Objs -> Addrs] /\ lastD \in [Objs -> Addrs]
  /\ drv \in [o : Objs \union {0}, bufs : SUBSET (Addrs \ {0}), nrhs : {0, 1}]
  /\ bad \in BOOLEAN
Aux ==
  /\ \A o \in Objs : dbind[o] = lastD[o]                               \* the derivative view IS the cached pointer
  /\ \A o \in Objs : inited[o] = (sys[o] # 0)                            \* an object without a state array holds no address
  /\ drv.o # 0 => (inited[drv.o] /\ drv.bufs # {})
  /\ drv.o = 0 => (drv.bufs = {} /\ drv.nrhs = 0)
  /\ \A o \in Objs : inited[o] => sys[o] \notin drv.bufs               \* a driver's buffers are not a live state array
  /\ \A o \in Objs : (inited[o] /\ drv.o = o /\ drv.nrhs = 0) => ebind[o] = sys[o]
  /\ \A o \in Objs : (inited[o] /\ drv.o = o /\ drv.nrhs > 0) => ebind[o] = lastE[o]
IndInv == TypeOK /\ BindOK /\ AfterEvolve /\ SysUnique /\ Aux
=============================================================================
