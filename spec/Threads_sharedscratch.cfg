SPECIFICATION Spec
CONSTANTS
  Threads = {1,2,3}
  NBlk = 2
  Cap = 1
  MaxOps = 8
  NRes = 3
  SharedScratch = TRUE
  DrainOnExit = TRUE
INVARIANTS RaceFree HeapSoundT NoBlockInDeadCache ScratchPerThread
CHECK_DEADLOCK FALSE
