SPECIFICATION Spec
CONSTANTS
  Threads = {1,2,3}
  NBlk = 3
  Cap = 2
  MaxOps = 8
  DrainOnExit = TRUE
INVARIANTS RaceFree HeapSoundT NoBlockInDeadCache
CHECK_DEADLOCK FALSE
