\* the bisection as it was coded in SQuIDS::Get_i (Repaired = FALSE): TLC is expected to report a violation of
\* ResultOK (uniform nx=4 on [0,3], x=1.25 -> 0 with GridMode = "uniform"; {0,1,3}, x=1.25 -> 0 with "all")
SPECIFICATION Spec
CONSTANTS
  NxSet = {2,3,4,5,6,7,8}
  MaxVal = 10
  Repaired = FALSE
  GridMode = "uniform"
  SeedKeep = 1
  VecNx = {2,3}
  VecMaxLen = 4
  VecMaxVal = 3
INVARIANTS TypeOK IndexSafe IndexSafeRep Terminates GridFacts VecRule ResultOK ThrowsIffOutside
CHECK_DEADLOCK FALSE
