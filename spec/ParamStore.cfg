SPECIFICATION Spec
CONSTANTS
  Win = 6
  Vals = {1,2}
  MaxOps = 2
INVARIANTS Sound
PROPERTIES Frame
ACTION_CONSTRAINT Emit
CHECK_DEADLOCK FALSE
