----------------------------- MODULE ParamStore -----------------------------
(***************************************************************************)
(* The parameter store of Const (part of C06): mixing angles th(i,j) and   *)
(* phases ph(i,j) for ordered state pairs, energy differences de(k).       *)
(* A Set with admissible indices stores the value; every Get returns the   *)
(* last value stored in that cell (0 initially) and nothing else changes;  *)
(* out-of-range or unordered indices are rejected with an exception and    *)
(* leave the store unchanged.  Admissible (as documented, MAX = 6):        *)
(*   angle : i < j, i < MAX-1, j < MAX      phase : i < j, j < MAX          *)
(*   energy: 1 <= k < MAX                                                   *)
(***************************************************************************)
EXTENDS Integers, Sequences, TLC, Json
CONSTANTS Win,       \* indices explored: 0..Win
          Vals,      \* value tokens (the harness maps v to the double 0.1*v + 0.01)
          MaxOps
MAX == 6
VARIABLES th, ph, de, out, nops, lastAct
vars == <<th, ph, de, out, nops, lastAct>>
Pairs == (0..Win) \X (0..Win)
OkAngle(i,j) == i < j /\ i < MAX - 1 /\ j < MAX
OkPhase(i,j) == i < j /\ j < MAX
OkEnergy(k) == k >= 1 /\ k < MAX
Init == /\ th = [p \in Pairs |-> 0] /\ ph = [p \in Pairs |-> 0] /\ de = [k \in 0..Win |-> 0]
        /\ out = "ok" /\ nops = 0 /\ lastAct = [k |-> "none", i |-> 0, j |-> 0, v |-> 0]
Set(kind,i,j,v) ==
  /\ lastAct' = [k |-> kind, i |-> i, j |-> j, v |-> v] /\ nops' = nops + 1
  /\ CASE kind = "angle" -> (IF OkAngle(i,j) THEN th' = [th EXCEPT ![<<i,j>>] = v] /\ out' = "ok" /\ UNCHANGED <<ph,de>>
                             ELSE out' = "rt" /\ UNCHANGED <<th,ph,de>>)
       [] kind = "phase" -> (IF OkPhase(i,j) THEN ph' = [ph EXCEPT ![<<i,j>>] = v] /\ out' = "ok" /\ UNCHANGED <<th,de>>
                             ELSE out' = "rt" /\ UNCHANGED <<th,ph,de>>)
       [] kind = "energy" -> (IF OkEnergy(i) THEN de' = [de EXCEPT ![i] = v] /\ out' = "ok" /\ UNCHANGED <<th,ph>>
                              ELSE out' = "rt" /\ UNCHANGED <<th,ph,de>>)
Next == /\ nops < MaxOps
        /\ \E kind \in {"angle","phase","energy"}, i \in 0..Win, j \in 0..Win, v \in Vals :
             (kind = "energy" => j = 0) /\ Set(kind,i,j,v)
Spec == Init /\ [][Next]_vars
\* only admissible cells ever hold a value
Sound == /\ \A p \in Pairs : (th[p] # 0 => OkAngle(p[1],p[2])) /\ (ph[p] # 0 => OkPhase(p[1],p[2]))
         /\ \A k \in 0..Win : de[k] # 0 => OkEnergy(k)
\* a rejected call changes nothing; an accepted one changes exactly its cell
Frame == [][ /\ (out' = "rt" => th' = th /\ ph' = ph /\ de' = de)
             /\ (out' = "ok" /\ lastAct'.k = "angle" => ph' = ph /\ de' = de /\ \A p \in Pairs : p # <<lastAct'.i,lastAct'.j>> => th'[p] = th[p]) ]_vars
\* export: the call and the complete expected read-back of the store afterwards (Get on every cell; "x" = must throw)
Cell(f, ok, p) == IF ok THEN f[p] ELSE -1
Emit == PrintT(<<"EDGE", ToJson([n |-> nops, prev |-> lastAct, act |-> lastAct', out |-> out',
           angle |-> [i \in 0..Win |-> [j \in 0..Win |-> IF OkAngle(i,j) THEN th'[<<i,j>>] ELSE -1]],
           phase |-> [i \in 0..Win |-> [j \in 0..Win |-> IF OkPhase(i,j) THEN ph'[<<i,j>>] ELSE -1]],
           energy |-> [k \in 0..Win |-> IF OkEnergy(k) THEN de'[k] ELSE -1]])>>)
=============================================================================
