------------------------------- MODULE Guards -------------------------------
(***************************************************************************)
(* C14 for the binary entry points that module SUVec's alphabet does not   *)
(* contain: operators between two unevaluated expressions (proxies), an    *)
(* expression and a vector, evolution of / by an expression, rotation by a *)
(* matrix of any shape, construction from a matrix of any shape, and the   *)
(* weighted rotation (whose weight enters through commutators).            *)
(* The rule is the property's: a call whose operands do not conform MUST   *)
(* raise an exception and leave every operand as it was; a call whose      *)
(* operands conform must not raise.  TLC enumerates every case of the      *)
(* bounded window and exports it with the required verdict; the replayer   *)
(* (harness/guard_replay.cpp, AddressSanitizer build) executes each one.   *)
(***************************************************************************)
EXTENDS Integers, TLC, Json

Dims == 2..6
Shapes == 1..8
PKinds == {"smul", "add", "neg", "icomm", "acomm"}          \* how an unevaluated expression is formed from its vector(s)
ExprEntries == {"P+Q", "P-Q", "P*Q", "P.Evolve(Q)"}         \* two expressions
MixedEntries == {"P+v", "P-v", "v+P", "v-P", "P*v", "v*P", "P.Evolve(v)", "v.Evolve(P)", "iCommutator(P,v)", "ACommutator(v,P)", "v+=P", "v-=P"}
WeightEntries == {"WeightedRotation(Const)", "WeightedRotation(matrices)"}
\* two plain vectors, by WHERE their components live: the target u owns its storage, views a user buffer of its own, or views the
\* very buffer the source v views ("shared": two vectors of possibly different dimension over one user array); v owns or views.
\* Whose memory it is plays no part in the rule, with one exception the interface documents: assignment RESIZES a target that owns
\* its storage, while a target on user storage cannot be resized and must reject a source of another dimension.
VecEntries == {"u=v", "u=P", "u+=v", "u-=v", "u*v", "u+v", "u-v", "iCommutator(u,v)", "ACommutator(u,v)", "u.Evolve(v)"}
TStores == {"own", "ext", "shared"}
SStores == {"own", "ext"}

VARIABLE c
NoCase == [entry |-> "none"]
Init == c = NoCase
\* conformance
ExprCase(e, k1, k2, d1, d2) == [entry |-> e, k1 |-> k1, k2 |-> k2, d1 |-> d1, d2 |-> d2, r |-> 0, cc |-> 0, must |-> (d1 # d2)]
MatCase(e, d, r, cc) == [entry |-> e, k1 |-> "-", k2 |-> "-", d1 |-> d, d2 |-> 0, r |-> r, cc |-> cc,
                         must |-> (IF e = "Rotate(U)" THEN ~(r = d /\ cc = d) ELSE (r # cc \/ r = 1 \/ r > 6))]
VecCase(e, k1, k2, d1, d2) == [entry |-> e, k1 |-> k1, k2 |-> k2, d1 |-> d1, d2 |-> d2, r |-> 0, cc |-> 0,
                               must |-> (IF e \in {"u=v", "u=P"} THEN (d1 # d2 /\ k1 # "own") ELSE d1 # d2)]
Next ==
  /\ c = NoCase
  /\ \/ \E e \in ExprEntries, k1 \in PKinds, k2 \in PKinds, d1 \in Dims, d2 \in Dims : c' = ExprCase(e, k1, k2, d1, d2)
     \/ \E e \in MixedEntries, k1 \in PKinds, d1 \in Dims, d2 \in Dims : c' = ExprCase(e, k1, "-", d1, d2)
     \/ \E e \in WeightEntries, d1 \in Dims, d2 \in Dims : c' = ExprCase(e, "-", "-", d1, d2)
     \/ \E e \in VecEntries, k1 \in TStores, k2 \in SStores, d1 \in Dims, d2 \in Dims : (k1 = "shared" => k2 = "ext") /\ c' = VecCase(e, k1, k2, d1, d2)
     \/ \E d \in Dims, r \in Shapes, cc \in Shapes : c' = MatCase("Rotate(U)", d, r, cc)
     \/ \E r \in Shapes, cc \in Shapes : c' = MatCase("SU_vector(matrix)", 0, r, cc)
Spec == Init /\ [][Next]_c
\* sanity of the table itself: conforming cases exist for every entry (so "must not raise" is exercised too)
Emit == PrintT(<<"EDGE", ToJson(c')>>)
=============================================================================
