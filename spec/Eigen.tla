------------------------------- MODULE Eigen -------------------------------
(***************************************************************************)
(* C12: SU_vector::GetEigenSystem on Hermitian matrices whose spectrum is  *)
(* known exactly.  Every case is a pair (U, D): U a product of plane       *)
(* rotations on the pi/4 lattice (module ExpFamiliesFast; identity for the *)
(* diagonal families), D a real diagonal with entries p + q sqrt2, and the *)
(* matrix handed to the library is  M = U D U^dagger  (+ 2^-s U P U^dagger *)
(* for the nearly degenerate family: spectrum D + 2^-s P, still exact).    *)
(* TLC proves for every case that M is Hermitian, U unitary, M U = U D     *)
(* (so the columns of U are eigenvectors and D is THE spectrum), and for   *)
(* the generator family that M is the library's basis element.  It exports *)
(* the matrix and the exact ascending spectrum.                            *)
(*                                                                         *)
(* Families (d = 2..6):                                                    *)
(*  1 diag       integer diagonals, every degeneracy pattern (all set      *)
(*               partitions of the positions)                              *)
(*  2 proj       0/1 diagonals: zero, projectors, partial sums, identity   *)
(*  3 ident      multiples of the identity                                 *)
(*  4 generator  scale * Basis(d,k), every slot k                          *)
(*  5 conj       dense conjugates of integer diagonals (repeated           *)
(*               eigenvalues at will)                                      *)
(*  6 sqrt2      dense conjugates with spectrum in Z[sqrt2]                *)
(*  7 near       conjugates of D + 2^-s P: gaps 2^-s, s = 4..46            *)
(* The eigenvectors returned by the code are not unique under degeneracy;  *)
(* their validity (M V = V L, V unitary) is a floating-point residual      *)
(* computed by the harness.                                                *)
(***************************************************************************)
EXTENDS ExpFamiliesFast, Json, FiniteSets

CONSTANTS Dims, Tier        \* Tier 0 quick, 1 thorough

VARIABLES cur, res, grp
vars == <<cur, res, grp>>

Enc(f,d,a,b) == ((f*8 + d)*65536 + a)*64 + b
DecF(id) == id \div (8*65536*64)
DecD(id) == (id \div (65536*64)) % 8
DecA(id) == (id \div 64) % 65536
DecB(id) == id % 64

\* restricted growth strings of length d = set partitions of the positions; code = base-6 number
RECURSIVE RgsMaxTo(_,_)
RgsMaxTo(s,i) == IF i = 0 THEN -1 ELSE LET m == RgsMaxTo(s,i-1) IN IF s[i] > m THEN s[i] ELSE m
IsRgs(s,d) == \A i \in 1..d : s[i] <= RgsMaxTo(s,i-1) + 1
RECURSIVE RgsCodeTo(_,_)
RgsCodeTo(s,i) == IF i = 0 THEN 0 ELSE RgsCodeTo(s,i-1)*6 + s[i]
RgsCodesOf(d) == { RgsCodeTo(s,d) : s \in { t \in [1..d -> 0..(d-1)] : IsRgs(t,d) } }
RgsAll == TLCEval([d \in 2..6 |-> RgsCodesOf(d)])      \* zero-arity constant: evaluated once
RgsCodes(d) == RgsAll[d]
RECURSIVE Pow6(_)
Pow6(i) == IF i = 0 THEN 1 ELSE 6*Pow6(i-1)
RgsOf(code,d) == [i \in 1..d |-> (code \div Pow6(d-i)) % 6]
NBlocks(code,d) == RgsMaxTo(RgsOf(code,d),d) + 1
BlockVal(b) == ((3*b + 1) % 7) - 3           \* distinct for b = 0..5 : -2 1 -3 0 3 -1

ScaleTab == <<1, -1, 3>>
NearShift == <<4, 10, 14, 20, 27, 34, 40, 46>>
Sqrt2Pat(a,d) == [r \in 1..d |->                       \* <<p,q>> = p + q sqrt2
     CASE a = 0 -> (IF r % 3 = 1 THEN <<0,1>> ELSE IF r % 3 = 2 THEN <<0,-1>> ELSE <<0,0>>)
       [] a = 1 -> <<PR(a,r,3) - 1, (r % 2)>>
       [] OTHER -> (IF r <= 2 THEN <<1,1>> ELSE <<r - 3, -1>>)]      \* repeated irrational eigenvalue

\* the catalogue
ConjCodesOf(d) == IF Tier = 1 \/ d <= 4 THEN RgsCodes(d)
                ELSE { c \in RgsCodes(d) : (c*7 + d) % (IF d = 5 THEN 3 ELSE 10) = 0 \/ NBlocks(c,d) \in {1,2,d} }
NearCodesOf(d) == { c \in RgsCodes(d) : NBlocks(c,d) < d /\ (d <= 3 \/ Tier = 1 \/ (c*5 + d) % 4 = 0) }
ConjAll == TLCEval([d \in 2..6 |-> ConjCodesOf(d)])
NearAll == TLCEval([d \in 2..6 |-> NearCodesOf(d)])
ConjCodes(d) == ConjAll[d]
NearCodes(d) == NearAll[d]
RotPats == IF Tier = 0 THEN {2,4} ELSE {1,2,3,4}
AllCases ==
     { Enc(1,d,c,0) : d \in Dims, c \in UNION { RgsCodes(dd) : dd \in Dims } }
  \cup { Enc(2,d,a,0) : d \in Dims, a \in 0..63 }
  \cup { Enc(3,d,a,0) : d \in Dims, a \in 0..3 }
  \cup { Enc(4,d,k,b) : d \in Dims, k \in 0..35, b \in 1..3 }
  \cup { Enc(5,d,c,b) : d \in Dims, c \in UNION { ConjCodes(dd) : dd \in Dims }, b \in RotPats }
  \cup { Enc(6,d,a,b) : d \in Dims, a \in 0..2, b \in RotPats }
  \cup { Enc(7,d,c,b) : d \in Dims, c \in UNION { NearCodes(dd) : dd \in Dims }, b \in { r*8 + q : r \in {2,3}, q \in 0..7 } }
Valid(id) == LET f == DecF(id)  d == DecD(id)  a == DecA(id)  b == DecB(id) IN
     CASE f = 1 -> a \in RgsCodes(d)
       [] f = 2 -> a < 2^d
       [] f = 3 -> TRUE
       [] f = 4 -> a < d*d
       [] f = 5 -> a \in ConjCodes(d)
       [] f = 6 -> TRUE
       [] OTHER -> a \in NearCodes(d)
Cases == { id \in AllCases : Valid(id) }

--------------------------------------------------------------------------
\* spectrum D (sequence of <<p,q>>), perturbation P (integers), shift s, eigenvector matrix U
Bit(a,r) == (a \div (2^(r-1))) % 2
\* generator slot k = d*i + j: off-diagonal generators are R diag(.., +1 at i, .., -1 at j, ..) R^dagger with a pi/4 rotation
GenI(d,k) == k \div d
GenJ(d,k) == k % d
CD(id) == LET f == DecF(id)  d == DecD(id)  a == DecA(id)  b == DecB(id) IN
     CASE f \in {1,5,7} -> [r \in 1..d |-> <<BlockVal(RgsOf(a,d)[r]), 0>>]
       [] f = 2 -> [r \in 1..d |-> <<Bit(a,r), 0>>]
       [] f = 3 -> [r \in 1..d |-> <<(<<-2,0,1,3>>)[a+1], 0>>]
       [] f = 4 -> LET i == GenI(d,a)  j == GenJ(d,a)  sc == ScaleTab[b] IN
                   [r \in 1..d |-> <<sc * (IF a = 0 THEN 1
                                          ELSE IF i = j THEN DiagW(i,r)
                                          ELSE IF r = (IF i < j THEN i ELSE j) + 1 THEN 1
                                          ELSE IF r = (IF i < j THEN j ELSE i) + 1 THEN -1 ELSE 0), 0>>]
       [] OTHER -> Sqrt2Pat(a,d)
CP(id) == LET d == DecD(id) IN [r \in 1..d |-> IF DecF(id) = 7 THEN (r % 3) - 1 ELSE 0]
CS(id) == IF DecF(id) = 7 THEN NearShift[(DecB(id) % 8) + 1] ELSE 0
CU(id) == LET f == DecF(id)  d == DecD(id)  a == DecA(id)  b == DecB(id) IN
     CASE f \in {1,2,3} -> DId(d)
       [] f = 4 -> LET i == GenI(d,a)  j == GenJ(d,a) IN
                   IF a = 0 \/ i = j THEN DId(d)
                   ELSE IF i < j THEN DRot(d,i,j,7,0)          \* real generator  E_ij + E_ji
                   ELSE DRot(d,j,i,7,2)                        \* imaginary generator  -i E_ji' + i E_ij'
       [] f \in {5,6} -> UOf(b,d)
       [] OTHER -> UOf(b \div 8, d)

QOfPQ(x) == <<x[1], x[2], 0, -x[2]>>                   \* p + q sqrt2,  sqrt2 = z - z^3
MOf(U,w,d) == DSand(U, [r \in 1..d |-> QOfPQ(w[r])], 1, d)

\* exact order on Z[sqrt2]:  p + q sqrt2 > 0
PosPQ(p,q) == \/ (p >= 0 /\ q >= 0 /\ (p > 0 \/ q > 0))
              \/ (p >= 0 /\ q < 0 /\ p*p > 2*q*q)
              \/ (p < 0 /\ q > 0 /\ 2*q*q > p*p)
\* eigenvalue = <<p, q, e>> = p + q sqrt2 + 2^-s e ;  2^-s |e| < 1/8 so (p,q) decides unless equal
LessEq(x,y) == IF x[1] = y[1] /\ x[2] = y[2] THEN x[3] <= y[3] ELSE PosPQ(y[1]-x[1], y[2]-x[2])
RECURSIVE Insert(_,_)
Insert(x,sq) == IF sq = <<>> THEN <<x>>
                ELSE IF LessEq(x, sq[1]) THEN <<x>> \o sq ELSE <<sq[1]>> \o Insert(x, Tail(sq))
RECURSIVE SortTo(_,_)
SortTo(w,i) == IF i = 0 THEN <<>> ELSE Insert(w[i], SortTo(w,i-1))
Spectrum(id) == LET d == DecD(id) IN TLCEval(SortTo([r \in 1..d |-> <<CD(id)[r][1], CD(id)[r][2], CP(id)[r]>>], d))

Vals(id) == LET d == DecD(id) IN
  Bind1(CU(id), LAMBDA U :
    [U |-> U, M0 |-> MOf(U, CD(id), d),
     M1 |-> IF DecF(id) = 7 THEN MOf(U, [r \in 1..d |-> <<CP(id)[r], 0>>], d) ELSE <<>>,
     spec |-> Spectrum(id)])

Groups == { id \div 4096 : id \in Cases }
Init == cur = 0 /\ res = <<>> /\ grp \in Groups
\* the one action: the library is asked for the eigensystem of case id (the harness asks with and without ordering)
GetEigenSystem(id) == /\ cur = 0 /\ id \div 4096 = grp
                      /\ cur' = id /\ res' = Vals(id) /\ UNCHANGED grp
Next == \E id \in Cases : GetEigenSystem(id)
Spec == Init /\ [][Next]_vars

Emit == PrintT(<<"EDGE", ToJson([id |-> cur', f |-> DecF(cur'), d |-> DecD(cur'), a |-> DecA(cur'), b |-> DecB(cur'),
                                 s |-> CS(cur'), M0 |-> DFlat(res'.M0, DecD(cur')),
                                 M1 |-> IF DecF(cur') = 7 THEN DFlat(res'.M1, DecD(cur')) ELSE <<>>,
                                 spec |-> res'.spec])>>)

--------------------------------------------------------------------------
TypeOK == cur = 0 \/ cur \in Cases
DTr(X,n) == LET RECURSIVE T(_)
                T(q) == IF q = 0 THEN QZ ELSE QAdd(T(q-1), X.a[q][q])
            IN T(n)
RECURSIVE SpecSum(_,_)
SpecSum(sp,i) == IF i = 0 THEN <<0,0>> ELSE LET t == SpecSum(sp,i-1) IN <<t[1] + sp[i][1], t[2] + sp[i][2]>>
\* M is Hermitian, U unitary, M U = U D : D is the spectrum and the columns of U are eigenvectors
LawEigen == cur # 0 =>
   LET d == DecD(cur)  U == res.U  M == res.M0 IN
   /\ DEq(DDag(M,d), M, d)
   /\ DEq(DMul(U, DDag(U,d), d), DId(d), d)
   /\ DEq(DMul(M, U, d), [den |-> U.den, a |-> Mat2(d, LAMBDA r,c : QMul(U.a[r][c], QOfPQ(CD(cur)[c])))], d)
   /\ (DecF(cur) = 7 => DEq(DMul(res.M1, U, d), [den |-> U.den, a |-> Mat2(d, LAMBDA r,c : QScale(CP(cur)[c], U.a[r][c]))], d))
   /\ DTr(M,d) = QScale(M.den, QOfPQ(SpecSum(res.spec, d)))
\* the spectrum is sorted and is a permutation of D
LawSorted == cur # 0 =>
   LET d == DecD(cur)  sp == res.spec IN
   /\ Len(sp) = d
   /\ \A i \in 1..(d-1) : LessEq(sp[i], sp[i+1])
   /\ \A x \in {<<CD(cur)[r][1], CD(cur)[r][2], CP(cur)[r]>> : r \in 1..d} :
        Cardinality({r \in 1..d : <<CD(cur)[r][1], CD(cur)[r][2], CP(cur)[r]>> = x}) = Cardinality({i \in 1..d : sp[i] = x})
\* the generator family is the library's basis (module Exact), the diagonal families are diagonal
LawFamily == cur # 0 =>
   LET d == DecD(cur)  M == res.M0 IN
   /\ (DecF(cur) = 4 => LET G == Basis(d, DecA(cur))  sc == ScaleTab[DecB(cur)] IN
          \A r \in 1..d : \A c \in 1..d :
             LET g == G[r][c] IN QScale(g[5], M.a[r][c]) = QScale(M.den * sc, <<g[1],g[2],g[3],g[4]>>))
   /\ (DecF(cur) \in {1,2,3} => \A r \in 1..d : \A c \in 1..d : (r # c => QIsZero(M.a[r][c])))
   /\ (DecF(cur) = 3 => \A r \in 1..d : M.a[r][r] = M.a[1][1])
   /\ (DecF(cur) = 2 => DEq(DMul(M,M,d), M, d))                     \* projectors
=============================================================================
