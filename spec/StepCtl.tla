------------------------------- MODULE StepCtl -------------------------------
(***************************************************************************)
(* The step-size controls of a SQuIDS object (Set_h, Set_h_min, Set_h_max, *)
(* Get_h, Get_h_min, Get_h_max) as a state machine on three numbers, with  *)
(* the re-centring rule as coded: when the current step falls outside the  *)
(* new bound it becomes (h_min+h_max)/2 if h_max < 50 h_min, else 10 h_min.*)
(* Values are integers (exact in double); halves are carried as 2x values. *)
(* Part of the "change stepper/tolerances" alphabet of C10: these calls    *)
(* must not touch the clock or the state, and read back what was set.      *)
(* Evolve(k) advances the elapsed time by k units whatever the controls    *)
(* are, and leaves the controls alone (the solver hands h to GSL by value  *)
(* and never reads it back): the state after a history is the flow over    *)
(* el units - a function of el only (C10) - so the replay compares it with *)
(* the exact flow of SolverFlow whenever el is a whole number of ticks.    *)
(* The re-centring rule is homogeneous, so the replay may read the values  *)
(* in any unit (integers, or 2^-10 of a tick when Evolve is in the game).  *)
(***************************************************************************)
EXTENDS Integers, Sequences, TLC, Json
CONSTANTS Vals, MaxOps, EVals, MaxEl
VARIABLES h2, hmin2, hmax2, nops, hist, el      \* twice the values (so that (a+b)/2 stays an integer)
vars == <<h2, hmin2, hmax2, nops, hist, el>>
Init == h2 = 2 /\ hmin2 = 0 /\ hmax2 = 2000000 /\ nops = 0 /\ hist = <<>> /\ el = 0
Recentre(mn2, mx2) == IF mx2 < 50 * mn2 THEN (mn2 + mx2) \div 2 ELSE mn2 * 10
SetH(v) == h2' = 2*v /\ UNCHANGED <<hmin2, hmax2, el>> /\ hist' = Append(hist, <<"h", v>>)
SetHMin(v) == /\ hmin2' = 2*v /\ hmax2' = hmax2
              /\ h2' = IF h2 < 2*v THEN Recentre(2*v, hmax2) ELSE h2
              /\ hist' = Append(hist, <<"hmin", v>>) /\ el' = el
SetHMax(v) == /\ hmax2' = 2*v /\ hmin2' = hmin2
              /\ h2' = IF h2 > 2*v THEN Recentre(hmin2, 2*v) ELSE h2
              /\ hist' = Append(hist, <<"hmax", v>>) /\ el' = el
\* h = 0 is not a configuration GSL accepts (no driver can be made for a zero initial step): Evolve is then outside the
\* property.  It is reachable through the setters: Set_h_min(0) followed by Set_h_max below h re-centres h to 10*0.
Evolve(k) == /\ h2 > 0 /\ el + k <= MaxEl /\ el' = el + k
             /\ UNCHANGED <<h2, hmin2, hmax2>>
             /\ hist' = Append(hist, <<"ev", k>>)
Next == /\ nops < MaxOps /\ nops' = nops + 1
        /\ \/ \E v \in Vals : SetH(v) \/ SetHMin(v) \/ SetHMax(v)
           \/ \E k \in EVals : Evolve(k)
Spec == Init /\ [][Next]_vars
\* read-back: the bounds are exactly what was last set
Emit == PrintT(<<"EDGE", ToJson([hist |-> hist', h2 |-> h2', hmin2 |-> hmin2', hmax2 |-> hmax2', el |-> el'])>>)
=============================================================================
