------------------------------- MODULE StepCtl -------------------------------
(***************************************************************************)
(* The step-size controls of a SQuIDS object (Set_h, Set_h_min, Set_h_max, *)
(* Get_h, Get_h_min, Get_h_max) as a state machine on three numbers, with  *)
(* the re-centring rule as coded: when the current step falls outside the  *)
(* new bound it becomes (h_min+h_max)/2 if h_max < 50 h_min, else 10 h_min.*)
(* Values are integers (exact in double); halves are carried as 2x values. *)
(* Part of the "change stepper/tolerances" alphabet of C10: these calls    *)
(* must not touch the clock or the state, and read back what was set.      *)
(***************************************************************************)
EXTENDS Integers, Sequences, TLC, Json
CONSTANTS Vals, MaxOps
VARIABLES h2, hmin2, hmax2, nops, hist      \* twice the values (so that (a+b)/2 stays an integer)
vars == <<h2, hmin2, hmax2, nops, hist>>
Init == h2 = 2 /\ hmin2 = 0 /\ hmax2 = 2000000 /\ nops = 0 /\ hist = <<>>
Recentre(mn2, mx2) == IF mx2 < 50 * mn2 THEN (mn2 + mx2) \div 2 ELSE mn2 * 10
SetH(v) == h2' = 2*v /\ UNCHANGED <<hmin2, hmax2>> /\ hist' = Append(hist, <<"h", v>>)
SetHMin(v) == /\ hmin2' = 2*v /\ hmax2' = hmax2
              /\ h2' = IF h2 < 2*v THEN Recentre(2*v, hmax2) ELSE h2
              /\ hist' = Append(hist, <<"hmin", v>>)
SetHMax(v) == /\ hmax2' = 2*v /\ hmin2' = hmin2
              /\ h2' = IF h2 > 2*v THEN Recentre(hmin2, 2*v) ELSE h2
              /\ hist' = Append(hist, <<"hmax", v>>)
Next == /\ nops < MaxOps /\ nops' = nops + 1
        /\ \E v \in Vals : SetH(v) \/ SetHMin(v) \/ SetHMax(v)
Spec == Init /\ [][Next]_vars
\* read-back: the bounds are exactly what was last set
Emit == PrintT(<<"EDGE", ToJson([hist |-> hist', h2 |-> h2', hmin2 |-> hmin2', hmax2 |-> hmax2'])>>)
=============================================================================
