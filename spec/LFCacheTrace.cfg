\* binding B: TRACE=<ndjson file> tlc -workers 1 -config LFCacheTrace.cfg LFCacheTrace.tla
\* (constants must equal the "Reset" events of the trace; the check writes one cfg per recorded configuration)
SPECIFICATION TraceSpec
CONSTANTS
  N = 2
  Threads = {1,2}
  OpsPerThread = 2
  GetReadsAfterPush = FALSE
  Spurious = TRUE
  RecordPath = FALSE
INVARIANTS TypeOK AtMostOnce OnlyInserted FailedInsertKeeps Drain
POSTCONDITION Accepted
CHECK_DEADLOCK FALSE
