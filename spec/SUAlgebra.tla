----------------------------- MODULE SUAlgebra -----------------------------
(***************************************************************************)
(* The algebra API of SU_vector as a small machine over exact Hermitian    *)
(* matrices (module Exact).  A program is: load operand A, (load operand   *)
(* B,) apply one API call; in chained mode the result becomes the next A.  *)
(* Each call is ONE action whose result is the documented matrix meaning:  *)
(*                                                                         *)
(*   tomatrix/frommatrix  M = sum_k c_k lambda_k  (round trip)             *)
(*   add sub neg scale div transpose real imag eq                          *)
(*   icom  i(AB-BA)      acom  AB+BA      trace  Tr(AB)                    *)
(*   evolve(h,k)     exp(iHt) A exp(-iHt), H = diag(h), t = k pi/4         *)
(*   rotate(i,j,kt,kd)   R^dagger A R,  R plane rotation, angles k pi/4    *)
(*   tob1 / tob0 (angle assignment)  U^dagger A U / U A U^dagger           *)
(*   projector identity generator posproj negproj   (factories)           *)
(*                                                                         *)
(* The invariants are the algebraic laws the properties C01 C02 C03 C06    *)
(* C13 list.  Every generated call is exported (ACTION_CONSTRAINT Emit)    *)
(* with operands and exact result, and replayed on the real kernels.       *)
(***************************************************************************)
EXTENDS Exact, Json

CONSTANTS Dims,      \* subset of 2..6
          Ops,       \* enabled API calls
          NPat,      \* number of integer-pattern operands besides the basis
          PhaseCode, \* multiples of pi/4 used as times / angles, offset by 5000 (cfg files cannot hold negative numbers)
          NSpec,     \* number of spectra for evolve
          Chain,     \* maximum number of chained calls (1 = single call)
          RotMode,   \* "all" = every residue pair, "seed" = pseudo-random subset
          RotKeep    \* in "seed" mode keep 1 of RotKeep cases

VARIABLES d, A, B, R, s, act, stage, n

vars == <<d, A, B, R, s, act, stage, n>>

Phases == {x - 5000 : x \in PhaseCode}

NoAct == [op |-> "none", p |-> <<0,0,0,0>>, h |-> <<>>]

UnaryOps  == {"tomatrix","neg","scale","div","transpose","real","imag","evolve","rotate","tob1","tob0","wrot","selfcheck"}
BinaryOps == {"add","sub","icom","acom","trace","eq","evoliso","rotiso"}
FactoryOps == {"projector","identity","generator","posproj","negproj","mixing"}

--------------------------------------------------------------------------
\* spectra for evolution: s = 0 zero, 1 distinct, 2 fully degenerate, 3 pairs, else pseudo-random in 0..3
SpecH(q,dd) == [i \in 1..dd |->
                 CASE q = 0 -> 0 [] q = 1 -> i - 1 [] q = 2 -> 2 [] q = 3 -> (i \div 2)
                   [] q = 4 -> (IF i = 1 THEN 3 ELSE 0)
                   [] OTHER -> ((q*q*3 + i*i*5 + i*q*7 + q) % 4)]

\* exp(iHt) A exp(-iHt), H = diag(h), t = k pi/4 :  entry (r,c) is multiplied by z^(k (h_r - h_c))
EvolveM(M,h,k,dd) == [r \in 1..dd |-> [c \in 1..dd |-> SMul(Zeta(k*(h[r]-h[c])), M[r][c])]]

\* plane rotation (0-based i<j) with theta = kt pi/4, delta = kd pi/4:
\*   R[i][i] = R[j][j] = cos, R[i][j] = sin e^{-i delta}, R[j][i] = -sin e^{+i delta}
RotM(dd,i,j,kt,kd) == [r \in 1..dd |-> [c \in 1..dd |->
        IF r = c THEN (IF r = i+1 \/ r = j+1 THEN Cos45(kt) ELSE S1)
        ELSE IF r = i+1 /\ c = j+1 THEN SMul(Sin45(kt), Zeta(-kd))
        ELSE IF r = j+1 /\ c = i+1 THEN SNeg(SMul(Sin45(kt), Zeta(kd)))
        ELSE S0]]
\* R^dagger M R, sparse: only rows/columns i,j mix
RotateM(M,dd,i,j,kt,kd) ==
  LET c  == Cos45(kt)
      p  == SMul(Sin45(kt), Zeta(-kd))        \* R[i][j]
      m  == SNeg(SMul(Sin45(kt), Zeta(kd)))   \* R[j][i]
      ii == i + 1  jj == j + 1
      \* MR = M R : column ii = M[.][ii] c + M[.][jj] m ; column jj = M[.][ii] p + M[.][jj] c
      MR == [r \in 1..dd |-> [q \in 1..dd |->
               IF q = ii THEN SAdd(SMul(M[r][ii],c), SMul(M[r][jj],m))
               ELSE IF q = jj THEN SAdd(SMul(M[r][ii],p), SMul(M[r][jj],c))
               ELSE M[r][q]]]
      \* R^dagger X : row ii = conj(c) X[ii] + conj(m) X[jj] ; row jj = conj(p) X[ii] + conj(c) X[jj]
  IN [r \in 1..dd |-> [q \in 1..dd |->
               IF r = ii THEN SAdd(SMul(SConj(c),MR[ii][q]), SMul(SConj(m),MR[jj][q]))
               ELSE IF r = jj THEN SAdd(SMul(SConj(p),MR[ii][q]), SMul(SConj(c),MR[jj][q]))
               ELSE MR[r][q]]]

\* the mixing matrix for an angle assignment th, ph : [pair index -> multiple of pi/4];
\* pairs are enumerated (0,1),(0,2),(1,2),(0,3).. ; each rotation multiplies from the LEFT
PairList(dd) == LET RECURSIVE Build(_,_)
                    Build(j,i) == IF j >= dd THEN <<>>
                                  ELSE IF i >= j THEN Build(j+1,0)
                                  ELSE <<<<i,j>>>> \o Build(j,i+1)
                IN Build(1,0)
RECURSIVE MixTo(_,_,_,_,_)
MixTo(dd,pl,th,ph,q) == IF q = 0 THEN MId(dd)
                        ELSE MNorm(MMul(RotM(dd,pl[q][1],pl[q][2],th[q],ph[q]), MixTo(dd,pl,th,ph,q-1), dd), dd)
MixU(dd,th,ph) == MixTo(dd,PairList(dd),th,ph,Len(PairList(dd)))
\* angle assignments indexed by q: a few sparse ones and pseudo-random ones
NPairs(dd) == (dd*(dd-1)) \div 2
AngTh(q,dd) == [x \in 1..NPairs(dd) |->
                 CASE q = 0 -> 0
                   [] q <= NPairs(dd) -> (IF x = q THEN 1 ELSE 0)                      \* single plane
                   [] q <= 2*NPairs(dd) -> (IF x = q - NPairs(dd) \/ x = ((q - NPairs(dd)) % NPairs(dd)) + 1 THEN 1 ELSE 0)
                   [] OTHER -> ((q*x*3 + q + x*x) % 4)]
AngPh(q,dd) == [x \in 1..NPairs(dd) |-> IF q = 0 THEN 0 ELSE ((q*5 + x*3 + q*x) % 8)]
ToB1(M,dd,q) == LET U == MixU(dd,AngTh(q,dd),AngPh(q,dd)) IN MNorm(MMul(Dagger(U,dd), MMul(M,U,dd), dd), dd)
ToB0(M,dd,q) == LET U == MixU(dd,AngTh(q,dd),AngPh(q,dd)) IN MNorm(MMul(U, MMul(M,Dagger(U,dd),dd), dd), dd)

\* WeightedRotation: V-basis to B0, weight by the diagonal Y on both sides, then to the W-basis:
\*   U_W^dagger ( Y ( U_V A U_V^dagger ) Y ) U_W        (the nested (anti)commutators of the code reduce to Y X Y)
WRot(M,dd,qv,qw,ys) == LET Y == MDiagInt(SpecH(ys,dd),dd)
                           X == ToB0(M,dd,qv)
                           UW == MixU(dd,AngTh(qw,dd),AngPh(qw,dd))
                       IN MNorm(MMul(Dagger(UW,dd), MMul(MMul(Y, MMul(X,Y,dd), dd), UW, dd), dd), dd)

RealPart(M,dd) == [r \in 1..dd |-> [c \in 1..dd |-> SDiv(SAdd(M[r][c],SConj(M[r][c])),2)]]
ImagRest(M,dd) == [r \in 1..dd |-> [c \in 1..dd |-> SDiv(SSub(M[r][c],SConj(M[r][c])),2)]]

\* factories
ProjM(dd,i) == MUnit(dd,i+1,i+1)
PosProjM(dd,k) == [r \in 1..dd |-> [c \in 1..dd |-> IF r = c /\ r <= k THEN S1 ELSE S0]]
NegProjM(dd,k) == [r \in 1..dd |-> [c \in 1..dd |-> IF r = c /\ r > dd - k THEN S1 ELSE S0]]

RotKeepIt(dd,i,j,kt,kd,a) ==
   RotMode = "all" \/ ((dd*131 + i*17 + j*29 + kt*7 + kd*13 + a*3) % RotKeep = 0)

--------------------------------------------------------------------------
Init == /\ d \in Dims /\ A = MZero(d) /\ B = MZero(d) /\ R = MZero(d) /\ s = S0
        /\ act = NoAct /\ stage = 0 /\ n = 0

Operand(dd,x) == IF x < dd*dd THEN Basis(dd,x) ELSE Pattern(x - dd*dd + 1, dd)
NOperands == d*d + NPat

LoadA == /\ stage = 0
         /\ \E x \in 0..(NOperands-1) :
              /\ A' = Operand(d,x)
              /\ act' = [op |-> "loadA", p |-> <<x,0,0,0>>, h |-> <<>>]
         /\ stage' = 1 /\ UNCHANGED <<d,B,R,s,n>>
LoadB == /\ stage = 1 /\ (Ops \cap BinaryOps) # {}
         /\ \E x \in 0..(NOperands-1) :
              /\ B' = Operand(d,x)
              /\ act' = [op |-> "loadB", p |-> <<x,0,0,0>>, h |-> <<>>]
         /\ stage' = 2 /\ UNCHANGED <<d,A,R,s,n>>

Done(op,p,h,res,sc) == /\ R' = res /\ s' = sc /\ act' = [op |-> op, p |-> p, h |-> h]
                       /\ stage' = 3 /\ n' = n + 1 /\ UNCHANGED <<d,A,B>>

Unary == /\ stage = 1
         /\ \/ "tomatrix" \in Ops /\ Done("tomatrix",<<0,0,0,0>>,<<>>,A,S0)
            \/ "neg" \in Ops /\ Done("neg",<<0,0,0,0>>,<<>>,MNeg(A,d),S0)
            \/ "scale" \in Ops /\ \E k \in {-3,2,5} : Done("scale",<<k,0,0,0>>,<<>>,MScale(k,A,d),S0)
            \/ "div" \in Ops /\ \E k \in {-4,2,8} : Done("div",<<k,0,0,0>>,<<>>,MDivInt(A,k,d),S0)
            \/ "transpose" \in Ops /\ Done("transpose",<<0,0,0,0>>,<<>>,Transp(A,d),S0)
            \/ "real" \in Ops /\ Done("real",<<0,0,0,0>>,<<>>,RealPart(A,d),S0)
            \/ "imag" \in Ops /\ Done("imag",<<0,0,0,0>>,<<>>,ImagRest(A,d),S0)
            \/ "evolve" \in Ops /\ \E q \in 0..(NSpec-1) : \E k \in Phases :
                  Done("evolve",<<k,q,0,0>>,SpecH(q,d),EvolveM(A,SpecH(q,d),k,d),S0)
            \/ "rotate" \in Ops /\ \E j \in 1..(d-1) : \E i \in 0..(j-1) : \E kt \in Phases : \E kd \in Phases :
                  /\ RotKeepIt(d,i,j,kt,kd,act.p[1])
                  /\ Done("rotate",<<i,j,kt,kd>>,<<>>,RotateM(A,d,i,j,kt,kd),S0)
            \/ "tob1" \in Ops /\ \E q \in 0..(NSpec-1) :
                  Done("tob1",<<q,0,0,0>>,AngTh(q,d) \o AngPh(q,d),ToB1(A,d,q),S0)
            \/ "tob0" \in Ops /\ \E q \in 0..(NSpec-1) :
                  Done("tob0",<<q,0,0,0>>,AngTh(q,d) \o AngPh(q,d),ToB0(A,d,q),S0)
            \/ "wrot" \in Ops /\ \E qv \in 0..(NSpec-1) : \E ys \in {1,3,5} :
                  LET qw == (qv * 3 + 1) % NSpec IN
                  Done("wrot",<<qv,qw,ys,0>>,AngTh(qv,d) \o AngPh(qv,d) \o AngTh(qw,d) \o AngPh(qw,d) \o SpecH(ys,d),WRot(A,d,qv,qw,ys),S0)

Binary == /\ stage = 2
          /\ \/ "add" \in Ops /\ Done("add",<<0,0,0,0>>,<<>>,MAdd(A,B,d),S0)
             \/ "sub" \in Ops /\ Done("sub",<<0,0,0,0>>,<<>>,MSub(A,B,d),S0)
             \/ "icom" \in Ops /\ Done("icom",<<0,0,0,0>>,<<>>,ICom(A,B,d),S0)
             \/ "acom" \in Ops /\ Done("acom",<<0,0,0,0>>,<<>>,ACom(A,B,d),S0)
             \/ "trace" \in Ops /\ Done("trace",<<0,0,0,0>>,<<>>,MZero(d),TrProd(A,B,d))
             \/ "eq" \in Ops /\ Done("eq",<<IF MEq(A,B,d) THEN 1 ELSE 0,0,0,0>>,<<>>,MZero(d),S0)

Factory == /\ stage = 0
           /\ \/ "projector" \in Ops /\ \E i \in 0..(d-1) : Done("projector",<<i,0,0,0>>,<<>>,ProjM(d,i),S0)
              \/ "identity" \in Ops /\ Done("identity",<<0,0,0,0>>,<<>>,MId(d),S0)
              \/ "generator" \in Ops /\ \E k \in 0..(d*d-1) : Done("generator",<<k,0,0,0>>,<<>>,Basis(d,k),S0)
              \/ "posproj" \in Ops /\ \E k \in 0..(d-1) : Done("posproj",<<k,0,0,0>>,<<>>,PosProjM(d,k),S0)
              \/ "negproj" \in Ops /\ \E k \in 0..(d-1) : Done("negproj",<<k,0,0,0>>,<<>>,NegProjM(d,k),S0)
              \* WeightedRotation of the weight itself (operand = Yd): exported with the operand in A and p[4] = 1
              \/ "wrot" \in Ops /\ \E qv \in 0..(NSpec-1) : \E ys \in {1,3} :
                    LET qw == (qv * 3 + 1) % NSpec  Y == MDiagInt(SpecH(ys,d),d) IN
                    /\ R' = WRot(Y,d,qv,qw,ys) /\ s' = S0 /\ A' = Y /\ stage' = 3 /\ n' = n + 1 /\ UNCHANGED <<d,B>>
                    /\ act' = [op |-> "wrot", p |-> <<qv,qw,ys,1>>, h |-> AngTh(qv,d) \o AngPh(qv,d) \o AngTh(qw,d) \o AngPh(qw,d) \o SpecH(ys,d)]
              \/ "mixing" \in Ops /\ \E q \in 0..(NSpec-1) :
                    Done("mixing",<<q,0,0,0>>,AngTh(q,d) \o AngPh(q,d),MixU(d,AngTh(q,d),AngPh(q,d)),S0)

\* chained mode: the result becomes the next first operand (second operand kept)
Continue == /\ stage = 3 /\ n < Chain /\ act.op \notin (FactoryOps \cup {"trace","eq"})
            /\ A' = MNorm(R,d) /\ stage' = (IF (Ops \cap BinaryOps) # {} /\ ~MIsZero(B,d) THEN 2 ELSE 1)
            /\ act' = [op |-> "continue", p |-> <<0,0,0,0>>, h |-> <<>>]
            /\ UNCHANGED <<d,B,R,s,n>>
\* in chained mode unary calls are also available with B loaded
UnaryAt2 == /\ stage = 2 /\ Chain > 1 /\ n >= 1
            /\ \/ "neg" \in Ops /\ Done("neg",<<0,0,0,0>>,<<>>,MNeg(A,d),S0)
               \/ "transpose" \in Ops /\ Done("transpose",<<0,0,0,0>>,<<>>,Transp(A,d),S0)
               \/ "evolve" \in Ops /\ \E q \in 0..(NSpec-1) : \E k \in Phases :
                     Done("evolve",<<k,q,0,0>>,SpecH(q,d),EvolveM(A,SpecH(q,d),k,d),S0)
               \/ "rotate" \in Ops /\ \E j \in 1..(d-1) : \E i \in 0..(j-1) : \E kt \in Phases : \E kd \in Phases :
                     /\ RotKeepIt(d,i,j,kt,kd,n)
                     /\ Done("rotate",<<i,j,kt,kd>>,<<>>,RotateM(A,d,i,j,kt,kd),S0)

Next == LoadA \/ LoadB \/ Unary \/ Binary \/ Factory \/ Continue \/ UnaryAt2
Spec == Init /\ [][Next]_vars

--------------------------------------------------------------------------
\* export: one line per generated API call
Emit == IF stage' = 3
        THEN PrintT(<<"EDGE", ToJson([d |-> d, op |-> act'.op, p |-> act'.p, h |-> act'.h,
                                      A |-> Flat(A',d), B |-> Flat(B,d), R |-> Flat(R',d), s |-> SNorm(s')])>>)
        ELSE TRUE

--------------------------------------------------------------------------
\* Laws (each guarded by the call it speaks about)
TypeOK == d \in 2..6 /\ stage \in 0..3

BasisInv == (stage = 0) => BasisOK(d) /\ CombOK(d)

\* C01: every operand and every linear result is Hermitian; matrix <-> coordinates round trip;
\*      Real + Imag = id ; transpose is an involution and maps to the conjugate for Hermitian matrices
Partner == Pattern(2,d)
LawLinear ==
  stage = 3 =>
    /\ (act.op \in {"tomatrix","neg","scale","div","add","sub","transpose","real","imag"} => MIsHerm(R,d))
    /\ (act.op = "tomatrix" => /\ MEq(CombS([k \in 0..(d*d-1) |-> Coord(A,d,k)], d), A, d)
                               /\ \A k \in 0..(d*d-1) : SIsReal(Coord(A,d,k)))
    /\ (act.op = "transpose" => MEq(R, MConj(A,d), d) /\ MEq(Transp(R,d), A, d))
    /\ (act.op = "real" => MEq(MAdd(R, ImagRest(A,d), d), A, d) /\ MEq(R, Transp(R,d), d))
    /\ (act.op = "imag" => MEq(MAdd(R, RealPart(A,d), d), A, d) /\ MEq(MNeg(R,d), Transp(R,d), d))
    /\ (act.op = "neg" => MIsZero(MAdd(R,A,d),d))
    /\ (act.op = "sub" => MEq(MAdd(R,B,d),A,d))
    /\ (act.op = "add" => MEq(R, MAdd(B,A,d), d))
    /\ (act.op = "eq" => (act.p[1] = 1) = (\A k \in 0..(d*d-1) : SEq(Coord(A,d,k),Coord(B,d,k))))

\* C02
LawBilinear ==
  stage = 3 =>
    /\ (act.op = "icom" => /\ MIsHerm(R,d) /\ SIsZero(MTr(R,d))
                           /\ MEq(R, MNeg(ICom(B,A,d),d), d)
                           /\ SIsZero(TrProd(A,R,d))
                           /\ MEq(ICom(MAdd(A,Partner,d),B,d), MAdd(R,ICom(Partner,B,d),d), d))
    /\ (act.op = "acom" => /\ MIsHerm(R,d) /\ MEq(R, ACom(B,A,d), d)
                           /\ MEq(ACom(MAdd(A,Partner,d),B,d), MAdd(R,ACom(Partner,B,d),d), d))
    /\ (act.op = "trace" => SIsReal(s) /\ SEq(s, TrProd(B,A,d)))

\* C03: group law, identity at t = 0, isometry
LawEvolve ==
  (stage = 3 /\ act.op = "evolve") =>
    LET k == act.p[1]  h == act.h IN
    /\ MIsHerm(R,d)
    /\ SEq(MTr(R,d), MTr(A,d))
    /\ (k = 0 => MEq(R,A,d))
    /\ MEq(EvolveM(R,h,3,d), EvolveM(A,h,k+3,d), d)             \* t1 then t2 = t1 + t2
    /\ MEq(EvolveM(R,h,-k,d), A, d)                             \* inverse
    /\ SEq(TrProd(R, EvolveM(Partner,h,k,d), d), TrProd(A,Partner,d))   \* scalar products preserved

\* C06: similarity by a unitary: isometry, identity component, inverse by negated angle
LawRotate ==
  (stage = 3 /\ act.op = "rotate") =>
    LET i == act.p[1]  j == act.p[2]  kt == act.p[3]  kd == act.p[4]
        U == RotM(d,i,j,kt,kd) IN
    /\ MIsHerm(R,d)
    /\ SEq(MTr(R,d), MTr(A,d))
    /\ MEq(MMul(Dagger(U,d),U,d), MId(d), d)
    /\ MEq(R, MMul(Dagger(U,d), MMul(A,U,d), d), d)             \* sparse form = dense definition
    /\ MEq(RotateM(R,d,i,j,-kt,kd), A, d)
    /\ SEq(TrProd(R, RotateM(Partner,d,i,j,kt,kd), d), TrProd(A,Partner,d))
LawMixing ==
  /\ (stage = 3 /\ act.op = "wrot") => MIsHerm(R,d)
  /\ (stage = 3 /\ act.op = "mixing") => MEq(MMul(Dagger(R,d),R,d), MId(d), d) /\ MEq(MMul(R,Dagger(R,d),d), MId(d), d)
  /\ (stage = 3 /\ act.op \in {"tob1","tob0"}) =>
    LET q == act.p[1]  U == MixU(d,AngTh(q,d),AngPh(q,d)) IN
    /\ MEq(MMul(Dagger(U,d),U,d), MId(d), d)
    /\ MIsHerm(R,d) /\ SEq(MTr(R,d), MTr(A,d))
    /\ (act.op = "tob1" => MEq(ToB0(R,d,q), A, d))
    /\ (act.op = "tob0" => MEq(ToB1(R,d,q), A, d))

\* C13
LawFactory ==
  stage = 3 =>
    /\ (act.op = "projector" => /\ MEq(MMul(R,R,d),R,d)
                                /\ \A i \in 0..(d-1) : i # act.p[1] => MIsZero(MMul(R,ProjM(d,i),d),d)
                                /\ SEq(MTr(R,d), S1))
    /\ (act.op = "identity" => MEq(R, Comb([k \in 0..(d*d-1) |-> IF k = 0 THEN 1 ELSE 0], d), d)
                               /\ MEq(R, LET RECURSIVE Sum(_)
                                             Sum(i) == IF i < 0 THEN MZero(d) ELSE MAdd(Sum(i-1),ProjM(d,i),d)
                                         IN Sum(d-1), d))
    /\ (act.op = "posproj" => /\ MEq(MMul(R,R,d),R,d) /\ SEq(MTr(R,d), SZ(act.p[1]))
                              /\ (act.p[1] > 0 => MEq(MAdd(R, NegProjM(d,d-act.p[1]), d), MId(d), d)))
    /\ (act.op = "negproj" => /\ MEq(MMul(R,R,d),R,d) /\ SEq(MTr(R,d), SZ(act.p[1]))
                              /\ (act.p[1] > 0 => MEq(MAdd(R, PosProjM(d,d-act.p[1]), d), MId(d), d)))
    /\ (act.op = "generator" => SEq(Coord(R,d,act.p[1]), S1)
                                /\ \A k \in 0..(d*d-1) : k # act.p[1] => SIsZero(Coord(R,d,k)))
=============================================================================
