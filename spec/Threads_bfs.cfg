SPECIFICATION Spec
CONSTANTS
  Threads = {1,2}
  NBlk = 3
  Cap = 2
  MaxOps = 9
  NRes = 0
  SharedScratch = FALSE
  DrainOnExit = TRUE
INVARIANTS RaceFree HeapSoundT NoBlockInDeadCache
CHECK_DEADLOCK FALSE
