---------------------------- MODULE LFCacheTrace ----------------------------
(***************************************************************************)
(* Binding B for C19: validates a recorded execution of the REAL shared     *)
(* cache (harness/lfcache_replay random ...) against LFCache.               *)
(* One ndjson event per scheduler step:                                     *)
(*   {"e":"Reset","n":N,"nt":|Threads|,"ops":OpsPerThread}                  *)
(*   {"e":"Step","tid":t,"pt":<pc before>,"k":"ins"|"get","spur":bool,     *)
(*    "free":[c,i],"data":[c,i],"nxt":[..],"dat":[..],                      *)
(*    "pc":<pc after>,"res":r,"done":d}                                     *)
(* The event names the thread; the action is the one enabled at that        *)
(* thread's pc (which must be the logged "pt"); the logged post-state of    *)
(* the heads, next/data arrays, the thread's next yield point, its result   *)
(* and its call count must equal the successor state.  Which branch of a    *)
(* CAS was taken is decided by the logged post-state.  The invariants of    *)
(* LFCache are checked on the validated behaviour (ghost variables).        *)
(* Run: -workers 1, env TRACE=<file>.                                       *)
(***************************************************************************)
EXTENDS LFCache, IOUtils

Log == ndJsonDeserialize(IOEnv.TRACE)

VARIABLE l

tvars == <<nxt, dat, freeH, dataH, th, ins, failed, fetched, dupl, hist, path, l>>

Ev == Log[l]

TInit == Init /\ l = 1

Matches(t) ==
  /\ freeH' = [c |-> Ev.free[1], i |-> Ev.free[2]]
  /\ dataH' = [c |-> Ev.data[1], i |-> Ev.data[2]]
  /\ \A i \in Idx : nxt'[i] = Ev.nxt[i + 1] /\ dat'[i] = Ev.dat[i + 1]
  /\ th'[t].pc = Ev.pc
  /\ th'[t].done = Ev.done
  /\ (Ev.pc = "ret" => th'[t].res = Ev.res)

TStep ==
  /\ l <= Len(Log)
  /\ Ev.e = "Step"
  /\ Ev.tid \in Threads
  /\ LET t == Ev.tid IN
     /\ th[t].pc = Ev.pt
     /\ \/ (Ev.k \in Kinds /\ Start(t, Ev.k))
        \/ PopLoad(t) \/ PopReadNext(t) \/ PopCas(t)
        \/ InsWrite(t) \/ PushLoad(t) \/ PushLink(t) \/ PushCas(t)
        \/ GetRead(t) \/ Return(t)
     /\ th'[t].op = (IF Ev.pc = "idle" THEN "none" ELSE Ev.k)
     /\ Matches(t)
  /\ path' = path
  /\ l' = l + 1

\* a new execution starts; the previous one must have completed
TReset ==
  /\ l <= Len(Log)
  /\ Ev.e = "Reset"
  /\ Ev.n = N /\ Ev.nt = Cardinality(Threads) /\ Ev.ops = OpsPerThread
  /\ (l = 1 \/ AllDone)
  /\ nxt' = [i \in Idx |-> IF i = 0 THEN Nil ELSE i - 1]
  /\ dat' = [i \in Idx |-> 0]
  /\ freeH' = [c |-> 0, i |-> N - 1]
  /\ dataH' = [c |-> 0, i |-> Nil]
  /\ th' = [t \in Threads |-> IdleRec(0)]
  /\ ins' = {} /\ failed' = {} /\ fetched' = {} /\ dupl' = {}
  /\ hist' = <<>> /\ path' = <<>>
  /\ l' = l + 1

TNext == TStep \/ TReset
TraceSpec == TInit /\ [][TNext]_tvars

\* the whole log was consumed  <=>  the deepest state has l = Len(Log) + 1
Accepted ==
  IF TLCGet("stats").diameter - 1 = Len(Log) THEN TRUE
  ELSE PrintT(<<"REJECTED", TLCGet("stats").diameter - 1, Len(Log)>>) /\ FALSE
=============================================================================
