------------------------------ MODULE SeqCache ------------------------------
(***************************************************************************)
(* The block cache used by ONE thread (thread-local variant of Cache.h, and *)
(* the shared variant when only one thread touches it): a bounded LIFO pool.*)
(*   insert(v) fails  iff  the pool holds N values                          *)
(*   get()     fails  iff  the pool is empty; otherwise returns the value   *)
(*                         inserted last among those still held             *)
(* The k-th call of a history inserts the value k (if it is an insert), so  *)
(* every value is distinct.  ops (the history string) is part of the state: *)
(* the reachable graph is the tree of all insert/get strings of length      *)
(* <= MaxLen, one branch per capacity in Caps.                              *)
(***************************************************************************)
EXTENDS Naturals, Sequences, TLC, Json

CONSTANTS Caps,      \* set of capacities N
          MaxLen     \* length of the longest history

VARIABLES cap,       \* the capacity of this branch
          stack,     \* values held, bottom .. top
          ops,       \* history: sequence of "i" / "g"
          last       \* the call just made: [op, val, res]   res: insert 1/0, get value/0

vars == <<cap, stack, ops, last>>

Init == /\ cap \in Caps
        /\ stack = <<>> /\ ops = <<>>
        /\ last = [op |-> "none", val |-> 0, res |-> 0]

Insert == /\ Len(ops) < MaxLen
          /\ LET v == Len(ops) + 1 IN
             /\ stack' = (IF Len(stack) < cap THEN Append(stack, v) ELSE stack)
             /\ last'  = [op |-> "ins", val |-> v, res |-> (IF Len(stack) < cap THEN 1 ELSE 0)]
          /\ ops' = Append(ops, "i")
          /\ UNCHANGED cap

Get == /\ Len(ops) < MaxLen
       /\ stack' = (IF stack = <<>> THEN stack ELSE SubSeq(stack, 1, Len(stack) - 1))
       /\ last'  = [op |-> "get", val |-> 0, res |-> (IF stack = <<>> THEN 0 ELSE stack[Len(stack)])]
       /\ ops' = Append(ops, "g")
       /\ UNCHANGED cap

Next == Insert \/ Get
Spec == Init /\ [][Next]_vars

TypeOK == /\ cap \in Caps /\ Len(stack) <= cap /\ Len(ops) <= MaxLen
          /\ \A k \in DOMAIN stack : stack[k] \in 1 .. MaxLen
\* values are distinct and, being inserted in increasing order and removed from the top, increasing
Lifo == \A j, k \in DOMAIN stack : j < k => stack[j] < stack[k]
\* a value handed out is no longer held; a refused value is not held
ResultOK == /\ (last.op = "get" /\ last.res # 0 => \A k \in DOMAIN stack : stack[k] # last.res)
            /\ (last.op = "ins" /\ last.res = 0 => Len(stack) = cap /\ \A k \in DOMAIN stack : stack[k] # last.val)
            /\ (last.op = "ins" /\ last.res = 1 => stack # <<>> /\ stack[Len(stack)] = last.val)
            /\ (last.op = "get" /\ last.res = 0 => stack = <<>>)

Emit == PrintT(<<"EDGE", ToJson([cap |-> cap, ops |-> ops', last |-> last', stack |-> stack'])>>)
=============================================================================
