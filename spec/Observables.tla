---------------------------- MODULE Observables ----------------------------
(***************************************************************************)
(* C05: expectation values of a SQuIDS object as exact traces, and the     *)
(* x-interpolating forms.                                                  *)
(*                                                                         *)
(* The object: nodes g (a grid, GridOps; integers = 4*x so that quarter    *)
(* points are integers), for every node and irho in {0,1} a stored         *)
(* (interaction picture) state rho[ix][irho], an integer Hermitian matrix, *)
(* the clock t - t_ini = K*pi/4 produced by a history of Evolve calls      *)
(* (with the numerical terms off, or on with HI = 0, the state does not    *)
(* change and only the clock advances), and the derived class'             *)
(* H0(x,irho) = (4x) * diag(h[irho]), h integer.  Then every phase is a    *)
(* multiple of pi/4 and everything below is exact in Q(zeta8) (Exact).     *)
(*                                                                         *)
(*  RhoS(rho,x4)   = exp(-i H0(x) dt) rho exp(+i H0(x) dt)                 *)
(*  ExpVal(O,irho,ix)      = Tr( RhoS(rho[ix][irho], g[ix]) O )            *)
(*  Intermediate(irho,x,b) = ((den-num) rho[b] + num rho[b+1]) / den,      *)
(*         num = x - g[b], den = g[b+1]-g[b], b in Bracket(g,x): the       *)
(*         convex combination of the two bracketing nodes                  *)
(*  ExpValD(O,irho,x,b)    = Tr( RhoS(Intermediate(irho,x,b), x) O ):      *)
(*         H0 is evaluated AT x, not at a node                             *)
(*  x outside [g_first, g_last] (BOTH sides): the call must raise an error *)
(*  averaging overloads: an entry is averaged out iff |phase| > scale; an  *)
(*         unreachable scale averages nothing                              *)
(*                                                                         *)
(* Actions: Setup (object with a grid, states, H0), EvolveClock(k) (one    *)
(* Evolve call, dt = k pi/4), Query(x) (all entry points at x).  Every     *)
(* Setup and Query transition is exported with the exact expected values   *)
(* and replayed on the real class (harness/obs_replay.cpp).                *)
(***************************************************************************)
EXTENDS Exact, GridOps, Json

CONSTANTS Dims,       \* Hilbert space dimensions
          NxSet,      \* numbers of nodes
          Kinds,      \* subset of {"lin","log","user"}
          NVar,       \* variants (grid offsets / spacings / spectra / states) per (d,kind,nx)
          StepCode,   \* Evolve arguments in units of pi/4, offset by 100 (cfg files cannot hold negative numbers)
          MaxHist,    \* maximum number of Evolve calls in a history
          FullAt      \* history length at which the full query set is asked (reduced set otherwise)

VARIABLES stage,  \* "idle" | "ready" | "asked"
          su,     \* the setup: [d, kind, nx, v]
          obj,    \* the object it denotes: [d, g, h, rho, ops] as explicit exact values
          hist,   \* sequence of Evolve arguments so far
          ans     \* the answer record of the last Query
vars == <<stage, su, obj, hist, ans>>

Steps == {c - 100 : c \in StepCode}
NRho == 2

--------------------------------------------------------------------------
\* the objects
Pow2(n) == LET RECURSIVE P(_)
               P(m) == IF m = 0 THEN 1 ELSE 2 * P(m-1) IN P(n)
UserGaps(v) == CASE v % 3 = 0 -> <<4, 16, 8, 4, 32, 4, 8>>
                 [] v % 3 = 1 -> <<16, 4, 4, 8, 64, 4, 16>>
                 [] OTHER     -> <<8, 8, 4, 32, 4, 16, 4>>
RECURSIVE UserNode(_,_)
UserNode(v,i) == IF i = 1 THEN (CASE v % 3 = 0 -> 12 [] v % 3 = 1 -> -20 [] OTHER -> 0)
                 ELSE UserNode(v,i-1) + UserGaps(v)[i-1]
\* nodes in units of 1/4 ; every spacing is a power of two >= 4 => weights are dyadic, quarter points integers
GridOf(kind,n,v) ==
   CASE kind = "lin"  -> [i \in 1..n |-> (CASE v % 3 = 0 -> 4 [] v % 3 = 1 -> 0 [] OTHER -> -8) + (i-1) * Pow2(2 + (v % 3))]
     [] kind = "log"  -> [i \in 1..n |-> 4 * Pow2(i - 1 + (v % 3))]
     [] kind = "user" -> [i \in 1..n |-> UserNode(v,i)]

\* spectra of H0 per unit of 4x: irho 0 and 1 differ
HSpec(q,dd) == [i \in 1..dd |->
                 CASE q % 4 = 0 -> i - 1
                   [] q % 4 = 1 -> (i * i) % 4
                   [] q % 4 = 2 -> i \div 2                    \* degenerate pair
                   [] OTHER     -> (3 * i + 1) % 4]
HOf(s,irho) == HSpec(s.v + irho, s.d)
\* stored states: different integer Hermitian matrices at every node and irho
RhoOf(s,ix,irho) == Pattern(1 + 3*ix + 5*irho + 2*s.v, s.d)      \* ix 0-based
\* operators: the whole basis and two dense integer patterns
NOps(dd) == dd*dd + 2
OpOf(dd,k) == IF k < dd*dd THEN Basis(dd,k) ELSE Pattern(9 + 4*(k - dd*dd), dd)     \* k in 0..NOps-1

--------------------------------------------------------------------------
\* the documented meaning (on explicit matrices; the object is held in the state variable obj)
\* exp(-i H dt) M exp(+i H dt) , H = x4*diag(h), dt = kk*pi/4 : entry (r,c) times z^(-kk x4 (h_r-h_c))
RhoS(M,h,kx,dd) == [r \in 1..dd |-> [c \in 1..dd |-> SMul(Zeta(-(kx * (h[r]-h[c]))), M[r][c])]]
\* Heisenberg form used by the code: exp(+i H dt) O exp(-i H dt)
OpH(M,h,kx,dd)  == [r \in 1..dd |-> [c \in 1..dd |-> SMul(Zeta(kx * (h[r]-h[c])), M[r][c])]]

KOf(hs) == LET RECURSIVE Sum(_)
               Sum(i) == IF i = 0 THEN 0 ELSE Sum(i-1) + hs[i] IN Sum(Len(hs))

\* o = the object [d, g, h, rho, ops]; ix, b 0-based; irho 0-based
Rho(o,ix,irho) == o.rho[ix+1][irho+1]
ExpVal(o,kk,O,irho,ix) == TrProd(RhoS(Rho(o,ix,irho), o.h[irho+1], kk * o.g[ix+1], o.d), O, o.d)

Num(gg,x,b) == x - gg[b+1]            \* b 0-based bracket index
Den(gg,b)   == gg[b+2] - gg[b+1]
Intermediate(o,irho,x,b) ==
   LET n == Num(o.g,x,b)  dn == Den(o.g,b)
       A == Rho(o,b,irho)  B == Rho(o,b+1,irho)
   IN TLCEval([r \in 1..o.d |-> [c \in 1..o.d |->
         SNorm(SDiv(SAdd(SScale(dn - n, A[r][c]), SScale(n, B[r][c])), dn))]])
\* H0 is evaluated AT x
ExpValDM(o,kk,O,irho,x,IM) == TrProd(RhoS(IM, o.h[irho+1], kk * x, o.d), O, o.d)
ExpValD(o,kk,O,irho,x,b) == ExpValDM(o,kk,O,irho,x,Intermediate(o,irho,x,b))

\* averaging: entry (r,c) is dropped iff |phase| > scale ; scale = -1 encodes "unreachable"
Unreachable == -1
OpHAvg(M,h,kx,dd,scale) == [r \in 1..dd |-> [c \in 1..dd |->
      IF scale # Unreachable /\ r # c /\ Abs(kx * (h[r]-h[c])) > scale THEN S0
      ELSE SMul(Zeta(kx * (h[r]-h[c])), M[r][c])]]
ExpValDAvg(o,kk,O,irho,x,b,scale) ==
   TrProd(Intermediate(o,irho,x,b), OpHAvg(O, o.h[irho+1], kk * x, o.d, scale), o.d)

--------------------------------------------------------------------------
\* queries: nodes, midpoints, quarter points, points below and above the range
QFull(gg) == LET n == Len(gg) IN
   { gg[i] : i \in 1..n }
   \cup { gg[i] + ((gg[i+1]-gg[i]) * j) \div 4 : i \in 1..(n-1), j \in 1..3 }
   \cup { gg[1] - o : o \in {1,2,4,64} } \cup { gg[n] + o : o \in {1,2,4,64} }
QSmall(gg) == LET n == Len(gg) IN
   { gg[1], gg[n], gg[(n+1) \div 2], gg[1] + (gg[2]-gg[1]) \div 2, gg[n-1] + (3*(gg[n]-gg[n-1])) \div 4,
     gg[1] - 1, gg[n] + 1 }

NodeIndex(gg,x) == IF \E i \in 1..Len(gg) : gg[i] = x THEN (CHOOSE i \in 1..Len(gg) : gg[i] = x) - 1 ELSE -1
AnyBracket(gg,x) == CHOOSE b \in Bracket(gg,x) : \A c \in Bracket(gg,x) : b <= c

Answer(o,hs,x) ==
   LET kk == KOf(hs)
       inr == InRange(o.g,x)
       nd == NodeIndex(o.g,x)
       IM == TLCEval([ir \in 1..NRho |-> IF inr THEN Intermediate(o,ir-1,x,AnyBracket(o.g,x)) ELSE <<>>])
   IN [x4 |-> x, K |-> kk, inr |-> inr, node |-> nd,
       inter |-> IF inr THEN [ir \in 1..NRho |-> Flat(IM[ir], o.d)] ELSE <<>>,
       evd   |-> IF inr THEN [ir \in 1..NRho |-> [k \in 1..NOps(o.d) |->
                                SNorm(ExpValDM(o,kk,o.ops[k],ir-1,x,IM[ir]))]] ELSE <<>>,
       ev    |-> IF nd >= 0 THEN [ir \in 1..NRho |-> [k \in 1..NOps(o.d) |->
                                SNorm(ExpVal(o,kk,o.ops[k],ir-1,nd))]] ELSE <<>>]

NoAns == [x4 |-> 0, K |-> 0, inr |-> FALSE, node |-> -1, inter |-> <<>>, evd |-> <<>>, ev |-> <<>>]
NoSetup == [d |-> 0, kind |-> "none", nx |-> 0, v |-> 0]
NoObj == [d |-> 0, g |-> <<>>, h |-> <<>>, rho |-> <<>>, ops |-> <<>>]
ObjOf(s) == [d |-> s.d, g |-> GridOf(s.kind,s.nx,s.v),
             h |-> [ir \in 1..NRho |-> HOf(s,ir-1)],
             rho |-> [ix \in 1..s.nx |-> [ir \in 1..NRho |-> RhoOf(s,ix-1,ir-1)]],
             ops |-> [k \in 1..NOps(s.d) |-> OpOf(s.d,k-1)]]

Init == stage = "idle" /\ su = NoSetup /\ obj = NoObj /\ hist = <<>> /\ ans = NoAns

Setup == /\ stage = "idle"
         /\ \E dd \in Dims : \E kd \in Kinds : \E n \in NxSet : \E vv \in 0..(NVar-1) :
               LET s == [d |-> dd, kind |-> kd, nx |-> n, v |-> vv] IN su' = s /\ obj' = ObjOf(s)
         /\ stage' = "ready" /\ UNCHANGED <<hist, ans>>

\* one Evolve(k*pi/4): the stored state is untouched, the clock advances
EvolveClock == /\ stage = "ready" /\ Len(hist) < MaxHist
               /\ \E k \in Steps : hist' = Append(hist, k)
               /\ UNCHANGED <<stage, su, obj, ans>>

Query == /\ stage = "ready"
         /\ \E x \in (IF Len(hist) = FullAt THEN QFull(obj.g) ELSE QSmall(obj.g)) : ans' = Answer(obj,hist,x)
         /\ stage' = "asked" /\ UNCHANGED <<su, obj, hist>>

Next == Setup \/ EvolveClock \/ Query
Spec == Init /\ [][Next]_vars

--------------------------------------------------------------------------
\* export
Emit == IF stage = "idle" /\ stage' = "ready"
        THEN LET o == obj' IN
             PrintT(<<"EDGE", ToJson([k |-> "setup", su |-> su', g |-> o.g, h |-> o.h,
                        rho |-> [ix \in 1..Len(o.g) |-> [ir \in 1..NRho |-> Flat(o.rho[ix][ir], o.d)]],
                        ops |-> [q \in 1..NOps(o.d) |-> Flat(o.ops[q], o.d)]])>>)
        ELSE IF stage' = "asked"
        THEN PrintT(<<"EDGE", ToJson([k |-> "query", su |-> su, hist |-> hist, a |-> ans'])>>)
        ELSE TRUE

--------------------------------------------------------------------------
\* laws, checked by TLC on every state
TypeOK == stage \in {"idle","ready","asked"}

\* the objects are what the property quantifies over
LawSetup == stage = "ready" =>
   LET gg == obj.g IN
   /\ IsGrid(gg) /\ Len(gg) = su.nx
   /\ \A i \in 1..(su.nx-1) : \E e \in 2..8 : gg[i+1] - gg[i] = Pow2(e)          \* dyadic weights
   /\ (su.kind = "lin" => IsUniform(gg))
   /\ (su.kind = "log" => \A i \in 1..(su.nx-1) : gg[i+1] = 2 * gg[i])          \* equally spaced in log x
   /\ (Len(hist) = 0 => \A ix \in 0..(su.nx-1) : \A ir \in 0..1 : MIsHerm(Rho(obj,ix,ir), su.d))

Asked == stage = "asked"
AG == obj.g
\* out of range on BOTH sides is an error, in range is answered
LawRange == Asked => (ans.inr <=> (AG[1] <= ans.x4 /\ ans.x4 <= AG[su.nx]))
\* convex combination: weights in [0,1], sum 1, for every admissible bracket; at a node the weight is 0 or 1
LawConvex == (Asked /\ ans.inr) =>
   \A b \in Bracket(AG, ans.x4) :
      LET n == Num(AG,ans.x4,b)  dn == Den(AG,b) IN
      /\ dn > 0 /\ 0 <= n /\ n <= dn /\ (dn - n) + n = dn
      /\ (ans.node >= 0 => n = 0 \/ n = dn)
\* the interpolated state does not depend on which admissible bracket is used, and is the node's state at a node
LawBracketFree == (Asked /\ ans.inr) =>
   \A b \in Bracket(AG, ans.x4) : \A ir \in 0..1 :
      /\ ans.inter[ir+1] = Flat(Intermediate(obj,ir,ans.x4,b), su.d)
      /\ (ans.node >= 0 => MEq(Intermediate(obj,ir,ans.x4,b), Rho(obj,ans.node,ir), su.d))
\* node-indexed form = D-form at every node
LawNodeAgree == (Asked /\ ans.node >= 0) =>
   \A ir \in 1..NRho : \A k \in 1..NOps(su.d) : SEq(ans.ev[ir][k], ans.evd[ir][k])
\* values are real; the identity measures the (interpolated) trace, independent of the clock
LawReal == (Asked /\ ans.inr) =>
   \A ir \in 1..NRho : /\ \A k \in 1..NOps(su.d) : SIsReal(ans.evd[ir][k])
                       /\ SEq(ans.evd[ir][1], MTr(Intermediate(obj,ir-1,ans.x4,AnyBracket(AG,ans.x4)), su.d))
\* Schroedinger picture of the state = Heisenberg picture of the operator (the way the code computes it)
LawOps == {1, 2, su.d + 1, NOps(su.d) - 1}          \* 0-based operator indices used in the sampled laws
LawPicture == (Asked /\ ans.inr) =>
   \A ir \in 0..1 : \A k \in LawOps :
      LET b == AnyBracket(AG,ans.x4) IN
      SEq(ans.evd[ir+1][k+1],
          TrProd(Intermediate(obj,ir,ans.x4,b), OpH(obj.ops[k+1], obj.h[ir+1], ans.K * ans.x4, su.d), su.d))
\* averaging overloads with an unreachable scale = plain ones
LawAvg == (Asked /\ ans.inr) =>
   \A ir \in 0..1 : \A k \in LawOps :
      SEq(ExpValDAvg(obj,ans.K,obj.ops[k+1],ir,ans.x4,AnyBracket(AG,ans.x4),Unreachable), ans.evd[ir+1][k+1])
\* at K = 0 the clock plays no role: the value is linear interpolation of the node values
LawLinear == (Asked /\ ans.inr /\ ans.K = 0) =>
   LET b == AnyBracket(AG,ans.x4)  n == Num(AG,ans.x4,b)  dn == Den(AG,b) IN
   \A ir \in 0..1 : \A k \in LawOps :
      SEq(SScale(dn, ans.evd[ir+1][k+1]),
          SAdd(SScale(dn - n, ExpVal(obj,0,obj.ops[k+1],ir,b)), SScale(n, ExpVal(obj,0,obj.ops[k+1],ir,b+1))))
=============================================================================
