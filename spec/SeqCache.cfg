\* all insert/get strings of length <= 10 on capacities 1..4 (tools/props/c19.py generates the same at run time)
SPECIFICATION Spec
CONSTANTS
  Caps = {1,2,3,4}
  MaxLen = 10
INVARIANTS TypeOK Lifo ResultOK
ACTION_CONSTRAINT Emit
CHECK_DEADLOCK FALSE
