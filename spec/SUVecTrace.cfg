SPECIFICATION TSpec
CONSTANTS
  Vecs = {0,1,2,3,4,5}
  Dims = {2,3,4,5,6}
  Exts = {1,2,3,4}
  NBlk = 40
  CacheCap = 32
  MaxOps = 1000000
  Policy = "any"
  StealEmpties = TRUE
  OpsOn = {"add"}
  Faults = TRUE
  NoVec = 99
INVARIANTS TypeOK UniqueOwner MovedFromSafe ExternalExact HeapSound ValuesOK
PROPERTIES WriteFrame ExternalStable FailureFrame CopyIndependent
POSTCONDITION Accepted
CHECK_DEADLOCK FALSE
