----------------------------- MODULE ThreadsInd -----------------------------
(***************************************************************************)
(* Typed transcription of module Threads (same actions, DrainOnExit = TRUE,*)
(* SharedScratch = FALSE, no operation bound) for Apalache.  IndInv is     *)
(* inductive: Init => IndInv and IndInv /\ Next => IndInv', so RaceFree,   *)
(* HeapSoundT, NoBlockInDeadCache and ScratchPerThread hold after ANY      *)
(* number of steps for the constants of CInit - TLC's exploration of       *)
(* Threads is bounded by MaxOps, this is not.  Run by tools/props/c18.py:  *)
(*   apalache-mc check --cinit=CInit --init=Init   --inv=IndInv --length=0 *)
(*   apalache-mc check --cinit=CInit --init=IndInv --inv=IndInv --length=1 *)
(***************************************************************************)
EXTENDS Integers, FiniteSets

CONSTANTS
  \* @type: Set(Int);
  Threads,
  \* @type: Int;
  NBlk,
  \* @type: Int;
  Cap

VARIABLES
  \* @type: Int -> { st: Str, th: Int };
  blk,
  \* @type: Int -> Set(Int);
  cache,
  \* @type: Set(Int);
  chan,
  \* @type: Int -> Bool;
  alive,
  \* @type: Bool;
  raced,
  \* @type: Int -> Int;
  res

Blocks == 1..NBlk
Free == [st |-> "free", th |-> 0]

\* @type: Int;
NRes == 3
Res == 1..NRes
CInit == Threads = {1,2,3} /\ NBlk = 4 /\ Cap = 2

AllocHit(t, b) == /\ alive[t] /\ b \in cache[t]
                  /\ blk' = [blk EXCEPT ![b] = [st |-> "vec", th |-> t]]
                  /\ cache' = [cache EXCEPT ![t] = @ \ {b}]
                  /\ UNCHANGED <<chan, alive, raced, res>>
AllocNew(t, b) == /\ alive[t] /\ blk[b].st = "free"
                  /\ blk' = [blk EXCEPT ![b] = [st |-> "vec", th |-> t]]
                  /\ UNCHANGED <<cache, chan, alive, raced, res>>
ReleaseCache(t, b) == /\ alive[t] /\ blk[b] = [st |-> "vec", th |-> t] /\ Cardinality(cache[t]) < Cap
                      /\ blk' = [blk EXCEPT ![b] = [st |-> "cached", th |-> t]]
                      /\ cache' = [cache EXCEPT ![t] = @ \union {b}]
                      /\ UNCHANGED <<chan, alive, raced, res>>
ReleaseFree(t, b) == /\ alive[t] /\ blk[b] = [st |-> "vec", th |-> t]
                     /\ blk' = [blk EXCEPT ![b] = Free]
                     /\ UNCHANGED <<cache, chan, alive, raced, res>>
Send(t, b) == /\ alive[t] /\ blk[b] = [st |-> "vec", th |-> t]
              /\ blk' = [blk EXCEPT ![b] = [st |-> "chan", th |-> 0]]
              /\ chan' = chan \union {b}
              /\ UNCHANGED <<cache, alive, raced, res>>
Recv(t, b) == /\ alive[t] /\ b \in chan
              /\ blk' = [blk EXCEPT ![b] = [st |-> "vec", th |-> t]]
              /\ chan' = chan \ {b}
              /\ UNCHANGED <<cache, alive, raced, res>>
Exit(t) == /\ alive[t] /\ \A b \in Blocks : ~(blk[b].st = "vec" /\ blk[b].th = t)
           /\ alive' = [alive EXCEPT ![t] = FALSE]
           /\ blk' = [b \in Blocks |-> IF b \in cache[t] THEN Free ELSE blk[b]]
           /\ cache' = [cache EXCEPT ![t] = {}]
           /\ res' = [r \in Res |-> IF res[r] = t THEN 0 ELSE res[r]]
           /\ UNCHANGED <<chan, raced>>
Access(t, b) == /\ alive[t] /\ blk[b].st = "vec"
                /\ raced' = (raced \/ blk[b].th # t)
                /\ UNCHANGED <<blk, cache, chan, alive, res>>
ResMake(t, r) == /\ alive[t] /\ res[r] = 0 /\ res' = [res EXCEPT ![r] = t]
                 /\ UNCHANGED <<blk, cache, chan, alive, raced>>
ResUse(t, r) == /\ alive[t] /\ res[r] # 0
                /\ raced' = (raced \/ res[r] # t)
                /\ UNCHANGED <<blk, cache, chan, alive, res>>

Init == /\ blk = [b \in Blocks |-> Free]
        /\ cache = [t \in Threads |-> {}]
        /\ chan = {}
        /\ alive = [t \in Threads |-> TRUE]
        /\ raced = FALSE /\ res = [r \in Res |-> 0]

Next == \E t \in Threads, b \in Blocks :
          \/ AllocHit(t,b) \/ AllocNew(t,b) \/ ReleaseCache(t,b) \/ ReleaseFree(t,b)
          \/ Send(t,b) \/ Recv(t,b) \/ Exit(t) \/ (blk[b].th = t /\ Access(t,b))
          \/ \E r \in Res : \/ ((\A q \in Res : res[q] # t) /\ ResMake(t, r))
                            \/ (res[r] = t /\ ResUse(t, r))

TypeOK == /\ blk \in [Blocks -> [st : {"free","vec","cached","chan"}, th : Threads \union {0}]]
          /\ cache \in [Threads -> SUBSET Blocks]
          /\ chan \in SUBSET Blocks
          /\ alive \in [Threads -> BOOLEAN]
          /\ raced \in BOOLEAN
          /\ res \in [Res -> Threads \union {0}]
HeapSoundT ==
  /\ \A b \in Blocks : (blk[b].st = "cached") = (\E t \in Threads : b \in cache[t])
  /\ \A b \in Blocks : blk[b].st = "cached" => b \in cache[blk[b].th]
  /\ \A t1 \in Threads : \A t2 \in Threads : t1 # t2 => cache[t1] \intersect cache[t2] = {}
  /\ \A b \in Blocks : (blk[b].st = "chan") = (b \in chan)
  /\ \A t \in Threads : Cardinality(cache[t]) <= Cap
NoBlockInDeadCache == \A t \in Threads : ~alive[t] => cache[t] = {}
\* strengthening: holders are live threads; cached blocks name a real thread
Aux == /\ \A b \in Blocks : blk[b].st = "vec" => (blk[b].th \in Threads /\ alive[blk[b].th])
       /\ \A b \in Blocks : blk[b].st = "cached" => blk[b].th \in Threads
       /\ \A b \in Blocks : blk[b].st \in {"free","chan"} => blk[b].th = 0
RaceFree == ~raced
ScratchPerThread == /\ \A r1 \in Res : \A r2 \in Res : (res[r1] # 0 /\ res[r1] = res[r2]) => r1 = r2
                    /\ \A r \in Res : res[r] # 0 => alive[res[r]]
IndInv == TypeOK /\ HeapSoundT /\ NoBlockInDeadCache /\ Aux /\ RaceFree /\ ScratchPerThread
=============================================================================
