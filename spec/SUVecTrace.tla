----------------------------- MODULE SUVecTrace -----------------------------
(***************************************************************************)
(* Validates a trace recorded from the real SU_vector implementation       *)
(* (harness/suvec_drive.cpp) against module SUVec: every recorded call     *)
(* must be explained by the corresponding action of the specification,     *)
(* with the recorded outcome, the recorded heap events, and the recorded   *)
(* projection of every vector (dimension, location, ownership flags) and   *)
(* the exact value of every vector's and user buffer's storage.            *)
(* Invariants and action properties of SUVec are evaluated on the way.     *)
(***************************************************************************)
EXTENDS SUVec, IOUtils

Log == ndJsonDeserialize(IOEnv.TRACE)

VARIABLE l
tvars == <<vars, l>>

Ev == Log[l]
NVec == Cardinality(Vecs)

\* recorded Gaussian-integer matrix (row-major list of [re,im]) equals an exact matrix
ValMatches(M, p, d) ==
  /\ ~p.ni                           \* the recorded storage holds integers (as every exact value of the specification)
  /\ Len(p.val) = d*d
  /\ \A r \in 1..d : \A c \in 1..d :
        LET x == p.val[(r-1)*d + c] IN SEq(M[r][c], <<x[1],0,x[2],0,1>>)

PostOK ==
  /\ outcome' = Ev.out
  /\ hev' = {<<Ev.hev[i][1], Ev.hev[i][2]>> : i \in 1..Len(Ev.hev)}
  /\ \A v \in Vecs :
       LET p == Ev.post[v+1]  r == vec'[v] IN
       /\ r.live = p.live /\ r.dim = p.dim /\ r.owns = p.owns /\ r.ext = p.ext
       /\ r.loc.k = p.lk /\ r.loc.id = p.id
       /\ (HasStore(r) => ValMatches(ValAt(r.loc, blk', ebuf'), p, r.dim))
  /\ \A e \in Exts :
       LET p == Ev.ebuf[e] IN
       /\ ebuf'[e].dim = p.dim
       /\ (p.dim # 0 => ValMatches(ebuf'[e].val, p, p.dim))
  /\ Ev.scalar = 0

Step ==
  LET e == Ev.e IN
  CASE e = "NewEmpty" -> NewEmpty(Ev.t)
    [] e = "NewSized" -> NewSized(Ev.t, Ev.d, Ev.fail)
    [] e = "MakeAligned" -> MakeAligned(Ev.t, Ev.d, Ev.fail)
    [] e = "NewFromList" -> NewFromList(Ev.t, Ev.d, Ev.c, Ev.fail)
    [] e = "NewExt" -> NewExt(Ev.t, Ev.d, Ev.ee)
    [] e = "NewCopy" -> NewCopy(Ev.t, Ev.a, Ev.fail)
    [] e = "NewMove" -> NewMove(Ev.t, Ev.a)
    [] e = "Destroy" -> Destroy(Ev.t)
    [] e = "ClearCache" -> ClearCache
    [] e = "Write" -> Write(Ev.t, Ev.c)
    [] e = "SetBackingStore" -> SetBackingStore(Ev.t, Ev.ee)
    [] e = "CopyAssign" -> CopyAssign(Ev.t, Ev.a, Ev.fail)
    [] e = "MoveAssign" -> MoveAssign(Ev.t, Ev.a)
    [] e = "CompoundVec" -> CompoundVec(Ev.t, Ev.w, Ev.a)
    [] e = "CompoundScalar" -> CompoundScalar(Ev.t, Ev.w)
    [] e = "AssignExpr" -> AssignExpr(Ev.t, Ev.w, Ev.op, Ev.a, Ev.b, Ev.arv, Ev.brv, Ev.c, Ev.fail)
    [] e = "Probe" -> Probe(Ev.t, Ev.op)
    [] e = "BinaryRead" -> BinaryRead(Ev.op, Ev.a, Ev.b)
    [] e = "Factory" -> FactoryF(Ev.t, Ev.op, Ev.d, Ev.c, Ev.fail)
    [] OTHER -> FALSE

\* Reset: the driver has destroyed every vector and emptied the cache (both recorded as ordinary calls);
\* the specification must be quiescent with every block given back, and the ledger must agree
TReset == /\ Ev.e = "Reset"
          /\ Quiescent /\ (\A b \in Blocks : blk[b].st = "free")
          /\ Ev.leaked = 0
          /\ vec' = [v \in Vecs |-> DeadVec] /\ blk' = [b \in Blocks |-> FreeBlk]
          /\ ebuf' = [e \in Exts |-> NoBuf] /\ cache' = [d \in 0..6 |-> {}]
          /\ outcome' = "ok" /\ hev' = {} /\ nops' = 0 /\ lastAct' = NoAct

TNext == /\ l <= Len(Log)
         /\ l' = l + 1
         /\ \/ (Ev.e # "Reset" /\ Ev.e # "End" /\ Step /\ PostOK)
            \/ TReset
            \/ (Ev.e = "End" /\ UNCHANGED vars)

TInit == Init /\ l = 1
TSpec == TInit /\ [][TNext]_tvars

Accepted == TLCGet("stats").diameter - 1 = Len(Log)
\* the same requirements as in exhaustive exploration, now on the implementation's behaviour
TWriteFrame == [][ (l' = l + 1 /\ Ev.e \notin {"Reset","End"}) =>
                     /\ \A b \in ChangedBlk : vec'[TargetOf].loc = BlkLoc(b) /\ vec'[TargetOf].owns
                     /\ \A e \in ChangedExt : vec'[TargetOf].loc = ExtLoc(e) /\ vec'[TargetOf].ext ]_tvars
=============================================================================
