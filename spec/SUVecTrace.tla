----------------------------- MODULE SUVecTrace -----------------------------
(***************************************************************************)
(* Validates a trace recorded from the real SU_vector implementation       *)
(* (harness/suvec_drive.cpp) against module SUVec: every recorded call     *)
(* must be explained by the corresponding action of the specification,     *)
(* with the recorded outcome, the recorded heap events, and the recorded   *)
(* projection of every vector (dimension, location, ownership flags) and   *)
(* the exact value of every vector's and user buffer's storage.            *)
(* Invariants and action properties of SUVec are evaluated on the way.     *)
(***************************************************************************)
EXTENDS SUVec, IOUtils

Log == ndJsonDeserialize(IOEnv.TRACE)

VARIABLE l
tvars == <<vars, l>>

Ev == Log[l]
NVec == Cardinality(Vecs)

\* recorded Gaussian-integer matrix (row-major list of [re,im]) equals an exact matrix
ValMatches(M, p, d) ==
  /\ ~p.ni                           \* the recorded storage holds integers (as every exact value of the specification)
  /\ Len(p.val) = d*d
  /\ \A r \in 1..d : \A c \in 1..d :
        LET x == p.val[(r-1)*d + c] IN SEq(M[r][c], <<x[1],0,x[2],0,1>>)

PostOK ==
  /\ outcome' = Ev.out
  /\ hev' = {<<Ev.hev[i][1], Ev.hev[i][2]>> : i \in 1..Len(Ev.hev)}
  /\ \A v \in Vecs :
       LET p == Ev.post[v+1]  r == vec'[v] IN
       /\ r.live = p.live /\ r.dim = p.dim /\ r.owns = p.owns /\ r.ext = p.ext
       /\ r.loc.k = p.lk /\ r.loc.id = p.id
       /\ (HasStore(r) => ValMatches(ValAt(r.loc, blk', ebuf'), p, r.dim))
  /\ \A e \in Exts :
       LET p == Ev.ebuf[e] IN
       /\ ebuf'[e].dim = p.dim
       /\ (p.dim # 0 => ValMatches(ebuf'[e].val, p, p.dim))
  /\ Ev.scalar = 0

Step ==
  LET e == Ev.e IN
  CASE e = "NewEmpty" -> NewEmpty(Ev.t)
    [] e = "NewSized" -> NewSized(Ev.t, Ev.d, Ev.fail)
    [] e = "MakeAligned" -> MakeAligned(Ev.t, Ev.d, Ev.fail)
    [] e = "NewFromList" -> NewFromList(Ev.t, Ev.d, Ev.c, Ev.fail)
    [] e = "NewExt" -> NewExt(Ev.t, Ev.d, Ev.ee)
    [] e = "NewCopy" -> NewCopy(Ev.t, Ev.a, Ev.fail)
    [] e = "NewMove" -> NewMove(Ev.t, Ev.a)
    [] e = "Destroy" -> Destroy(Ev.t)
    [] e = "ClearCache" -> ClearCache
    [] e = "Write" -> Write(Ev.t, Ev.c)
    [] e = "SetBackingStore" -> SetBackingStore(Ev.t, Ev.ee)
    [] e = "CopyAssign" -> CopyAssign(Ev.t, Ev.a, Ev.fail)
    [] e = "MoveAssign" -> MoveAssign(Ev.t, Ev.a)
    [] e = "CompoundVec" -> CompoundVec(Ev.t, Ev.w, Ev.a)
    [] e = "CompoundScalar" -> CompoundScalar(Ev.t, Ev.w)
    [] e = "AssignExpr" -> AssignExpr(Ev.t, Ev.w, Ev.op, Ev.a, Ev.b, Ev.arv, Ev.brv, Ev.c, Ev.fail)
    [] e = "Probe" -> Probe(Ev.t, Ev.op)
    [] e = "BinaryRead" -> BinaryRead(Ev.op, Ev.a, Ev.b)
    [] e = "Factory" -> FactoryF(Ev.t, Ev.op, Ev.d, Ev.c, Ev.fail)
    [] OTHER -> FALSE

\* Burst(d,n): n temporaries of dimension d alive at once, then all released (this is how the capacity of a cache class
\* is reached).  The recorded heap events are applied in order as the micro steps of SUVec (Alloc = hit | new,
\* Dealloc = cached (only while the class has room) | del); every block taken must have been given back.
RECURSIVE BurstFold(_,_,_,_)
BurstFold(st, evs, i, dd) ==
  IF i > Len(evs) \/ ~st.ok THEN st ELSE
  LET k == evs[i][1]  b == evs[i][2] IN
  IF b \notin Blocks THEN [st EXCEPT !.ok = FALSE] ELSE
  CASE k = "new" -> (IF st.blk[b].st = "free"
                    THEN BurstFold([st EXCEPT !.blk[b] = [st |-> "tmp", dim |-> dd, raw |-> FALSE, val |-> <<>>]], evs, i+1, dd)
                    ELSE [st EXCEPT !.ok = FALSE])
    [] k = "hit" -> (IF b \in st.cache[dd]
                    THEN BurstFold([st EXCEPT !.blk[b].st = "tmp", !.cache[dd] = @ \ {b}], evs, i+1, dd)
                    ELSE [st EXCEPT !.ok = FALSE])
    [] k = "cached" -> (IF st.blk[b].st = "tmp" /\ Cardinality(st.cache[dd]) < CacheCap
                       THEN BurstFold([st EXCEPT !.blk[b].st = "cached", !.cache[dd] = @ \cup {b}], evs, i+1, dd)
                       ELSE [st EXCEPT !.ok = FALSE])
    [] k = "del" -> (IF st.blk[b].st = "tmp"
                    THEN BurstFold([st EXCEPT !.blk[b] = FreeBlk], evs, i+1, dd)
                    ELSE [st EXCEPT !.ok = FALSE])
    [] OTHER -> [st EXCEPT !.ok = FALSE]
TBurst == /\ Ev.e = "Burst" /\ Ev.out = "ok" /\ ValidDim(Ev.d) /\ Ev.scalar = 0
          /\ LET r == BurstFold([ok |-> TRUE, blk |-> blk, cache |-> cache], Ev.hev, 1, Ev.d) IN
             /\ r.ok
             /\ \A b \in Blocks : r.blk[b].st # "tmp"                                  \* nothing is left allocated and unowned
             /\ Cardinality({i \in 1..Len(Ev.hev) : Ev.hev[i][1] \in {"new","hit"}}) = Ev.c   \* one block per temporary
             /\ blk' = r.blk /\ cache' = r.cache
          /\ UNCHANGED <<vec, ebuf>> /\ outcome' = "ok" /\ hev' = {} /\ nops' = nops + 1
          /\ lastAct' = [A("Burst") EXCEPT !.d = Ev.d, !.c = Ev.c]

\* Reset: the driver has destroyed every vector and emptied the cache (both recorded as ordinary calls);
\* the specification must be quiescent with every block given back, and the ledger must agree
TReset == /\ Ev.e = "Reset"
          /\ Quiescent /\ (\A b \in Blocks : blk[b].st = "free")
          /\ Ev.leaked = 0
          /\ vec' = [v \in Vecs |-> DeadVec] /\ blk' = [b \in Blocks |-> FreeBlk]
          /\ ebuf' = [e \in Exts |-> NoBuf] /\ cache' = [d \in 0..6 |-> {}]
          /\ outcome' = "ok" /\ hev' = {} /\ nops' = 0 /\ lastAct' = NoAct

TNext == /\ l <= Len(Log)
         /\ l' = l + 1
         /\ \/ (Ev.e \notin {"Reset","End","Burst"} /\ Step /\ PostOK)
            \/ TBurst
            \/ TReset
            \/ (Ev.e = "End" /\ UNCHANGED vars)

TInit == Init /\ l = 1
TSpec == TInit /\ [][TNext]_tvars

Accepted == TLCGet("stats").diameter - 1 = Len(Log)
\* the same requirements as in exhaustive exploration, now on the implementation's behaviour
TWriteFrame == [][ (l' = l + 1 /\ Ev.e \notin {"Reset","End"}) =>
                     /\ \A b \in ChangedBlk : vec'[TargetOf].loc = BlkLoc(b) /\ vec'[TargetOf].owns
                     /\ \A e \in ChangedExt : vec'[TargetOf].loc = ExtLoc(e) /\ vec'[TargetOf].ext ]_tvars
=============================================================================
