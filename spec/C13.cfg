SPECIFICATION Spec
CONSTANTS
  Dims = {2,3,4,5,6}
  Ops = {"projector","identity","generator","posproj","negproj"}
  NPat = 0
  Phases = {0}
  NSpec = 1
  Chain = 1
  RotMode = "all"
  RotKeep = 1
INVARIANTS TypeOK BasisInv LawFactory
ACTION_CONSTRAINT Emit
CHECK_DEADLOCK FALSE
