SPECIFICATION Spec
CONSTANTS
  Vals = {1, 4, 30, 200, 1000}
  MaxOps = 4
  EVals = {}
  MaxEl = 0
ACTION_CONSTRAINT Emit
CHECK_DEADLOCK FALSE
