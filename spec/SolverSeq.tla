------------------------------ MODULE SolverSeq ------------------------------
(***************************************************************************)
(* Lifetimes of solver objects (C10): every sequence, up to a bound, of    *)
(* construction, re-initialisation (to another problem size), toggling     *)
(* AnyNumerics, Evolve, move construction and move assignment over two     *)
(* object slots - in particular a moved-from object that is given a new    *)
(* problem and evolved next to the object that took its state, and an      *)
(* object re-initialised to another size between two Evolve calls.         *)
(* Abstract state per slot: dead / inited / moved (constructed, but its    *)
(* contents were taken), the AnyNumerics flag, the clock in quarter ticks, *)
(* and which of two problem shapes it holds.  Every behaviour is replayed  *)
(* on real objects; after each call the clock, whether the stepper ran     *)
(* (= the flag), `paramsok` (the system handed to GSL points back at the   *)
(* object that is evolving), the in-step view = the stored state, and a    *)
(* normal return are compared.  The scripts are fixed (no seed).           *)
(***************************************************************************)
EXTENDS Integers, Sequences, TLC, Json
CONSTANTS MaxOps
Objs == {1, 2}
VARIABLES st, any, t4, shape, nops, hist
vars == <<st, any, t4, shape, nops, hist>>
Init == /\ st = [o \in Objs |-> IF o = 1 THEN "inited" ELSE "dead"]
        /\ any = [o \in Objs |-> FALSE] /\ t4 = [o \in Objs |-> 0] /\ shape = [o \in Objs |-> 1]
        /\ nops = 0 /\ hist = <<>>
Alive(o) == st[o] # "dead"
New(o) == /\ st[o] = "dead"
          /\ st' = [st EXCEPT ![o] = "inited"] /\ any' = [any EXCEPT ![o] = FALSE] /\ t4' = [t4 EXCEPT ![o] = 0]
          /\ shape' = [shape EXCEPT ![o] = 1] /\ hist' = Append(hist, <<"new", o, 0>>)
\* re-initialisation: a fresh clock (2 ticks), the OTHER problem shape; the switches are not touched
Ini(o) == /\ Alive(o)
          /\ st' = [st EXCEPT ![o] = "inited"] /\ t4' = [t4 EXCEPT ![o] = 8] /\ shape' = [shape EXCEPT ![o] = 3 - shape[o]]
          /\ UNCHANGED any /\ hist' = Append(hist, <<"ini", o, 3 - shape[o]>>)
SetAny(o, b) == /\ Alive(o) /\ any[o] # b
                /\ any' = [any EXCEPT ![o] = b] /\ UNCHANGED <<st, t4, shape>>
                /\ hist' = Append(hist, <<"any", o, IF b THEN 1 ELSE 0>>)
Evolve(o) == /\ st[o] = "inited"
             /\ t4' = [t4 EXCEPT ![o] = @ + 4] /\ UNCHANGED <<st, any, shape>>
             /\ hist' = Append(hist, <<"evolve", o, 0>>)
Take(d, s) == /\ st' = [st EXCEPT ![d] = "inited", ![s] = "moved"]
              /\ any' = [any EXCEPT ![d] = any[s]] /\ t4' = [t4 EXCEPT ![d] = t4[s]] /\ shape' = [shape EXCEPT ![d] = shape[s]]
MoveCtor(d, s) == d # s /\ st[d] = "dead" /\ st[s] = "inited" /\ Take(d, s) /\ hist' = Append(hist, <<"movector", d, s>>)
MoveAssign(d, s) == d # s /\ Alive(d) /\ st[s] = "inited" /\ Take(d, s) /\ hist' = Append(hist, <<"moveassign", d, s>>)
Next == /\ nops < MaxOps /\ nops' = nops + 1
        /\ \E o \in Objs : \/ New(o) \/ Ini(o) \/ Evolve(o) \/ \E b \in BOOLEAN : SetAny(o, b)
                           \/ \E s \in Objs : MoveCtor(o, s) \/ MoveAssign(o, s)
Spec == Init /\ [][Next]_vars
\* only complete behaviours (those that end with an Evolve) are worth replaying: the export is filtered by the replayer
Emit == PrintT(<<"EDGE", ToJson([hist |-> hist', t4 |-> t4', any |-> any', st |-> st'])>>)
=============================================================================
