-------------------------- MODULE ExpFamiliesFast --------------------------
(***************************************************************************)
(* Exact Q(z) matrices (z = exp(i pi/4)) in a form TLC evaluates quickly,   *)
(* shared by ExpFamilies (C07) and Eigen (C12): one common denominator per *)
(* matrix, explicit values, plane rotations on the pi/4 lattice and their  *)
(* products.  Scalars/matrices of module Exact are used for conversion.    *)
(***************************************************************************)
EXTENDS Exact

PR(s,r,md) == (s*s*3 + r*r*5 + r*s*7 + s + 2*r) % md       \* small deterministic pseudo-random numbers

\* ---- fast exact layer: a matrix is [den |-> D, a |-> [r |-> [c |-> <<a,b,c,d>>]]], value (a + b z + c z^2 + d z^3)/D.
\* One common positive denominator per matrix, no gcd per operation; common factors of 2 are removed per matrix.
\* TLC keeps [x \in S |-> e] as an unevaluated lambda and re-evaluates e at every application, and it re-evaluates operator
\* arguments at every use inside recursive definitions: every matrix is therefore made explicit with TLCEval (Mat2) and
\* every matrix operand is bound to its value once (Bind1/Bind2: a bound variable of a set constructor holds a value).
Mat2(n, F(_,_)) == TLCEval([r \in 1..n |-> TLCEval([c \in 1..n |-> F(r,c)])])
Bind1(X, F(_)) == CHOOSE v \in {F(x) : x \in {X}} : TRUE
Bind2(X, Y, F(_,_)) == CHOOSE v \in {F(x,y) : x \in {X}, y \in {Y}} : TRUE
QZ == <<0,0,0,0>>
QOne(x) == <<x,0,0,0>>
QMul(x,y) == << x[1]*y[1] - x[2]*y[4] - x[3]*y[3] - x[4]*y[2],
                x[1]*y[2] + x[2]*y[1] - x[3]*y[4] - x[4]*y[3],
                x[1]*y[3] + x[2]*y[2] + x[3]*y[1] - x[4]*y[4],
                x[1]*y[4] + x[2]*y[3] + x[3]*y[2] + x[4]*y[1] >>
QAdd(x,y) == <<x[1]+y[1], x[2]+y[2], x[3]+y[3], x[4]+y[4]>>
QSub(x,y) == <<x[1]-y[1], x[2]-y[2], x[3]-y[3], x[4]-y[4]>>
QNeg(x) == <<-x[1],-x[2],-x[3],-x[4]>>
QConj(x) == <<x[1],-x[4],-x[3],-x[2]>>
QScale(n,x) == <<n*x[1],n*x[2],n*x[3],n*x[4]>>
QIsZero(x) == x[1] = 0 /\ x[2] = 0 /\ x[3] = 0 /\ x[4] = 0
QZeta(k) == LET z == Zeta(k) IN <<z[1],z[2],z[3],z[4]>>
QEven(x) == x[1] % 2 = 0 /\ x[2] % 2 = 0 /\ x[3] % 2 = 0 /\ x[4] % 2 = 0
QHalf(x) == <<x[1] \div 2, x[2] \div 2, x[3] \div 2, x[4] \div 2>>
\* sum_{q=1..n} X[r][q] * Y[q][c] on explicit values
RECURSIVE QDot(_,_,_,_,_)
QDot(X,Y,r,c,q) == IF q = 0 THEN QZ ELSE QAdd(QDot(X,Y,r,c,q-1), QMul(X[r][q], Y[q][c]))
RECURSIVE QSandDot(_,_,_,_,_)
QSandDot(U,w,r,c,q) == IF q = 0 THEN QZ ELSE QAdd(QSandDot(U,w,r,c,q-1), QMul(QMul(U[r][q], w[q]), QConj(U[c][q])))
RECURSIVE DRedV(_,_)
DRedV(X,n) == IF X.den % 2 = 0 /\ (\A r \in 1..n : \A c \in 1..n : QEven(X.a[r][c]))
              THEN Bind1([den |-> X.den \div 2, a |-> Mat2(n, LAMBDA r,c : QHalf(X.a[r][c]))], LAMBDA x : DRedV(x,n))
              ELSE X
DRed(X,n) == Bind1(X, LAMBDA x : DRedV(x,n))
DId(n) == [den |-> 1, a |-> Mat2(n, LAMBDA r,c : IF r = c THEN QOne(1) ELSE QZ)]
DMul(X,Y,n) == Bind2(X, Y, LAMBDA x,y : DRed([den |-> x.den * y.den, a |-> Mat2(n, LAMBDA r,c : QDot(x.a,y.a,r,c,n))], n))
DDag(X,n) == Bind1(X, LAMBDA x : [den |-> x.den, a |-> Mat2(n, LAMBDA r,c : QConj(x.a[c][r]))])
DNeg(X,n) == Bind1(X, LAMBDA x : [den |-> x.den, a |-> Mat2(n, LAMBDA r,c : QNeg(x.a[r][c]))])
DEq(X,Y,n) == Bind2(X, Y, LAMBDA x,y : \A r \in 1..n : \A c \in 1..n : QScale(y.den, x.a[r][c]) = QScale(x.den, y.a[r][c]))
DIsZero(X,n) == Bind1(X, LAMBDA x : \A r \in 1..n : \A c \in 1..n : QIsZero(x.a[r][c]))
\* U diag(w) U^dagger with w a sequence of 4-tuples over the denominator wden
DSand(U,w,wden,n) == Bind2(U, TLCEval(w), LAMBDA u,ww :
                        DRed([den |-> u.den * u.den * wden, a |-> Mat2(n, LAMBDA r,c : QSandDot(u.a,ww,r,c,n))], n))
DFlat(X,n) == Bind1(X, LAMBDA xx : [i \in 1..(n*n) |-> LET x == xx.a[((i-1) \div n) + 1][((i-1) % n) + 1]
                                                       IN SNorm(<<x[1],x[2],x[3],x[4],xx.den>>)])

\* plane rotation (0-based i<j), theta = kt pi/4, delta = kd pi/4 (the matrix RotM of module SUAlgebra), denominator 2:
\*   2 cos = z^kt + z^-kt ;  2 sin = -i (z^kt - z^-kt)
DRot(dd,i,j,kt,kd) ==
  LET c2 == QAdd(QZeta(kt), QZeta(-kt))
      s2 == QMul(QZeta(6), QSub(QZeta(kt), QZeta(-kt)))
  IN [den |-> 2, a |-> Mat2(dd, LAMBDA r,c :
        IF r = c THEN (IF r = i+1 \/ r = j+1 THEN c2 ELSE QOne(2))
        ELSE IF r = i+1 /\ c = j+1 THEN QMul(s2, QZeta(-kd))
        ELSE IF r = j+1 /\ c = i+1 THEN QNeg(QMul(s2, QZeta(kd)))
        ELSE QZ)]
\* rotation sequences: b = 1 one real plane rotation; 2 chain with phases; 3 chain + closing rotation, mixed angles;
\* 4 pi/2 rotations (a complex permutation) then one pi/4
RotSeq(b,n) ==
  CASE b = 1 -> << <<0, n-1, 1, 0>> >>
    [] b = 2 -> [q \in 1..(n-1) |-> <<q-1, q, 1, (3*q+1) % 8>>]
    [] b = 3 -> [q \in 1..n |-> IF q < n THEN <<q-1, q, (IF q % 2 = 1 THEN 1 ELSE 3), (5*q+2) % 8>>
                                ELSE <<0, n-1, 1, 3>>]
    [] OTHER -> [q \in 1..n |-> IF q < n THEN <<q-1, q, 2, q % 8>> ELSE <<0, n-1, 1, 5>>]
RECURSIVE UTo(_,_,_)
UTo(sq,n,q) == IF q = 0 THEN DId(n)
               ELSE DMul(DRot(n,sq[q][1],sq[q][2],sq[q][3],sq[q][4]), UTo(sq,n,q-1), n)
UOf(b,n) == IF b = 0 THEN DId(n) ELSE UTo(RotSeq(b,n), n, Len(RotSeq(b,n)))
=============================================================================
