\* seeded 3-thread behaviours for the replayer: tlc -simulate num=K -depth 400 -workers 1 ; one "PATH ..." line per behaviour
SPECIFICATION Spec
CONSTANTS
  N = 2
  Threads = {1,2,3}
  OpsPerThread = 2
  GetReadsAfterPush = FALSE
  Spurious = TRUE
  RecordPath = TRUE
INVARIANTS TypeOK AtMostOnce OnlyInserted FailedInsertKeeps Drain
ACTION_CONSTRAINT EmitPath
CHECK_DEADLOCK FALSE
