\* quick-tier configuration of Grid.tla (tools/props/c17.py writes the same into build/ at run time;
\* thorough: NxSet = 2..12, MaxVal = 14).  Repaired = TRUE is the specification default.
SPECIFICATION Spec
CONSTANTS
  NxSet = {2,3,4,5,6,7,8}
  MaxVal = 10
  Repaired = TRUE
  GridMode = "all"
  SeedKeep = 1
  VecNx = {2,3}
  VecMaxLen = 4
  VecMaxVal = 3
INVARIANTS TypeOK IndexSafe IndexSafeRep Terminates GridFacts VecRule ResultOK ThrowsIffOutside
ACTION_CONSTRAINT Emit
CHECK_DEADLOCK FALSE
