------------------------------- MODULE Exact -------------------------------
(***************************************************************************)
(* Exact arithmetic for the SQuIDS specifications.                         *)
(*                                                                         *)
(* A scalar is an element of the cyclotomic field Q(z), z = exp(i pi/4),   *)
(* z^4 = -1, written  <<a,b,c,d,n>>  ==  (a + b z + c z^2 + d z^3)/n, n>0. *)
(* All SU_vector operations whose inputs sit on this lattice (integer      *)
(* matrices, phases k*pi/4) have exact results in it.  TLC integers are 32 *)
(* bit; TLC itself reports an overflow as an error, so a wrong value can   *)
(* never pass silently.                                                    *)
(*                                                                         *)
(* A matrix is a function [1..d -> [1..d -> Scalar]].                      *)
(*                                                                         *)
(* The basis is the one the library documents (and SUToMatrix*.txt         *)
(* implements): for slot k = d*i + j (0-based i,j)                         *)
(*    k = 0      identity                                                  *)
(*    i < j      E_ij + E_ji                                               *)
(*    i > j      M[j][i] = -i , M[i][j] = +i                               *)
(*    i = j = l  W_l = diag(1,..,1 (l times), -l, 0, ..), n_l = l(l+1)     *)
(* and the normalised generator is lambda_k = sqrt(2/n_k) B_k with n_k = 2 *)
(* for every off-diagonal slot; Tr(lambda_a lambda_b) = 2 delta_ab  <=>    *)
(* Tr(B_a B_b) = delta_ab n_a, which is checked below as BasisOK.          *)
(***************************************************************************)
EXTENDS Integers, Sequences, TLC

S0 == <<0,0,0,0,1>>
S1 == <<1,0,0,0,1>>
SI == <<0,0,1,0,1>>                      \* i = z^2
SZ(n) == <<n,0,0,0,1>>

Abs(n) == IF n < 0 THEN -n ELSE n
RECURSIVE Gcd(_,_)
Gcd(a,b) == IF b = 0 THEN a ELSE Gcd(b, a % b)
SNorm(x) == LET g == Gcd(Gcd(Gcd(Gcd(Abs(x[1]),Abs(x[2])),Abs(x[3])),Abs(x[4])),x[5])
            IN IF g <= 1 THEN x ELSE <<x[1] \div g, x[2] \div g, x[3] \div g, x[4] \div g, x[5] \div g>>

SIsZero(x) == x[1] = 0 /\ x[2] = 0 /\ x[3] = 0 /\ x[4] = 0
SEq(x,y) == IF x[5] = y[5] THEN x[1] = y[1] /\ x[2] = y[2] /\ x[3] = y[3] /\ x[4] = y[4]
            ELSE SNorm(x) = SNorm(y)          \* the gcd-normalised form is unique (no cross products: no overflow)
SNeg(x) == <<-x[1],-x[2],-x[3],-x[4],x[5]>>
SAdd(x,y) == IF SIsZero(x) THEN y ELSE IF SIsZero(y) THEN x ELSE
             IF x[5] = y[5] THEN <<x[1]+y[1],x[2]+y[2],x[3]+y[3],x[4]+y[4],x[5]>>
             ELSE LET g == Gcd(x[5],y[5])  fx == y[5] \div g  fy == x[5] \div g IN      \* least common denominator
                  SNorm(<<x[1]*fx+y[1]*fy, x[2]*fx+y[2]*fy, x[3]*fx+y[3]*fy, x[4]*fx+y[4]*fy, x[5]*fx>>)
SSub(x,y) == SAdd(x,SNeg(y))
SMulRaw(x,y) ==
             << x[1]*y[1] - x[2]*y[4] - x[3]*y[3] - x[4]*y[2],
                x[1]*y[2] + x[2]*y[1] - x[3]*y[4] - x[4]*y[3],
                x[1]*y[3] + x[2]*y[2] + x[3]*y[1] - x[4]*y[4],
                x[1]*y[4] + x[2]*y[3] + x[3]*y[2] + x[4]*y[1],
                x[5]*y[5] >>
SMul(x,y) == IF SIsZero(x) \/ SIsZero(y) THEN S0 ELSE
             (IF x[5] = 1 /\ y[5] = 1 THEN SMulRaw(x,y) ELSE SNorm(SMulRaw(x,y)))
SConj(x) == <<x[1],-x[4],-x[3],-x[2],x[5]>>
SScale(n,x) == <<n*x[1],n*x[2],n*x[3],n*x[4],x[5]>>
SDiv(x,n) == IF n > 0 THEN <<x[1],x[2],x[3],x[4],x[5]*n>>
             ELSE <<-x[1],-x[2],-x[3],-x[4],x[5]*(-n)>>
SIsReal(x) == x[3] = 0 /\ x[2] + x[4] = 0     \* imaginary part c + (b+d)/sqrt2 vanishes
SIsRational(x) == x[2] = 0 /\ x[3] = 0 /\ x[4] = 0

\* z^k for any integer k
Zeta(k) == LET r == k % 8 IN
           CASE r = 0 -> <<1,0,0,0,1>>  [] r = 1 -> <<0,1,0,0,1>>
             [] r = 2 -> <<0,0,1,0,1>>  [] r = 3 -> <<0,0,0,1,1>>
             [] r = 4 -> <<-1,0,0,0,1>> [] r = 5 -> <<0,-1,0,0,1>>
             [] r = 6 -> <<0,0,-1,0,1>> [] r = 7 -> <<0,0,0,-1,1>>
Cos45(k) == SDiv(SAdd(Zeta(k),Zeta(-k)),2)                    \* cos(k pi/4)
Sin45(k) == SDiv(SMul(Zeta(6),SSub(Zeta(k),Zeta(-k))),2)      \* sin(k pi/4) = -i (z^k - z^-k)/2

--------------------------------------------------------------------------
\* matrices
RECURSIVE SumTo(_,_)
SumTo(f,n) == IF n = 0 THEN S0 ELSE SAdd(SumTo(f,n-1), f[n])

MZero(d) == [i \in 1..d |-> [j \in 1..d |-> S0]]
MId(d)   == [i \in 1..d |-> [j \in 1..d |-> IF i = j THEN S1 ELSE S0]]
MAdd(A,B,d) == [i \in 1..d |-> [j \in 1..d |-> SAdd(A[i][j],B[i][j])]]
MSub(A,B,d) == [i \in 1..d |-> [j \in 1..d |-> SSub(A[i][j],B[i][j])]]
MNeg(A,d)   == [i \in 1..d |-> [j \in 1..d |-> SNeg(A[i][j])]]
MScale(n,A,d) == [i \in 1..d |-> [j \in 1..d |-> SScale(n,A[i][j])]]
MSMul(s,A,d) == [i \in 1..d |-> [j \in 1..d |-> SMul(s,A[i][j])]]
MDivInt(A,n,d) == [i \in 1..d |-> [j \in 1..d |-> SDiv(A[i][j],n)]]
MMul(A,B,d) == [i \in 1..d |-> [j \in 1..d |->
                 SumTo([k \in 1..d |-> SMul(A[i][k],B[k][j])], d)]]
Dagger(A,d) == [i \in 1..d |-> [j \in 1..d |-> SConj(A[j][i])]]
Transp(A,d) == [i \in 1..d |-> [j \in 1..d |-> A[j][i]]]
MConj(A,d)  == [i \in 1..d |-> [j \in 1..d |-> SConj(A[i][j])]]
MNorm(A,d)  == [i \in 1..d |-> [j \in 1..d |-> SNorm(A[i][j])]]
MEq(A,B,d) == \A i \in 1..d : \A j \in 1..d : SEq(A[i][j],B[i][j])
MTr(A,d) == SumTo([k \in 1..d |-> A[k][k]], d)
MIsHerm(A,d) == \A i \in 1..d : \A j \in i..d : SEq(A[i][j], SConj(A[j][i]))
MIsZero(A,d) == \A i \in 1..d : \A j \in 1..d : SIsZero(A[i][j])
MDiagInt(h,d) == [i \in 1..d |-> [j \in 1..d |-> IF i = j THEN SZ(h[i]) ELSE S0]]
MUnit(d,a,b) == [i \in 1..d |-> [j \in 1..d |-> IF i = a /\ j = b THEN S1 ELSE S0]]

\* i[A,B] , {A,B} , Tr(AB)
ICom(A,B,d) == MSMul(SI, MSub(MMul(A,B,d),MMul(B,A,d),d), d)
ACom(A,B,d) == MAdd(MMul(A,B,d),MMul(B,A,d),d)
TrProd(A,B,d) == SumTo([i \in 1..d |-> SumTo([k \in 1..d |-> SMul(A[i][k],B[k][i])], d)], d)

--------------------------------------------------------------------------
\* the library's basis; slot k in 0..d*d-1
SlotI(d,k) == k \div d
SlotJ(d,k) == k % d
Basis(d,k) ==
  LET i == SlotI(d,k) + 1  j == SlotJ(d,k) + 1 IN      \* 1-based row/column
  IF k = 0 THEN MId(d)
  ELSE IF i < j THEN [r \in 1..d |-> [c \in 1..d |->
                       IF (r = i /\ c = j) \/ (r = j /\ c = i) THEN S1 ELSE S0]]
  ELSE IF i > j THEN [r \in 1..d |-> [c \in 1..d |->
                       IF r = j /\ c = i THEN SNeg(SI)
                       ELSE IF r = i /\ c = j THEN SI ELSE S0]]
  ELSE LET l == i - 1 IN [r \in 1..d |-> [c \in 1..d |->
                       IF r # c THEN S0
                       ELSE IF r <= l THEN S1
                       ELSE IF r = l + 1 THEN SZ(-l) ELSE S0]]
\* Tr(B_k B_k): 2 for off-diagonal slots, l(l+1) for diagonal slot l, d for the identity
BasisN(d,k) == LET i == SlotI(d,k)  j == SlotJ(d,k) IN
               IF k = 0 THEN d ELSE IF i # j THEN 2 ELSE i*(i+1)

BasisOK(d) == \A a \in 0..(d*d-1) :
                 /\ MIsHerm(Basis(d,a),d)
                 /\ \A b \in 0..(d*d-1) :
                      SEq(TrProd(Basis(d,a),Basis(d,b),d), IF a = b THEN SZ(BasisN(d,a)) ELSE S0)
                 /\ (a # 0 => SIsZero(MTr(Basis(d,a),d)))

\* scalar combination  sum_k u[k] B_k  (u : 0..d*d-1 -> Scalar), written entry by entry
\* (equal to the fold of MAdd over MSMul(u[k],Basis(d,k)); CombOK checks that on the basis)
DiagW(l,r) == IF r <= l THEN 1 ELSE IF r = l + 1 THEN -l ELSE 0      \* W_l[r][r], 1-based r
CombS(u,d) == [r \in 1..d |-> [c \in 1..d |->
     IF r < c THEN SSub(u[d*(r-1)+(c-1)], SMul(SI, u[d*(c-1)+(r-1)]))
     ELSE IF r > c THEN SAdd(u[d*(c-1)+(r-1)], SMul(SI, u[d*(r-1)+(c-1)]))
     ELSE SAdd(u[0], SumTo([l \in 1..(d-1) |-> SScale(DiagW(l,r), u[d*l+l])], d-1))]]
\* integer combination (u : 0..d*d-1 -> Int) -- unnormalised coordinates
Comb(u,d) == CombS([k \in 0..(d*d-1) |-> SZ(u[k])], d)
CombOK(d) == \A k \in 0..(d*d-1) : MEq(Comb([x \in 0..(d*d-1) |-> IF x = k THEN 1 ELSE 0], d), Basis(d,k), d)

\* unnormalised coordinate of a Hermitian matrix along B_k:  Tr(A B_k)/n_k  (as a scalar)
Coord(A,d,k) == SDiv(TrProd(A,Basis(d,k),d), BasisN(d,k))

\* deterministic pseudo-random small integer coordinate vectors, indexed by s
PatCoef(s,k) == ((s*7 + k*k*3 + k*(s+1) + s*s) % 5) - 2
Pattern(s,d) == Comb([k \in 0..(d*d-1) |-> PatCoef(s,k)], d)

--------------------------------------------------------------------------
\* JSON-friendly flattening: row-major sequence of 5-tuples
Flat(A,d) == [n \in 1..(d*d) |-> SNorm(A[((n-1) \div d) + 1][((n-1) % d) + 1])]
=============================================================================
