----------------------------- MODULE SolverFlow -----------------------------
(***************************************************************************)
(* Exact flow of the kinetic equation that SQuIDS::Evolve documents,       *)
(*    d(rho)/dt = -i[HI,rho] - {GammaRho,rho} + InteractionsRho            *)
(*    d(s)/dt   = -GammaScalar*s + InteractionsScalar                      *)
(* on an exactly solvable family (C04, value part of C10):                 *)
(*   HI = (pi/2) diag(h), GammaRho = ln2 diag(g), InteractionsRho =        *)
(*   4 ln2 diag(s), GammaScalar = ln2 gs, InteractionsScalar = ln2 ss      *)
(* with integer tables h,g,s,gs,ss depending on (node, matrix/scalar index,*)
(* level) so that any index, offset or time mix-up changes the answer.     *)
(* Over n unit ticks, with switch set sw:                                  *)
(*   rho_jk <- rho_jk (-i)^{(h_j-h_k) n [sw1]} 2^{-(g_j+g_k) n [sw2]}  (j#k)*)
(*   rho_jj <- rho_jj 4^{-g_j n [sw2]} + source                            *)
(*   s      <- s 2^{-gs n [sw4]} + source                                  *)
(* Every quantity is A + B ln2 with A, B exact (module Exact); the harness *)
(* supplies only the floating-point constants pi/2 and ln 2.               *)
(* Time-dependent variant (td = 1, only without source terms, clock       *)
(* starting at 0): HI(t) = (pi/2)(1+2t) diag(h), GammaRho(t) = ln2 (2t)    *)
(* diag(g), GammaScalar(t) = ln2 (2t) gs, whose integrals over [T0,T1] are *)
(* (T1+T1^2)-(T0+T0^2) resp. T1^2-T0^2 units: exact again, and wrong if a  *)
(* term function is ever called with the wrong time.                       *)
(* A history is a sequence of segments (switch set, ticks); switching      *)
(* terms between segments, zero-length segments and moving the object do   *)
(* not enter the flow except through the switch set of each segment.       *)
(***************************************************************************)
EXTENDS Exact, Json

CONSTANTS NCfg, MaxSeg, Ticks, FirstSw, LaterSw,
          TDep        \* set of modes explored: 0 = constant terms, 1 = time-dependent terms (see below)

VARIABLES c, hist, rho, sc
vars == <<c, hist, rho, sc>>

\* configurations [nx, nsun, nrhos, nsc]
CfgTab == << <<1,2,1,0>>, <<2,3,1,1>>, <<3,2,2,2>>, <<2,4,2,0>>, <<1,5,1,2>>, <<2,6,1,1>>, <<3,3,2,1>>, <<1,4,2,2>> >>
Nx(k) == CfgTab[k][1]
Nsun(k) == CfgTab[k][2]
Nrho(k) == CfgTab[k][3]
Nsc(k) == CfgTab[k][4]
\* integer tables (0-based node ei, index i, level j)
TabH(ei,i,j) == (j*(ei+1) + i) % 4
TabG(ei,i,j) == 1 + ((j + ei + i) % 2)
TabS(ei,i,j) == ((j+1)*(ei+2) + i) % 3
TabGs(ei,is) == 1 + ((ei + is) % 2)
TabSs(ei,is) == (ei + 2*is + 1) % 3

RECURSIVE Pow2(_)
Pow2(m) == IF m = 0 THEN 1 ELSE 2 * Pow2(m-1)
Half(m) == <<1,0,0,0,Pow2(m)>>                 \* 2^-m
Bit(sw,k) == (sw \div Pow2(k-1)) % 2 = 1       \* switch k of the set encoded as a number 0..31

\* a quantity is a pair <<A,B>> meaning A + B ln2
QMul(f, q) == <<SMul(f,q[1]), SMul(f,q[2])>>
QAddA(q, a) == <<SAdd(q[1],a), q[2]>>
QAddB(q, b) == <<q[1], SAdd(q[2],b)>>

InitRho(k) == [ei \in 0..(Nx(k)-1) |-> [i \in 0..(Nrho(k)-1) |->
                 LET M == Pattern(1 + ei + 2*i, Nsun(k)) IN
                 [r \in 1..Nsun(k) |-> [q \in 1..Nsun(k) |-> <<M[r][q], S0>>]]]]
InitSc(k) == [ei \in 0..(Nx(k)-1) |-> [is \in 0..(Nsc(k)-1) |-> <<SZ(1 + ei + is), S0>>]]

\* effective numbers of units for the coherent and the damping terms over [T0, T0+n]
NH(td,T0,n) == IF td = 1 THEN ((T0+n) + (T0+n)*(T0+n)) - (T0 + T0*T0) ELSE n
NG(td,T0,n) == IF td = 1 THEN (T0+n)*(T0+n) - T0*T0 ELSE n
FlowRhoT(k, R, sw, n, td, T0) ==
  [ei \in 0..(Nx(k)-1) |-> [i \in 0..(Nrho(k)-1) |->
    [r \in 1..Nsun(k) |-> [q \in 1..Nsun(k) |->
      LET x == R[ei][i][r][q]
          hj == TabH(ei,i,r-1)  hk == TabH(ei,i,q-1)
          gj == TabG(ei,i,r-1)  gk == TabG(ei,i,q-1)
      IN IF r # q
         THEN QMul(SMul(IF Bit(sw,1) THEN Zeta(6*(hj-hk)*NH(td,T0,n)) ELSE S1, IF Bit(sw,2) THEN Half((gj+gk)*NG(td,T0,n)) ELSE S1), x)
         ELSE QMul(IF Bit(sw,2) THEN Half(2*gj*NG(td,T0,n)) ELSE S1, x)]]]]
FlowScT(k, X, sw, n, td, T0) ==
  [ei \in 0..(Nx(k)-1) |-> [is \in 0..(Nsc(k)-1) |->
     QMul(IF Bit(sw,4) THEN Half(TabGs(ei,is)*NG(td,T0,n)) ELSE S1, X[ei][is])]]
FlowRho(k, R, sw, n) ==
  [ei \in 0..(Nx(k)-1) |-> [i \in 0..(Nrho(k)-1) |->
    [r \in 1..Nsun(k) |-> [q \in 1..Nsun(k) |->
      LET x == R[ei][i][r][q]
          hj == TabH(ei,i,r-1)  hk == TabH(ei,i,q-1)
          gj == TabG(ei,i,r-1)  gk == TabG(ei,i,q-1)
      IN IF r # q
         THEN QMul(SMul(IF Bit(sw,1) THEN Zeta(6*(hj-hk)*n) ELSE S1, IF Bit(sw,2) THEN Half((gj+gk)*n) ELSE S1), x)
         ELSE LET dec == IF Bit(sw,2) THEN Half(2*gj*n) ELSE S1
                  y == QMul(dec, x)
                  sj == TabS(ei,i,r-1)
              IN IF ~Bit(sw,3) THEN y
                 ELSE IF Bit(sw,2) THEN QAddA(y, SMul(SDiv(SZ(2*sj),gj), SSub(S1,dec)))
                 ELSE QAddB(y, SZ(4*sj*n))]]]]
FlowSc(k, X, sw, n) ==
  [ei \in 0..(Nx(k)-1) |-> [is \in 0..(Nsc(k)-1) |->
     LET x == X[ei][is]
         gs == TabGs(ei,is)  ss == TabSs(ei,is)
         dec == IF Bit(sw,4) THEN Half(gs*n) ELSE S1
         y == QMul(dec, x)
     IN IF ~Bit(sw,5) THEN y
        ELSE IF Bit(sw,4) THEN QAddA(y, SMul(SDiv(SZ(ss),gs), SSub(S1,dec)))
        ELSE QAddB(y, SZ(ss*n))]]

Init == c \in 1..NCfg /\ hist = <<>> /\ rho = InitRho(c) /\ sc = InitSc(c)
RECURSIVE Elapsed(_,_)
Elapsed(h, i) == IF i = 0 THEN 0 ELSE Elapsed(h, i-1) + h[i][2]
NoSource(sw) == ~Bit(sw,3) /\ ~Bit(sw,5)
Seg(sw, n, td) == /\ Len(hist) < MaxSeg
                  /\ (td = 1 => NoSource(sw) /\ \A i \in 1..Len(hist) : hist[i][3] = 1)   \* a time-dependent history is so throughout
                  /\ (td = 1 => Elapsed(hist, Len(hist)) + n <= 2)                          \* keeps 2^(g T^2) within 32 bits
                  /\ (td = 0 => \A i \in 1..Len(hist) : hist[i][3] = 0)
                  /\ hist' = Append(hist, <<sw, n, td>>)
                  /\ LET T0 == Elapsed(hist, Len(hist)) IN
                     IF td = 1 THEN rho' = FlowRhoT(c, rho, sw, n, 1, T0) /\ sc' = FlowScT(c, sc, sw, n, 1, T0)
                     ELSE rho' = FlowRho(c, rho, sw, n) /\ sc' = FlowSc(c, sc, sw, n)
                  /\ c' = c
Next == \E sw \in (IF hist = <<>> THEN FirstSw ELSE LaterSw), n \in Ticks, td \in TDep : Seg(sw, n, td)
Spec == Init /\ [][Next]_vars

\* laws of the flow itself ----------------------------------------------------------------
QEq(x,y) == SEq(x[1],y[1]) /\ SEq(x[2],y[2])
RhoEq(k,R1,R2) == \A ei \in 0..(Nx(k)-1) : \A i \in 0..(Nrho(k)-1) : \A r \in 1..Nsun(k) : \A q \in 1..Nsun(k) : QEq(R1[ei][i][r][q], R2[ei][i][r][q])
ScEq(k,X1,X2) == \A ei \in 0..(Nx(k)-1) : \A is \in 0..(Nsc(k)-1) : QEq(X1[ei][is], X2[ei][is])
\* semigroup: two segments with the same switch set equal one segment over the total interval; zero ticks is the identity
Semigroup ==
  (Len(hist) = 2 /\ hist[1][1] = hist[2][1] /\ hist[1][3] = 0) =>
     /\ RhoEq(c, rho, FlowRho(c, InitRho(c), hist[1][1], hist[1][2] + hist[2][2]))
     /\ ScEq(c, sc, FlowSc(c, InitSc(c), hist[1][1], hist[1][2] + hist[2][2]))
\* the time-dependent flow composes over adjacent intervals as well
SemigroupT ==
  (Len(hist) = 2 /\ hist[1][1] = hist[2][1] /\ hist[1][3] = 1) =>
     /\ RhoEq(c, rho, FlowRhoT(c, InitRho(c), hist[1][1], hist[1][2] + hist[2][2], 1, 0))
     /\ ScEq(c, sc, FlowScT(c, InitSc(c), hist[1][1], hist[1][2] + hist[2][2], 1, 0))
ZeroIsIdentity ==
  (Len(hist) >= 1 /\ hist[Len(hist)][2] = 0 /\ hist[1][3] = 0) =>
     /\ RhoEq(c, rho, IF Len(hist) = 1 THEN InitRho(c) ELSE FlowRho(c, InitRho(c), hist[1][1], hist[1][2]))
     /\ ScEq(c, sc, IF Len(hist) = 1 THEN InitSc(c) ELSE FlowSc(c, InitSc(c), hist[1][1], hist[1][2]))
\* the evolved matrices stay Hermitian with real diagonal; all terms off changes nothing
Hermitian == \A ei \in 0..(Nx(c)-1) : \A i \in 0..(Nrho(c)-1) : \A r \in 1..Nsun(c) : \A q \in 1..Nsun(c) :
                SEq(rho[ei][i][r][q][1], SConj(rho[ei][i][q][r][1])) /\ SEq(rho[ei][i][r][q][2], SConj(rho[ei][i][q][r][2]))
AllOffFrame == (Len(hist) = 1 /\ hist[1][1] = 0) => RhoEq(c, rho, InitRho(c)) /\ ScEq(c, sc, InitSc(c))

\* export: expected state after every segment -------------------------------------------------
FlatQ(k, M, part) == [n \in 1..(Nsun(k)*Nsun(k)) |-> SNorm(M[((n-1) \div Nsun(k)) + 1][((n-1) % Nsun(k)) + 1][part])]
Emit == PrintT(<<"EDGE", ToJson([cfg |-> CfgTab[c], hist |-> hist',
          rhoA |-> [ei \in 1..Nx(c) |-> [i \in 1..Nrho(c) |-> FlatQ(c, rho'[ei-1][i-1], 1)]],
          rhoB |-> [ei \in 1..Nx(c) |-> [i \in 1..Nrho(c) |-> FlatQ(c, rho'[ei-1][i-1], 2)]],
          scA |-> [ei \in 1..Nx(c) |-> [is \in 1..Nsc(c) |-> SNorm(sc'[ei-1][is-1][1])]],
          scB |-> [ei \in 1..Nx(c) |-> [is \in 1..Nsc(c) |-> SNorm(sc'[ei-1][is-1][2])]]])>>)
=============================================================================
