\* get() as originally written at Cache.h:143-149 (payload read after the record was pushed onto the free list):
\* TLC finds a behaviour in which one value is returned by two get() calls (AtMostOnce), 36 states.
\* With INVARIANTS OnlyInserted / Drain instead: a value is returned whose insert has not completed (24 states) /
\* the pool content at quiescence is not ins \ fetched (28 states).
SPECIFICATION Spec
CONSTANTS
  N = 2
  Threads = {1,2}
  OpsPerThread = 2
  GetReadsAfterPush = TRUE
  Spurious = TRUE
  RecordPath = FALSE
VIEW View
INVARIANTS AtMostOnce
CHECK_DEADLOCK FALSE
