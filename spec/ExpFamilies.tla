---------------------------- MODULE ExpFamilies ----------------------------
(***************************************************************************)
(* C07: the matrix exponential (squids::math_detail::matrix_exponential,   *)
(* used by SU_vector::UTransform(V, scale)) as a state machine.            *)
(*                                                                         *)
(* The only thing an exponentiation may depend on is its argument.  The    *)
(* implementation, however, keeps thread-local scratch matrices sized by   *)
(* the last dimension that reached each stage of the algorithm (identity,  *)
(* U, V, A2 and the norm-estimator scratch from the first stage on; A4     *)
(* from the degree-5 attempt on; A6 from the degree-7 attempt on; B and    *)
(* the degree-13 temporaries in the last stage).  The specification        *)
(* carries that as state:                                                  *)
(*    hist     the calls made so far on the thread (a history variable:    *)
(*             sequence of <<case id, n>>)                                 *)
(*    scratch  the dimensions of the four holder groups (0 = never         *)
(*             allocated); the VIEW identifies states by (scratch, cur),   *)
(*             so TLC enumerates every (scratch state, case) transition    *)
(*             and hist is the witness call sequence that reaches it       *)
(*    cur/res  the last call and its result                                *)
(*                                                                         *)
(* Exp(c) is defined ONLY on families whose exponential is exact:          *)
(*   1 diag     diag(x_r),  x_r = m_r ln2 + i k_r pi/4      exp = 2^m z^k  *)
(*   2 normal   U diag(x_r) U^dagger, U a product of pi/4-lattice plane    *)
(*              rotations (dense, anti-Hermitian iff all m_r = 0)          *)
(*   3 nilpot   N = S N0 S^-1, N0 strictly upper triangular integer, S     *)
(*              unimodular (dense non-normal)   exp = sum_p N^p/p!         *)
(*   4 shifted  x I + N                         exp = 2^m z^k exp(N)       *)
(* A case is  A = 2^sa (ln2 AL + pi/4 AP) + 2^sn AN  with AL AP AN exact,  *)
(* [AL+AP, AN] = 0, and                                                    *)
(*   exp(A) = U diag(exp(2^sa x_r)) U^dagger  *  sum_p 2^(sn p) AN^p/p!    *)
(* which is an identity for every sa, sn because U is unitary (LawUnitaryU)*)
(* and AN^n = 0 (LawNilpotent).  For sa = sn = 0 the value is exact in     *)
(* Q(z)[1/2] and TLC checks exp(A) exp(-A) = I, exp(A)^2 = exp(2A),        *)
(* unitarity of exp(A) for anti-Hermitian A, and that the result is a      *)
(* function of the case alone (LawHistoryFree).  The dyadic scales move    *)
(* the same matrices through every norm band of the algorithm (the harness *)
(* supplies ln2, pi/4 and, off the lattice, the scalar exponentials).      *)
(***************************************************************************)
EXTENDS ExpFamiliesFast, Json, FiniteSets

CONSTANTS Dims,        \* subset of 2..6
          MaxLen,      \* maximum number of calls on one thread
          WithValues,  \* TRUE: compute/export/check exact matrices (catalogue); FALSE: call sequences only
          Tier,        \* 0 quick, 1 thorough (size of the parameter ranges)
          CaseSel,     \* {} = every case of the catalogue; otherwise the set of case ids to use
          Band3, Band5, Band7, Band9, Band13   \* case ids by deepest stage reached (as reported by the hook)

VARIABLES scratch, hist, cur, res, grp
vars == <<scratch, hist, cur, res, grp>>
View == <<scratch, cur, grp>>

--------------------------------------------------------------------------
\* case ids
Enc(f,n,a,b,c) == (((f*8 + n)*64 + a)*64 + b)*64 + c
DecF(id) == id \div (8*64*64*64)
DecN(id) == (id \div (64*64*64)) % 8
DecA(id) == (id \div (64*64)) % 64
DecB(id) == (id \div 64) % 64
DecC(id) == id % 64

\* scale table: <<multiplier of the k pattern, dyadic exponent sa>>
ScaleTab == << <<1,0>>, <<2,0>>, <<3,0>>, <<5,0>>, <<8,0>>, <<40,0>>, <<100,0>>, <<1000,0>>,
               <<1,-1>>, <<1,-2>>, <<1,-3>>, <<1,-5>>, <<1,-6>>, <<1,-9>>, <<3,-1>>, <<7,-2>>, <<333,0>>, <<17,0>> >>
NScaleQ == 14     \* quick uses the first 14
\* nilpotent scale table: dyadic exponent sn
NilScaleTab == << 0, -1, -2, -3, -5, -7, -10, 1, 2, 3, 4 >>


\* spectra: m pattern (real parts, multiples of ln 2) and k pattern (imaginary parts, multiples of pi/4)
MPat(a,n) == [r \in 1..n |->
               CASE a % 3 = 0 -> 0                                   \* anti-Hermitian
                 [] a % 3 = 1 -> (PR(a,r,4) - 2)                     \* -2..1
                 [] OTHER     -> (IF r = 1 THEN 1 ELSE 0)]
KPat(a,n) == [r \in 1..n |->
               CASE a \div 3 = 0 -> (IF r % 2 = 1 THEN 1 ELSE -1)     \* involution-like  +-1
                 [] a \div 3 = 1 -> (PR(a+1,r,3) - 1)                 \* -1..1 with repeats
                 [] a \div 3 = 2 -> (r - 1)                           \* distinct 0..n-1
                 [] OTHER        -> (IF r = n THEN 1 ELSE 0)]         \* rank one
NSpecPat == IF Tier = 0 THEN 6 ELSE 12

NRotPat == IF Tier = 0 THEN 3 ELSE 4

\* nilpotent part: a = 8*np + sp ; N0 pattern np, conjugation pattern sp
N0Pat(np,n) == Mat2(n, LAMBDA r,c :
      IF c <= r THEN 0 ELSE
      CASE np = 0 -> (IF r = 1 /\ c = n THEN 1 ELSE 0)                \* N^2 = 0
        [] np = 1 -> (IF c = r + 1 THEN 1 ELSE 0)                     \* Jordan block
        [] np = 2 -> (PR(r,c,5) - 1)                                  \* full, -1..3
        [] np = 3 -> (IF c = r + 1 THEN r ELSE IF c = r + 2 THEN -1 ELSE 0)
        [] OTHER  -> (IF (r + c) % 3 = 0 THEN 2 ELSE 0))
\* strictly lower integer matrix for the unit lower triangular shear L = I + Ml
MlPat(sp,n) == Mat2(n, LAMBDA r,c :
      IF c >= r THEN 0 ELSE
      CASE sp = 1 -> (IF r = c + 1 THEN 1 ELSE 0)
        [] sp = 2 -> (PR(r+1,c,3) - 1)
        [] OTHER  -> 0)
RECURSIVE IDot(_,_,_,_,_)
IDot(X,Y,r,c,k) == IF k = 0 THEN 0 ELSE IDot(X,Y,r,c,k-1) + X[r][k]*Y[k][c]
IMul(X,Y,n) == Bind2(X, Y, LAMBDA x,y : Mat2(n, LAMBDA r,c : IDot(x,y,r,c,n)))
IId(n) == Mat2(n, LAMBDA r,c : IF r = c THEN 1 ELSE 0)
IAdd(X,Y,n) == Bind2(X, Y, LAMBDA x,y : Mat2(n, LAMBDA r,c : x[r][c] + y[r][c]))
INeg(X,n) == Bind1(X, LAMBDA x : Mat2(n, LAMBDA r,c : -x[r][c]))
IZero(X,n) == Bind1(X, LAMBDA x : \A r \in 1..n : \A c \in 1..n : x[r][c] = 0)
\* <<N^0, N^1, ..., N^p>>
RECURSIVE IPows(_,_,_)
IPows(X,p,n) == IF p = 0 THEN <<IId(n)>>
                ELSE Bind2(IPows(X,p-1,n), X, LAMBDA prev,x : Append(prev, IMul(prev[Len(prev)], x, n)))
IPow(X,p,n) == Bind1(IPows(X,p,n), LAMBDA ps : ps[p+1])
\* (I + M)^-1 = sum_{q<=p} M'^q with M' = -M, for nilpotent M
GeoSum(M,p,n) == Bind1(IPows(M,p,n), LAMBDA ps :
                   LET RECURSIVE Acc(_)
                       Acc(q) == IF q = 0 THEN ps[1] ELSE IAdd(Acc(q-1), ps[q+1], n)
                   IN Acc(p))
Rev(X,n) == Bind1(X, LAMBDA x : Mat2(n, LAMBDA r,c : x[n+1-r][n+1-c]))      \* conjugation by the reversal permutation
NilOf(a,n) ==
  LET np == a \div 8  sp == a % 8
      N0 == N0Pat(np,n)
  IN IF sp = 0 THEN N0
     ELSE IF sp = 3 THEN Rev(N0,n)
     ELSE LET Ml == MlPat(sp,n)
              L == IAdd(IId(n), Ml, n)
              Li == GeoSum(INeg(Ml,n), n-1, n)
          IN IMul(L, IMul(N0, Li, n), n)
NNilPat == IF Tier = 0 THEN {0, 8, 9, 16, 18, 27} ELSE {0, 3, 8, 9, 10, 11, 16, 17, 18, 24, 26, 27, 32, 33}
Fact5 == 120
FactOf == <<1,1,2,6,24,120>>          \* FactOf[p+1] = p!

\* shifts x = m ln2 + i k pi/4 for family 4
ShiftTab == << <<0,1>>, <<1,0>>, <<-1,3>>, <<2,-2>>, <<0,8>>, <<-2,5>> >>

--------------------------------------------------------------------------
\* the catalogue
ScaleIdx == IF Tier = 0 THEN 1..NScaleQ ELSE 1..Len(ScaleTab)
NilScaleIdx == IF Tier = 0 THEN {1,2,3,5,6,8,9,10} ELSE 1..Len(NilScaleTab)
AllCases ==
     { Enc(1,n,a,0,c) : n \in Dims, a \in 0..(NSpecPat-1), c \in {1,4,8,10} }
  \cup { Enc(2,n,a,b,c) : n \in Dims, a \in 0..(NSpecPat-1), b \in 1..NRotPat, c \in ScaleIdx }
  \cup { Enc(3,n,a,0,c) : n \in Dims, a \in NNilPat, c \in NilScaleIdx }
  \cup { Enc(4,n,a,b,c) : n \in Dims, a \in (NNilPat \cap (IF Tier = 0 THEN {9,18} ELSE {8,9,18,27})),
                          b \in 1..(IF Tier = 0 THEN 4 ELSE Len(ShiftTab)), c \in {1,2,4,8} }
Cases == IF CaseSel = {} THEN AllCases ELSE CaseSel

\* the pieces of a case
CN(id) == DecN(id)
CSa(id) == IF DecF(id) \in {1,2} THEN ScaleTab[DecC(id)][2] ELSE 0
CSn(id) == IF DecF(id) \in {3,4} THEN NilScaleTab[DecC(id)] ELSE 0
CM(id) == LET n == DecN(id) IN
          IF DecF(id) \in {1,2} THEN MPat(DecA(id),n)
          ELSE IF DecF(id) = 4 THEN [r \in 1..n |-> ShiftTab[DecB(id)][1]] ELSE [r \in 1..n |-> 0]
CK(id) == LET n == DecN(id) IN
          IF DecF(id) \in {1,2} THEN [r \in 1..n |-> KPat(DecA(id),n)[r] * ScaleTab[DecC(id)][1]]
          ELSE IF DecF(id) = 4 THEN [r \in 1..n |-> ShiftTab[DecB(id)][2]] ELSE [r \in 1..n |-> 0]
CU(id) == IF DecF(id) = 2 THEN UOf(DecB(id), DecN(id)) ELSE DId(DecN(id))
CNil(id) == IF DecF(id) \in {3,4} THEN NilOf(DecA(id), DecN(id)) ELSE Mat2(DecN(id), LAMBDA r,c : 0)

CALu(U,id) == DSand(U, [q \in 1..CN(id) |-> QOne(CM(id)[q])], 1, CN(id))                    \* coefficient of ln 2
CAPu(U,id) == DSand(U, [q \in 1..CN(id) |-> <<0,0,CK(id)[q],0>>], 1, CN(id))                \* coefficient of pi/4 (i k)
\* NP[p+1] = N^p * 120/p!   (integer matrices), p = 0..n-1, from the explicit nilpotent matrix N
NPOf(N,n) == Bind1(IPows(N,n-1,n), LAMBDA ps :
               TLCEval([p \in 1..n |-> Mat2(n, LAMBDA r,c : ps[p][r][c] * (Fact5 \div FactOf[p]))]))
CNP(id) == NPOf(CNil(id), CN(id))
\* exact exponential of  sg*mu*A  (sg = 1 or -1, mu = 1 or 2), lattice cases only:
\*   U diag(2^(sg mu m) z^(sg mu k)) U^dagger  *  sum_p (sg mu)^p N^p / p!
MBound == 4      \* |mu m| <= MBound : weights are written over the denominator 2^MBound
RECURSIVE PolySum(_,_,_,_,_,_)
PolySum(NP,r,c,sg,mu,p) == IF p = 0 THEN 0
                           ELSE PolySum(NP,r,c,sg,mu,p-1) + (IF (p-1) % 2 = 1 /\ sg = -1 THEN -1 ELSE 1) * (mu^(p-1)) * NP[p][r][c]
ExpExactU(U,NP,id,sg,mu) ==
  LET n == CN(id)
      W == DSand(U, [q \in 1..n |-> QScale(2^(MBound + sg*mu*CM(id)[q]), QZeta(sg*mu*CK(id)[q]))], 2^MBound, n)
  IN IF DecF(id) \in {1,2} THEN W
     ELSE DMul(W, [den |-> Fact5, a |-> Mat2(n, LAMBDA r,c : QOne(PolySum(NP,r,c,sg,mu,n)))], n)
\* the property's quantifier: 1-norm up to ~1e3 for normal matrices with bounded real spectrum, up to ~50 for the
\* non-normal (nilpotent, shifted nilpotent) families:  2^sn * |N|_1 <= NilNormMax
NilNormMax == 64
RECURSIVE ColAbsSum(_,_,_)
ColAbsSum(N,c,r) == IF r = 0 THEN 0 ELSE ColAbsSum(N,c,r-1) + Abs(N[r][c])
OneNormI(N,n) == LET RECURSIVE Mx(_)
                     Mx(c) == IF c = 0 THEN 0 ELSE LET a == Mx(c-1)  b == ColAbsSum(N,c,n) IN IF a > b THEN a ELSE b
                 IN Mx(n)
InDomain(id) == IF DecF(id) \in {1,2} \/ CSn(id) <= 0 THEN TRUE      \* (IF, not \/ : TLC splits a disjunction in an action)
                ELSE Bind1(CNil(id), LAMBDA N : OneNormI(N,CN(id)) * 2^CSn(id) <= NilNormMax)
OnLattice(id) == CSa(id) = 0 /\ CSn(id) = 0
AntiHerm(id) == DecF(id) \in {1,2} /\ \A r \in 1..CN(id) : CM(id)[r] = 0
IsDiagCase(id) == DecF(id) = 1 \/ (DecF(id) \in {3,4} /\ IZero(CNil(id), CN(id)))

--------------------------------------------------------------------------
\* scratch holders: g1 (id,U,V,A2, estimator scratch), g5 (A4), g7 (A6), g13 (B, degree-13 temporaries)
Fresh == [g1 |-> 0, g5 |-> 0, g7 |-> 0, g13 |-> 0]
Depth(id) == IF id \in Band13 THEN 13 ELSE IF id \in Band9 THEN 9 ELSE IF id \in Band7 THEN 7
             ELSE IF id \in Band5 THEN 5 ELSE IF id \in Band3 THEN 3 ELSE 0      \* 0: diagonal shortcut, nothing touched
Upd(s,n,dp) == [g1  |-> IF dp >= 3 THEN n ELSE s.g1,  g5  |-> IF dp >= 5 THEN n ELSE s.g5,
                g7  |-> IF dp >= 7 THEN n ELSE s.g7,  g13 |-> IF dp >= 13 THEN n ELSE s.g13]

\* everything TLC computes about a case, computed once per call and kept in the state (catalogue configuration)
\* the Hermitian operand transformed by UTransform: an integer pattern of module Exact (dense, complex)
BOp(n) == [den |-> 1, a |-> Mat2(n, LAMBDA r,c : LET x == Pattern(3,n)[r][c] IN <<x[1],x[2],x[3],x[4]>>)]
Vals(id) ==
  IF ~WithValues THEN <<>>
  ELSE Bind2(CU(id), CNil(id), LAMBDA U,N :
         Bind1(NPOf(N,CN(id)), LAMBDA NP :
           Bind1(IF OnLattice(id) THEN ExpExactU(U,NP,id,1,1) ELSE <<>>, LAMBDA E :
             [U  |-> U, N |-> N, NP |-> NP, AL |-> CALu(U,id), AP |-> CAPu(U,id), E |-> E, B |-> BOp(CN(id)),
              \* B.UTransform(V, i s) = exp(-isV) B exp(isV) with i s V = A :  E^dagger B E
              UT |-> IF OnLattice(id) /\ AntiHerm(id) THEN DMul(DDag(E,CN(id)), DMul(BOp(CN(id)), E, CN(id)), CN(id)) ELSE <<>>])))

\* root states: one per group of cases so that TLC's workers share the catalogue (successors of ONE state are
\* computed by one worker); the call-sequence configuration has the single group 0 = all cases
Groups == IF WithValues THEN { id \div 4096 : id \in Cases } ELSE {0}
InGroup(id,g) == g = 0 \/ id \div 4096 = g

Init == scratch = Fresh /\ hist = <<>> /\ cur = 0 /\ res = <<>> /\ grp \in Groups

Exp(id) == /\ Len(hist) < MaxLen
           /\ InGroup(id, grp)
           /\ InDomain(id)
           /\ hist' = Append(hist, <<id, CN(id)>>)
           /\ scratch' = Upd(scratch, CN(id), Depth(id))
           /\ cur' = id
           /\ res' = Vals(id)
           /\ UNCHANGED grp

Next == \E id \in Cases : Exp(id)
Spec == Init /\ [][Next]_vars

--------------------------------------------------------------------------
\* export
EmitCase == PrintT(<<"EDGE", ToJson(
     [id |-> cur', f |-> DecF(cur'), n |-> CN(cur'), sa |-> CSa(cur'), sn |-> CSn(cur'),
      m |-> CM(cur'), k |-> CK(cur'), anti |-> AntiHerm(cur'), lat |-> OnLattice(cur'),
      U |-> DFlat(res'.U,CN(cur')), AL |-> DFlat(res'.AL,CN(cur')), AP |-> DFlat(res'.AP,CN(cur')),
      AN |-> res'.N, NP |-> res'.NP,
      E |-> IF OnLattice(cur') THEN DFlat(res'.E,CN(cur')) ELSE <<>>,
      B |-> DFlat(res'.B,CN(cur')),
      UT |-> IF OnLattice(cur') /\ AntiHerm(cur') THEN DFlat(res'.UT,CN(cur')) ELSE <<>>])>>)
EmitSeq == PrintT(<<"EDGE", ToJson([seq |-> [q \in 1..Len(hist') |-> hist'[q][1]], sc |-> scratch])>>)
Emit == IF WithValues THEN EmitCase ELSE EmitSeq

--------------------------------------------------------------------------
\* laws (catalogue configuration)
TypeOK == /\ Len(hist) <= MaxLen
          /\ \A g \in {"g1","g5","g7","g13"} : scratch[g] \in {0} \cup Dims
\* the result is a function of the case only: whatever the scratch state and the history, the value is Vals(cur).
\* (checked with values in the catalogue configuration; in the call-sequence configuration res is the empty token and the
\* statement is carried to the implementation by the replay: same case, different histories, same expected matrix)
LawHistoryFree == cur # 0 => (WithValues => res.E = (IF OnLattice(cur) THEN ExpExactU(res.U,res.NP,cur,1,1) ELSE <<>>))
LawUnitaryU == (cur # 0 /\ WithValues) =>
                  LET n == CN(cur)  U == res.U IN
                  DEq(DMul(U, DDag(U,n), n), DId(n), n) /\ DEq(DMul(DDag(U,n), U, n), DId(n), n)
LawNilpotent == (cur # 0 /\ WithValues) =>
                  LET n == CN(cur)  N == res.N IN
                  /\ IZero(IPow(N,n,n), n)
                  \* the nilpotent part commutes with the spectral part (family 4: a multiple of I)
                  /\ (DecF(cur) = 4 => \A r \in 1..n : \A c \in 1..n :
                        (r # c => QIsZero(res.AL.a[r][c]) /\ QIsZero(res.AP.a[r][c]))
                        /\ res.AL.a[r][r] = res.AL.a[1][1] /\ res.AP.a[r][r] = res.AP.a[1][1])
LawInverse == (cur # 0 /\ WithValues /\ OnLattice(cur)) =>
                  LET n == CN(cur) IN
                  /\ DEq(DMul(res.E, ExpExactU(res.U,res.NP,cur,-1,1), n), DId(n), n)
                  /\ DEq(DMul(res.E, res.E, n), ExpExactU(res.U,res.NP,cur,1,2), n)
LawAntiHerm == (cur # 0 /\ WithValues /\ AntiHerm(cur)) =>
                  LET n == CN(cur) IN
                  /\ DIsZero(res.AL, n)
                  /\ DEq(DDag(res.AP,n), DNeg(res.AP,n), n)
                  /\ (OnLattice(cur) => DEq(DMul(res.E, DDag(res.E,n), n), DId(n), n))
\* UTransform: the result is Hermitian with the same trace and Tr(X^2), and s -> -s undoes it
DTr(X,n) == LET RECURSIVE T(_)
                T(q) == IF q = 0 THEN QZ ELSE QAdd(T(q-1), X.a[q][q])
            IN T(n)
LawUTransform == (cur # 0 /\ WithValues /\ OnLattice(cur) /\ AntiHerm(cur)) =>
                  LET n == CN(cur)  X == res.UT  B == res.B IN
                  /\ DEq(DDag(X,n), X, n)
                  /\ QScale(B.den, DTr(X,n)) = QScale(X.den, DTr(B,n))
                  /\ DEq(DMul(res.E, DMul(X, DDag(res.E,n), n), n), B, n)
                  /\ LET X2 == DMul(X,X,n)  B2 == DMul(B,B,n) IN QScale(B2.den, DTr(X2,n)) = QScale(X2.den, DTr(B2,n))
\* the spectral part really has the stated eigen-decomposition:  AL U = U diag(m),  AP U = U diag(i k)
LawSpectral == (cur # 0 /\ WithValues) =>
                  LET n == CN(cur)  U == res.U IN
                  /\ DEq(DMul(res.AL, U, n), [den |-> U.den, a |-> Mat2(n, LAMBDA r,c : QScale(CM(cur)[c], U.a[r][c]))], n)
                  /\ DEq(DMul(res.AP, U, n), [den |-> U.den, a |-> Mat2(n, LAMBDA r,c : QMul(<<0,0,CK(cur)[c],0>>, U.a[r][c]))], n)
=============================================================================
