\* quick-tier configuration of Observables.tla for d = 2,3 (tools/props/c05.py writes its configurations into build/)
SPECIFICATION Spec
CONSTANTS
  Dims = {2,3}
  NxSet = {2,3,4,5,6}
  Kinds = {"lin","log","user"}
  NVar = 2
  StepCode = {101,102,97}
  MaxHist = 2
  FullAt = 1
INVARIANTS TypeOK LawSetup LawRange LawConvex LawBracketFree LawNodeAgree LawReal LawPicture LawAvg LawLinear
ACTION_CONSTRAINT Emit
CHECK_DEADLOCK FALSE
