------------------------------ MODULE SolverCfg ------------------------------
(***************************************************************************)
(* The configuration a SQuIDS object carries - step-size controls, error   *)
(* tolerances, number of fixed steps, adaptive flag, stepper, the five     *)
(* term switches, the mixing parameters, the grid, the clock and its       *)
(* origin - as one record per object, the setters as actions, and move     *)
(* construction / move assignment as actions that hand the WHOLE record    *)
(* over (C10: "moving the solver object ... between segments", "change     *)
(* stepper/tolerances").  Values are small codes (0 = what a new object    *)
(* has); the replayer maps them to concrete numbers, chosen so that the    *)
(* re-centring rule of module StepCtl never fires here.                    *)
(*                                                                         *)
(* Objects: 1 starts alive with the default record; 2 starts alive with a  *)
(* "decoy" record that differs from anything object 1 can reach in every   *)
(* field (code 9) or is not constructed yet (Decoy = FALSE): a field that  *)
(* a move forgets to hand over shows as the decoy's (or the default) value.*)
(* The replayer reads every getter of the object holding the lineage and   *)
(* compares a fixed Evolve with that of a twin built from the record by    *)
(* plain setters and never moved (same number of right-hand sides, same    *)
(* state, same clock), which also exposes the fields without a getter.     *)
(***************************************************************************)
EXTENDS Integers, Sequences, TLC, Json
CONSTANTS MaxOps, Decoy
Fields == {"h", "hmin", "hmax", "rel", "abs", "nsteps", "adaptive", "stepper", "sw1", "sw2", "sw3", "sw4", "sw5", "any", "mix", "grid"}
Switches == {"sw1", "sw2", "sw3", "sw4", "sw5"}
Vals(f) == IF f \in {"adaptive", "any"} \cup Switches THEN {0, 1} ELSE {1, 2}
Default == [f \in Fields |-> IF f = "adaptive" THEN 1 ELSE 0]
DecoyRec == [f \in Fields |-> IF f \in {"adaptive", "sw2", "sw3", "sw4", "sw5"} THEN 0 ELSE IF f \in {"sw1", "any"} THEN 1 ELSE 9]
\* AnyNumerics is a field of its own: every term-switch setter recomputes it as the OR of the five switches (as coded),
\* Set_AnyNumerics overrides it; a move hands over the flag itself, not a recomputation.
AnyOf(r) == IF r["sw1"] = 1 \/ r["sw2"] = 1 \/ r["sw3"] = 1 \/ r["sw4"] = 1 \/ r["sw5"] = 1 THEN 1 ELSE 0

VARIABLES cfg, alive, usable, cur, nops, hist
vars == <<cfg, alive, usable, cur, nops, hist>>
Init == /\ cfg = [o \in {1,2} |-> IF o = 1 THEN Default ELSE DecoyRec]
        /\ alive = [o \in {1,2} |-> o = 1 \/ Decoy]
        /\ usable = [o \in {1,2} |-> o = 1 \/ Decoy]
        /\ cur = 1 /\ nops = 0 /\ hist = <<>>
Set(f, v) == /\ cfg' = [cfg EXCEPT ![cur] = IF f \in Switches THEN [[@ EXCEPT ![f] = v] EXCEPT !["any"] = AnyOf([cfg[cur] EXCEPT ![f] = v])]
                                                  ELSE [@ EXCEPT ![f] = v]]
             /\ hist' = Append(hist, <<"set", f, v>>)
             /\ UNCHANGED <<alive, usable, cur>>
Other == 3 - cur
\* move construction: the destination does not exist yet; move assignment: it does (and loses what it had)
MoveCtor == /\ ~alive[Other]
            /\ cfg' = [cfg EXCEPT ![Other] = cfg[cur]]
            /\ alive' = [alive EXCEPT ![Other] = TRUE]
            /\ usable' = [usable EXCEPT ![Other] = TRUE, ![cur] = FALSE]
            /\ cur' = Other /\ hist' = Append(hist, <<"movector", "-", 0>>)
MoveAssign == /\ alive[Other]
              /\ cfg' = [cfg EXCEPT ![Other] = cfg[cur]]
              /\ usable' = [usable EXCEPT ![Other] = TRUE, ![cur] = FALSE]
              /\ cur' = Other /\ hist' = Append(hist, <<"moveassign", "-", 0>>) /\ UNCHANGED alive
Next == /\ nops < MaxOps /\ nops' = nops + 1
        /\ \/ \E f \in Fields : \E v \in Vals(f) : Set(f, v)
           \/ MoveCtor \/ MoveAssign
Spec == Init /\ [][Next]_vars
\* the lineage is always held by a usable object
LineageOK == usable[cur] /\ alive[cur]
Emit == PrintT(<<"EDGE", ToJson([hist |-> hist', cur |-> cur', cfg |-> cfg'[cur'], decoy |-> Decoy])>>)
=============================================================================
