\* default configuration (d = 2,3 complete); tools/props/c11.py generates the tier configurations in build/
SPECIFICATION Spec
CONSTANTS
  Dims = {2,3}
  FullD = 4
  SpecKeep = 1
  NPlain = 1
  AvgKeep = 4
  NRange = 2
  Chain2Keep = 8
  Seed = 1
  Repaired = TRUE
INVARIANTS TypeOK Partition OffBoundary FactorsOK RejectOK AcceptOK FlagsOK AllFinite CoincidentPass Degenerate
           SignFree MonotoneX HardCutIsAvg ProductOK RangeOK WConsistent
PROPERTIES FilterMono
CHECK_DEADLOCK FALSE
