------------------------------ MODULE HeapTrace ------------------------------
(***************************************************************************)
(* Block life cycle of the SU_vector storage machinery at the level of the *)
(* heap hooks (alloc_aligned / deallocate_mem / clear_mem_cache), used to  *)
(* validate executions nobody scripted: the repository's own 24 test       *)
(* programs rebuilt with SQUIDS_VERIF.  The micro steps are those of       *)
(* module SUVec (Alloc = Fresh | Hit, Dealloc = Cached | Deleted, drain),  *)
(* without the vectors: a block is free, owned or in the cache of one      *)
(* dimension class.                                                        *)
(***************************************************************************)
EXTENDS Integers, FiniteSets, Sequences, TLC, Json, IOUtils
CONSTANTS NBlk, Cap
Log == ndJsonDeserialize(IOEnv.TRACE)
VARIABLES st, cls, l
vars == <<st, cls, l>>
Blocks == 1..NBlk
Ev == Log[l]
InCache(d) == {b \in Blocks : st[b] = "cached" /\ cls[b] = d}
Init == st = [b \in Blocks |-> "free"] /\ cls = [b \in Blocks |-> 0] /\ l = 1
Set(b, s, d) == st' = [st EXCEPT ![b] = s] /\ cls' = [cls EXCEPT ![b] = d]
Next == /\ l <= Len(Log) /\ l' = l + 1
        /\ LET b == Ev.b  d == Ev.d  e == Ev.e IN
           CASE e = "Fresh"   -> st[b] = "free" /\ InCache(d) = {} /\ Set(b, "owned", d)        \* a new block only when the class is empty
             [] e = "Raw"     -> st[b] = "free" /\ Set(b, "owned", d)                            \* first sight of a plain new[] block
             [] e = "Hit"     -> st[b] = "cached" /\ cls[b] = d /\ Set(b, "owned", d)            \* only from the cache of its own class
             [] e = "Cached"  -> st[b] = "owned" /\ cls[b] = d /\ Cardinality(InCache(d)) < Cap /\ Set(b, "cached", d)   \* filed under the class it was obtained for
             [] e = "Deleted" -> st[b] = "owned" /\ Set(b, "free", 0)
             [] e = "Drained" -> st[b] = "cached" /\ cls[b] = d /\ Set(b, "free", 0)
             [] e = "End"     -> UNCHANGED <<st, cls>>
             [] OTHER -> FALSE
Spec == Init /\ [][Next]_vars
\* a block allocated for one class is never cached for a smaller-capacity use: the class of an owned block is fixed
CapOK == \A d \in 0..6 : Cardinality(InCache(d)) <= Cap
Accepted == TLCGet("stats").diameter - 1 = Len(Log)
=============================================================================
