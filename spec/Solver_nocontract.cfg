SPECIFICATION Spec
CONSTANTS
  Objs = {1,2}
  Addrs = {0,1,2,3,4}
  MaxSteps = 9
  FirstAtSys = FALSE
INVARIANTS BindOK AfterEvolve SysUnique
CHECK_DEADLOCK FALSE
