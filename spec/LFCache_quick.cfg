\* C19 quick: 2 threads x 2 calls, exhaustive with spurious CAS failures, repaired order of get(),
\* every generated transition exported for the replayer (tools/props/c19.py writes the same for N = 1, 2, 3).
SPECIFICATION Spec
CONSTANTS
  N = 2
  Threads = {1,2}
  OpsPerThread = 2
  GetReadsAfterPush = FALSE
  Spurious = TRUE
  RecordPath = FALSE
VIEW View
INVARIANTS TypeOK AtMostOnce OnlyInserted FailedInsertKeeps Drain
ACTION_CONSTRAINT Emit
CHECK_DEADLOCK FALSE
