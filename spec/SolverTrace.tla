---------------------------- MODULE SolverTrace ----------------------------
(***************************************************************************)
(* Validates a trace of real SQuIDS objects (harness/solver_drive.cpp,     *)
(* hooks in SQuIDS.cpp) against module Solver: every right-hand-side       *)
(* evaluation must find the in-step views bound to the arrays the stepper  *)
(* passed (BindOK), make exactly the callbacks the switches enable, in the *)
(* documented order, with that node's / matrix's / scalar's index and the  *)
(* stepper's time; after Evolve the in-step view coincides with the stored *)
(* state; the clock advances by exactly dt; with all terms off the state   *)
(* is bit-identical and PreDerive is called exactly once with the new time.*)
(***************************************************************************)
EXTENDS Solver, Json, IOUtils

Log == ndJsonDeserialize(IOEnv.TRACE)
VARIABLE l
tvars == <<vars, l>>
Ev == Log[l]

CallsMatch(r, cs) ==
  LET ex == ExpectedCalls(r) IN
  /\ Len(cs) = Len(ex)
  /\ \A k \in 1..Len(ex) : cs[k][1] = ex[k][1] /\ cs[k][2] = ex[k][2] /\ cs[k][3] = ex[k][3]

TIni == /\ Ev.e = "Ini"
        /\ Ini(Ev.o, Ev.sys, Ev.nx, Ev.nrhos, Ev.nsc, Ev.t4)
        /\ Ev.eact = Ev.sys                       \* re-initialisation: the in-step view aliases the fresh state
        /\ Ev.cacheclear                          \* ... and the last-pointer cache is cleared (Ini sets lastE = lastD = 0)
TSwitch == Ev.e = "Switch" /\ SetSwitch(Ev.o, Ev.k, Ev.b)
TSetAny == Ev.e = "SetAny" /\ SetAny(Ev.o, Ev.b)
\* the driver's buffers are learnt from the right-hand sides it issues
TStart == /\ Ev.e = "EvolveStart" /\ Ev.paramsok
          /\ obj[Ev.o].inited /\ obj[Ev.o].sys = Ev.sys /\ drv.o = 0
          /\ (Ev.num = 1) = obj[Ev.o].any
          /\ drv' = (IF Ev.num = 1 THEN [o |-> Ev.o, bufs |-> {}, nrhs |-> 0] ELSE drv)
          /\ UNCHANGED <<obj, bad>>
TRhs == /\ Ev.e = "Rhs" /\ drv.o = Ev.o
        /\ LET r == Rebind(obj[Ev.o], Ev.sp, Ev.dp) IN
           /\ r.ebind = Ev.eact /\ r.dbind = Ev.dact        \* the code follows the specification's cache logic
           /\ Ev.eact = Ev.sp /\ Ev.dact = Ev.dp            \* BindOK: the views are the arrays GSL passed
           /\ Ev.tsame                                      \* every callback received the stepper's time
           /\ CallsMatch(obj[Ev.o], Ev.calls)
           /\ obj' = [obj EXCEPT ![Ev.o] = r]
        /\ drv' = [drv EXCEPT !.nrhs = @ + 1, !.bufs = @ \cup ({Ev.sp, Ev.dp} \ {obj[Ev.o].sys})]
        /\ UNCHANGED bad
TEnd == /\ Ev.e = "EvolveEnd" /\ ~Ev.threw
        /\ Ev.eact = Ev.sys                               \* AfterEvolve
        /\ Ev.t4exact /\ Ev.t4 = obj[Ev.o].t4 + Ev.dt4    \* Clock
        /\ IF drv.o = Ev.o
           THEN /\ obj[Ev.o].any /\ Ev.nrhs = drv.nrhs /\ Len(Ev.direct) = 0
                /\ EvolveEnd(Ev.o, Ev.dt4)
           ELSE /\ drv.o = 0 /\ ~obj[Ev.o].any
                /\ Ev.same /\ Ev.nrhs = 0                 \* NoNumericsFrame: stored state bit-identical
                /\ Len(Ev.direct) = 1 /\ Ev.direct[1][1] = "PreDerive" /\ Ev.directt
                /\ obj' = [obj EXCEPT ![Ev.o].t4 = @ + Ev.dt4] /\ UNCHANGED <<drv, bad>>
\* with every term switched off but AnyNumerics forced on the integration runs and must not change the state
TMove == /\ Ev.e = "Move" /\ MoveTo(Ev.dst, Ev.src)
         /\ Ev.sys = obj[Ev.src].sys /\ Ev.eact = obj[Ev.src].ebind
TDestroy == /\ Ev.e = "Destroy" /\ drv.o = 0
            /\ obj' = [obj EXCEPT ![Ev.o] = NoObj] /\ UNCHANGED <<drv, bad>>
TDone == Ev.e = "End" /\ UNCHANGED vars

TNext == /\ l <= Len(Log) /\ l' = l + 1 /\ steps' = steps
         /\ (TIni \/ TSwitch \/ TSetAny \/ TStart \/ TRhs \/ TEnd \/ TMove \/ TDestroy \/ TDone)
TInit == Init /\ l = 1
TSpec == TInit /\ [][TNext]_tvars
Accepted == TLCGet("stats").diameter - 1 = Len(Log)
=============================================================================
