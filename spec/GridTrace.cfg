SPECIFICATION TraceSpec
CONSTANTS
  MaxUlpLin = 4
  MaxUlpLog = 8
POSTCONDITION Accepted
CHECK_DEADLOCK FALSE
