SPECIFICATION Spec
CONSTANTS
  NBlk = 300
  Cap = 32
INVARIANTS CapOK
POSTCONDITION Accepted
CHECK_DEADLOCK FALSE
