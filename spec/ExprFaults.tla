----------------------------- MODULE ExprFaults -----------------------------
(***************************************************************************)
(* C16 for statements whose right-hand side is a NESTED expression (an     *)
(* operator applied to an unevaluated expression): module SUVec's alphabet *)
(* has one operator per statement, so the conversions of temporaries that  *)
(* nested expressions go through (EvaluationProxy -> SU_vector, for const  *)
(* and for expiring expressions) are not in it.                            *)
(* A case is (expression kind, statement form, dimension of the operands,  *)
(* dimension class of the target, state of the block cache, k): the k-th   *)
(* allocation performed by the statement fails.  Required, whatever k: if the statement performs fewer *)
(* than k allocations it completes with the value of the un-armed          *)
(* evaluation; otherwise std::bad_alloc propagates (nothing else, and the  *)
(* process lives), every operand keeps its value bit for bit, the target   *)
(* can be reassigned and destroyed, and after everything is destroyed and  *)
(* the cache emptied every block was released exactly once.                *)
(***************************************************************************)
EXTENDS Integers, TLC, Json
Exprs == {"a", "a+b", "a*2", "icomm(a,b)", "a.evolve(h,t)",      \* single-level right-hand sides (here for the warm cache states)
          "-(a+b)", "-(a-b)", "-(a*2)", "-icomm(a,b)", "-acomm(a,b)", "-a.evolve(h,t)", "(a+b)+(a-b)", "(a+b)-(a*2)", "(a+b)*2", "(a+b)+b", "(a+b)-b", "b+(a*2)",
          "(a+b).evolve(h,t)", "(a+b).evolve(h+h,t)", "icomm(a+b,a-b)", "acomm(a*2,b)", "-(-(a+b))", "(a+b)*(a-b)"}
Forms == {"ctor", "assign-same", "assign-other", "assign-empty", "inc-same", "dec-same"}
Dims == 2..6
Ks == 1..4
\* state of the per-dimension block cache when the statement starts: cold / one spare block of the TARGET's dimension /
\* the target's dimension full (a block released now is freed, not cached).  The k-th allocation counts real allocations
\* only (a block served by the cache cannot fail).
Warm == 0..2
VARIABLE c
Init == c = [e |-> "none"]
Next == /\ c.e = "none"
        /\ \E e \in Exprs, f \in Forms, d \in Dims, k \in Ks, w \in Warm : c' = [e |-> e, f |-> f, d |-> d, k |-> k, w |-> w]
Spec == Init /\ [][Next]_c
Emit == PrintT(<<"EDGE", ToJson(c')>>)
=============================================================================
