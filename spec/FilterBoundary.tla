--------------------------- MODULE FilterBoundary ---------------------------
(***************************************************************************)
(* C11 on the boundaries that module Filters keeps away from (there the    *)
(* thresholds are half-integers so that no case sits on a comparison       *)
(* boundary).  Here cutoff and cutoff - ramp coincide EXACTLY with level    *)
(* splittings (all quantities are small integers, exact in binary floating *)
(* point; times are in unit 1), including cutoff = 0 with coincident       *)
(* levels and ramp = 0.  The property fixes the factor strictly inside     *)
(* each class; on a boundary the two adjacent classes' values are allowed  *)
(* (they coincide except at the hard step), and in every case the entry    *)
(* must be finite.  With X = 2|x|, C = |c2|, R = 2|r| (x = omega for        *)
(* LowPassFilter, omega*k for AvgRampFilter; cutoff = c2/2, ramp = r):      *)
(*    X > C          {0}                                                   *)
(*    X = C          {0} if R > 0 (ramp value = cut value), {0,1} if R = 0  *)
(*    C-R < X < C    {(C-X)/R}                                              *)
(*    X <= C-R       {1}                                                   *)
(* R > C : the call is rejected and the table is untouched.                *)
(* The library derives the splittings from the vector's components, which  *)
(* costs an ulp: a pair meant to sit ON a threshold sits within an ulp of   *)
(* it, so the replayer accepts a factor within 1e-12 of an allowed value   *)
(* (the factor is continuous across every threshold except the hard step,  *)
(* where both values are allowed anyway).                                   *)
(***************************************************************************)
EXTENDS Integers, Sequences, TLC, Json

Abs(x) == IF x < 0 THEN -x ELSE x
Spectra == << <<0,1,3,6,10,15>>, <<0,0,2,2,4,4>>, <<0,0,0,0,0,0>>, <<3,1,1,-2,5,5>> >>
Dims == 2..6
Cuts2 == {0, 2, 4, 6, 8, 10, 12, -4, 3}
Ramps == {0, 1, 2, -1, 3}
Times == {1, 2, -1}

VARIABLE c
Init == c = [op |-> "none"]
Pairs(d) == [p \in 1..(d*(d-1)) \div 2 |->
              CHOOSE ij \in (0..d-1) \X (0..d-1) : ij[1] < ij[2] /\ p = ij[1]*d - (ij[1]*(ij[1]+1)) \div 2 + (ij[2] - ij[1])]
Allowed(x, c2, r) ==
  LET X == 2*Abs(x)  C == Abs(c2)  R == 2*Abs(r) IN
  IF X > C THEN << <<0,1>> >>
  ELSE IF X = C THEN (IF R > 0 THEN << <<0,1>> >> ELSE << <<0,1>>, <<1,1>> >>)
  ELSE IF X > C - R THEN << <<C - X, R>> >>
  ELSE << <<1,1>> >>
Case(op, d, s, k, c2, r) ==
  LET E == SubSeq(Spectra[s], 1, d)
      P == Pairs(d) IN
  [op |-> op, d |-> d, E |-> E, k |-> k, c2 |-> c2, r |-> r, rejected |-> (2*Abs(r) > Abs(c2)),
   allowed |-> [p \in 1..Len(P) |-> Allowed((E[P[p][1]+1] - E[P[p][2]+1]) * (IF op = "lowpass" THEN 1 ELSE k), c2, r)]]
Next == /\ c.op = "none"
        /\ \E d \in Dims, s \in 1..Len(Spectra), c2 \in Cuts2, r \in Ramps :
             \/ c' = Case("lowpass", d, s, 0, c2, r)
             \/ \E k \in Times : c' = Case("avgramp", d, s, k, c2, r)
Spec == Init /\ [][Next]_c
\* the table really contains the boundary situations it is there for
Emit == PrintT(<<"EDGE", ToJson(c')>>)
=============================================================================
