\* C19 thorough: 3 threads x 2 calls (the check runs N = 1..4), no export. ~2 M distinct states for N = 2.
SPECIFICATION Spec
CONSTANTS
  N = 2
  Threads = {1,2,3}
  OpsPerThread = 2
  GetReadsAfterPush = FALSE
  Spurious = TRUE
  RecordPath = FALSE
VIEW View
INVARIANTS TypeOK AtMostOnce OnlyInserted FailedInsertKeeps Drain
CHECK_DEADLOCK FALSE
