\* C19 thorough: 2 threads x 3 calls (the check runs N = 1..4; N = 2 with transition export).
SPECIFICATION Spec
CONSTANTS
  N = 4
  Threads = {1,2}
  OpsPerThread = 3
  GetReadsAfterPush = FALSE
  Spurious = TRUE
  RecordPath = FALSE
VIEW View
INVARIANTS TypeOK AtMostOnce OnlyInserted FailedInsertKeeps Drain
CHECK_DEADLOCK FALSE
