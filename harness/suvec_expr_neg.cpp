#include "suvec_drive.h"
#define VOP OP_NEG
#define VFUNC expr_neg
#include "suvec_expr.inc"
