#include "suvec_drive.h"
#define VOP OP_ELEMENTWISE
#define VFUNC expr_elementwise
#include "suvec_expr.inc"
