// C17 binding: executes grid construction and Get_i on real SQuIDS objects.
//
// mode "table" (stdin):   the cases TLC exported from spec/Grid.tla
//     G id nx lin xlo nxs n_0..n_{nx-1}  then for each of the nxs queries:  cnt a_1..a_cnt   (a = -1: must throw)
//     V id nx len v_1..v_len verdict(accept|reject|either)
//   nodes and queries are integers on the 4x lattice (value = k/4, all exactly representable).
//   Every grid is executed in several exact affine images (scale a power of two, integer shift): bracketing
//   depends on order only, so the specification's answer set is the same.
//   stdout:  MISMATCH <kind> <id> <variant> <x4> <res> <text>   ...   DONE ngrids ncalls nmis
//
// mode "trace" seed ncases maxnx out_int out_lin out_log:
//   seeded executions, one ndjson event per call, validated afterwards by TLC against spec/GridTrace.tla
//     {"e":"Grid","id":k,"kind":"int|lin|log","nodes":[..]}            integer image of the stored nodes
//     {"e":"Range","id":k,"kind":..,"nx":n,"mono":m,"end0":u,"endN":u,"dev":u}   facts about Set_xrange(a,b,scale)
//     {"e":"GetI","grid":k,"kind":..,"x4":q,"res":i,"threw":false|true}
//   "int" grids: integer nodes, image = 4*value.  "lin"/"log": general doubles; image = rank among all doubles
//   that occur (nodes and queries), an order isomorphism.
#include <limits>
#include <SQuIDS/SQuIDS.h>
#include <cstdio>
#include <cstring>
#include <cmath>
#include <map>
#include <set>
#include <random>
#include <algorithm>
#include <iostream>
#include <sstream>
#include <memory>

using squids::SQuIDS;
static const double EPS = 2.220446049250313e-16;

static long call_get_i(const SQuIDS& o, double x) {
  try { return (long)o.Get_i(x); } catch (std::exception&) { return -1; }
}

struct Variant { const char* name; double scale; double shift4; };   // value = (k + shift4) * scale / 4
static const Variant VARIANTS[] = {
  {"x", 1.0, 0.0}, {"(x-7)*2^-7", 1.0 / 128, -28.0}, {"x*2^20", 1048576.0, 0.0}};
// the second image moves part of the grid to negative dyadic values, the third to large ones; all exact
static const int NVAR = 3;
static double image(const Variant& v, long k) { return ((double)k + v.shift4) * v.scale / 4.0; }

static long nmis = 0, printed = 0;
static long cur_nx = 0, cur_lin = 0;
static void mismatch(const char* kind, long id, const char* var, long x4, long res, const std::string& text) {
  nmis++;
  // bounded report that still names every failing class (kind, nx, uniform?, reason)
  static std::map<std::string, int> per_class;
  int& n = per_class[std::string(kind) + "/" + std::to_string(cur_nx) + "/" + std::to_string(cur_lin) + "/" + text];
  if (n < 6 && printed < 20000) { n++; printed++; printf("MISMATCH %s %ld %s %ld %ld %s\n", kind, id, var, x4, res, text.c_str()); }
}

// The object a grid is set on: fresh, or one that was initialised with MORE or with FEWER nodes before and then re-initialised
// through the public ini() - the grid is a function of the last initialisation and the last Set_xrange only.
static std::unique_ptr<SQuIDS> make_obj(long nx, long k) {
  if (k % 3 == 0) return std::unique_ptr<SQuIDS>(new SQuIDS(nx, 2, 1, 0));
  long other = (k % 3 == 1) ? nx + 2 + k % 5 : std::max(2L, nx - 1 - k % 2);
  std::unique_ptr<SQuIDS> o(new SQuIDS(other, 2, 1, 0));
  o->Set_xrange(1.0, 64.0, "log");
  o->ini(nx, 2, 1, 0, 0.0);
  return o;
}

static int table_mode() {
  std::ios::sync_with_stdio(false);
  std::map<unsigned, std::unique_ptr<SQuIDS>> objs, objs2;
  std::string tag;
  long ngrids = 0, ncalls = 0;
  while (std::cin >> tag) {
    if (tag == "G") {
      long id, nx, lin, xlo, nxs;
      std::cin >> id >> nx >> lin >> xlo >> nxs;
      std::vector<long> nodes(nx);
      for (auto& n : nodes) std::cin >> n;
      std::vector<std::vector<long>> allowed(nxs);
      for (auto& a : allowed) { long c; std::cin >> c; a.resize(c); for (auto& y : a) std::cin >> y; }
      ngrids++; cur_nx = nx; cur_lin = lin;
      if (!objs.count(nx)) { objs[nx] = make_obj(nx, nx + 1); objs2[nx] = make_obj(nx, nx); }
      SQuIDS& o = *objs[nx];
      for (int vi = 0; vi < NVAR; vi++) {
        const Variant& v = VARIANTS[vi];
        std::vector<double> xs(nx);
        for (long i = 0; i < nx; i++) xs[i] = image(v, nodes[i]);
        try { o.Set_xrange(xs); } catch (std::exception& e) { mismatch("SetVec", id, v.name, 0, -1, std::string("sorted-input-rejected:") + e.what()); continue; }
        bool same = o.Get_xrange() == xs && o.Get_nx() == (unsigned)nx;
        for (long i = 0; i < nx && same; i++) same = o.Get_x(i) == xs[i];
        if (!same) mismatch("SetVec", id, v.name, 0, 0, "not-stored-exactly");
        for (long q = 0; q < nxs; q++) {
          long x4 = xlo + q;
          long r = call_get_i(o, image(v, x4));
          ncalls++;
          if (std::find(allowed[q].begin(), allowed[q].end(), r) == allowed[q].end()) mismatch("GetI", id, v.name, x4, r, "not-in-Bracket");
        }
        if (vi == 0) {
          // history: an object that HAD another (linear) grid and then receives this grid by move assignment
          SQuIDS h(nx, 2, 1, 0);
          h.Set_xrange(-3.0 - id % 5, 40.0 + id % 7, "lin");
          (void)call_get_i(h, 1.0);
          SQuIDS src(nx, 2, 1, 0);
          src.Set_xrange(xs);
          h = std::move(src);
          for (long q = 0; q < nxs; q++) {
            long x4 = xlo + q;
            long r = call_get_i(h, image(v, x4));
            ncalls++;
            if (std::find(allowed[q].begin(), allowed[q].end(), r) == allowed[q].end()) mismatch("GetI", id, "after-move-assign", x4, r, "not-in-Bracket");
          }
          SQuIDS h2(std::move(h));      // and by move construction
          for (long q = 0; q < nxs; q += 3) {
            long x4 = xlo + q;
            long r = call_get_i(h2, image(v, x4));
            ncalls++;
            if (std::find(allowed[q].begin(), allowed[q].end(), r) == allowed[q].end()) mismatch("GetI", id, "after-move-construct", x4, r, "not-in-Bracket");
          }
        }
        if (lin) {
          // the same grid through Set_xrange(a,b,"linear"): (nx-1) divides b-a, all values dyadic => exact nodes
          SQuIDS& p = *objs2[nx];
          static const char* names[] = {"linear", "Linear", "lin", "Lin"};
          try { p.Set_xrange(xs.front(), xs.back(), names[(id + vi) % 4]); } catch (std::exception& e) { mismatch("SetRange", id, v.name, 0, -1, std::string("threw:") + e.what()); continue; }
          bool eq = p.Get_xrange().size() == (size_t)nx && p.Get_nx() == (unsigned)nx;
          for (long i = 0; i < nx; i++) if (p.Get_x(i) != xs[i]) eq = false;
          if (!eq) mismatch("SetRange", id, v.name, 0, 0, "linear-nodes-not-exact");
          for (long q = 0; q < nxs; q++) {
            long x4 = xlo + q;
            long r = call_get_i(p, image(v, x4));
            ncalls++;
            if (std::find(allowed[q].begin(), allowed[q].end(), r) == allowed[q].end()) mismatch("GetI", id, (std::string(v.name) + "/range").c_str(), x4, r, "not-in-Bracket");
          }
        }
      }
    } else if (tag == "V") {
      long id, nx, len; std::string verdict;
      std::cin >> id >> nx >> len;
      std::vector<double> v(len);
      for (auto& y : v) { long k; std::cin >> k; y = k / 4.0; }
      std::cin >> verdict; cur_nx = nx; cur_lin = 0;
      SQuIDS o(nx, 2, 1, 0);
      std::vector<double> init(nx);
      for (long i = 0; i < nx; i++) init[i] = 100 + i;
      o.Set_xrange(init);
      bool threw = false;
      try { o.Set_xrange(v); } catch (std::exception&) { threw = true; }
      ncalls++;
      if (verdict == "accept") {
        if (threw) mismatch("SetVec", id, "-", 0, -1, "valid-input-rejected");
        else if (o.Get_xrange() != v) mismatch("SetVec", id, "-", 0, 0, "not-stored-exactly");
      } else if (verdict == "reject") {
        if (!threw) mismatch("SetVec", id, "-", 0, 0, len != nx ? "wrong-size-accepted" : "unsorted-accepted");
        else if (o.Get_xrange() != init) mismatch("SetVec", id, "-", 0, 0, "rejected-input-changed-the-grid");     // a rejected call leaves the grid it found
      }
    } else { printf("BADINPUT %s\n", tag.c_str()); return 2; }
  }
  printf("DONE %ld %ld %ld\n", ngrids, ncalls, nmis);
  return 0;
}

// ---------------------------------------------------------------------------------------------
static long iceil_ratio(long double err, long double unit) {
  if (!(err == err)) return 1000000000L;
  long double r = std::ceil(std::fabs(err) / unit);
  if (r > 1e9L) return 1000000000L;
  return (long)r;
}

static void write_grid(FILE* f, long id, const char* kind, const std::vector<long>& img) {
  fprintf(f, "{\"e\":\"Grid\",\"id\":%ld,\"kind\":\"%s\",\"nodes\":[", id, kind);
  for (size_t i = 0; i < img.size(); i++) fprintf(f, "%s%ld", i ? "," : "", img[i]);
  fprintf(f, "]}\n");
}
static void write_geti(FILE* f, long id, const char* kind, long x4, long r) {
  fprintf(f, "{\"e\":\"GetI\",\"grid\":%ld,\"kind\":\"%s\",\"x4\":%ld,\"res\":%ld,\"threw\":%s}\n", id, kind, x4, r, r < 0 ? "true" : "false");
}

static int trace_mode(int argc, char** argv) {
  if (argc < 8) { fprintf(stderr, "usage: trace seed ncases maxnx out_int out_lin out_log\n"); return 2; }
  unsigned long seed = strtoul(argv[2], 0, 10);
  long ncases = atol(argv[3]), maxnx = atol(argv[4]);
  FILE* fi = fopen(argv[5], "w"); FILE* fl = fopen(argv[6], "w"); FILE* fg = fopen(argv[7], "w");
  if (!fi || !fl || !fg) return 2;
  std::mt19937_64 rng(seed);
  auto uni = [&](long lo, long hi) { return lo + (long)(rng() % (unsigned long)(hi - lo + 1)); };
  long nev = 0, id = 0;
  static const long forced[] = {2, 3, 4, 5, 6, 7, 10, 17, 33, 100, 129, 257, 300};
  // (1) integer grids, strongly non-uniform, up to maxnx nodes
  for (long c = 0; c < ncases; c++) {
    long nx = c < 13 ? std::min(forced[c], maxnx) : uni(2, maxnx);
    int style = c % 3;      // 0: uniform, 1: small random gaps, 2: geometric-like gaps
    std::vector<long> nodes(nx);
    long v = uni(-50, 50), gap0 = uni(1, 4);
    for (long i = 0; i < nx; i++) {
      nodes[i] = v;
      v += style == 0 ? gap0 : style == 1 ? uni(1, 5) : 1 + (long)(rng() % (1UL << (rng() % 9)));
    }
    std::vector<double> xs(nx);
    for (long i = 0; i < nx; i++) xs[i] = (double)nodes[i];
    std::unique_ptr<SQuIDS> op = make_obj(nx, c); SQuIDS& o = *op;
    o.Set_xrange(xs);
    std::vector<long> img(nx);
    for (long i = 0; i < nx; i++) img[i] = 4 * nodes[i];
    id++;
    write_grid(fi, id, "int", img); nev++;
    std::vector<long> qs;
    for (long i = 0; i < nx; i++) { qs.push_back(img[i]); qs.push_back(img[i] + 1); qs.push_back(img[i] - 1); }
    for (long i = 0; i + 1 < nx; i++) if ((img[i] + img[i + 1]) % 2 == 0) qs.push_back((img[i] + img[i + 1]) / 2);
    for (int k = 0; k < 40; k++) qs.push_back(uni(img.front() - 8, img.back() + 8));
    qs.push_back(img.front() - 4000); qs.push_back(img.back() + 4000);
    for (long q : qs) { write_geti(fi, id, "int", q, call_get_i(o, q / 4.0)); nev++; }
  }
  // (2) general doubles through Set_xrange(a,b,scale)
  for (int kind = 0; kind < 2; kind++) {
    FILE* f = kind == 0 ? fl : fg;
    const char* kname = kind == 0 ? "lin" : "log";
    for (long c = 0; c < ncases; c++) {
      long nx = c < 13 ? std::min(forced[c], maxnx) : uni(2, maxnx);
      std::uniform_real_distribution<double> U(0.0, 1.0);
      double a, b;
      if (kind == 0) {
        double mag = std::pow(10.0, U(rng) * 16 - 8);
        a = (U(rng) * 2 - 1) * mag;
        b = a + U(rng) * mag * (c % 4 == 0 ? 1e-3 : 1.0) + mag * 1e-6;
        if (c % 7 == 3) { a = -b; if (a > b) std::swap(a, b); if (a == b) b = a + 1; }
        // the narrowest and the most extreme linear ranges (a < b by however little, in absolute terms)
        static const double EXTL[10][2] = {{0, 1e-18}, {-2e-20, 3e-20}, {1e-30, 1e-22}, {-1e-300, 1e-300}, {0, 4e-323}, {1e300, 1.7e308},
                                           {-1.7e308, -1e300}, {1, 1 + 1e-13}, {-1e-17, 0}, {123456789.0, 123456789.0 + 1e-6}};
        if (c >= 4 && c < 14) { a = EXTL[c - 4][0]; b = EXTL[c - 4][1]; }
      } else {
        a = std::pow(10.0, U(rng) * 17 - 9);          // > 1e-10 as Set_xrange demands
        b = a * (1 + std::pow(10.0, U(rng) * 8 - 3));
        static const double EXT[4][2] = {{1e-5, 1e305}, {1.5e-10, 1e300}, {0.5, 1.7e308}, {1e-9, 1e308}};
        if (c < 4) { a = EXT[c][0]; b = EXT[c][1]; }                                                       // the widest representable ranges
        static const double EXTN[4][2] = {{1.5e-10, 1.5000001e-10}, {1, 1 + 1e-12}, {1e-10 * (1 + 1e-9), 1.000001e-10 * (1 + 1e-9)}, {1e300, 1.0000001e300}};
        if (c >= 4 && c < 8) { a = EXTN[c - 4][0]; b = EXTN[c - 4][1]; }                                   // the narrowest
        if (c % 11 == 5) { a = std::pow(10.0, U(rng) * 9 - 9.5); b = std::pow(10.0, 300 + U(rng) * 7.9); }
        if (c % 11 == 7) { a = std::pow(10.0, 290 + U(rng) * 10); b = a * (1.5 + U(rng) * 50); }
      }
      if (!(a < b)) continue;
      std::unique_ptr<SQuIDS> op = make_obj(nx, c + kind); SQuIDS& o = *op;
      static const char* lnames[] = {"linear", "Linear", "lin", "Lin"};
      static const char* gnames[] = {"log", "Log"};
      o.Set_xrange(a, b, kind == 0 ? lnames[c % 4] : gnames[c % 2]);
      std::vector<double> xs = o.Get_xrange();
      id++;
      // facts about the construction, as integers
      long mono = 0;
      for (long i = 0; i + 1 < nx; i++) if (xs[i + 1] < xs[i]) mono++;
      long end0, endN, dev = 0;
      if (kind == 0) {
        long double S = std::max(std::fabs(a), std::fabs(b)), u = std::max((long double)EPS * S, (long double)std::numeric_limits<double>::denorm_min());   // a real ulp, also for subnormal ranges
        for (long i = 0; i < nx; i++) {
          long double ideal = (long double)a + ((long double)b - (long double)a) * (long double)i / (long double)(nx - 1);
          dev = std::max(dev, iceil_ratio((long double)xs[i] - ideal, u));
        }
        end0 = iceil_ratio((long double)xs[0] - a, u); endN = iceil_ratio((long double)xs[nx - 1] - b, u);
      } else {
        long double la = logl((long double)a), lb = logl((long double)b);
        long double L = std::max((long double)1.0, std::max(fabsl(la), fabsl(lb))), u = EPS * L;
        for (long i = 0; i < nx; i++) {
          long double ideal = la + (lb - la) * (long double)i / (long double)(nx - 1);
          dev = std::max(dev, xs[i] > 0 ? iceil_ratio(logl((long double)xs[i]) - ideal, u) : 1000000000L);
        }
        end0 = xs[0] > 0 ? iceil_ratio(logl((long double)xs[0]) - la, u) : 1000000000L;
        endN = xs[nx - 1] > 0 ? iceil_ratio(logl((long double)xs[nx - 1]) - lb, u) : 1000000000L;
      }
      fprintf(f, "{\"e\":\"Range\",\"id\":%ld,\"kind\":\"%s\",\"nx\":%ld,\"stored\":%ld,\"mono\":%ld,\"end0\":%ld,\"endN\":%ld,\"dev\":%ld}\n",
              id, kname, nx, (long)xs.size(), mono, end0, endN, dev);
      nev++;
      // lookups: order image by ranks
      std::vector<double> qs;
      for (long i = 0; i < nx; i++) {
        qs.push_back(xs[i]); qs.push_back(std::nextafter(xs[i], INFINITY)); qs.push_back(std::nextafter(xs[i], -INFINITY));
      }
      for (long i = 0; i + 1 < nx; i++) { qs.push_back(xs[i] + (xs[i + 1] - xs[i]) / 2); qs.push_back(xs[i] + (xs[i + 1] - xs[i]) * 0.3); }
      for (int k = 0; k < 40; k++) qs.push_back(a + (b - a) * U(rng));
      qs.push_back(a); qs.push_back(b);
      qs.push_back(a - (b - a)); qs.push_back(b + (b - a)); qs.push_back(a - (b - a) * 1e-9); qs.push_back(b + (b - a) * 1e-9);
      std::vector<double> all(qs); all.insert(all.end(), xs.begin(), xs.end());
      std::sort(all.begin(), all.end()); all.erase(std::unique(all.begin(), all.end()), all.end());
      auto rank = [&](double y) { return (long)(std::lower_bound(all.begin(), all.end(), y) - all.begin()); };
      std::vector<long> img(nx);
      for (long i = 0; i < nx; i++) img[i] = rank(xs[i]);
      write_grid(f, id, kname, img); nev++;
      for (double q : qs) { write_geti(f, id, kname, rank(q), call_get_i(o, q)); nev++; }
    }
  }
  fclose(fi); fclose(fl); fclose(fg);
  printf("DONE %ld %ld\n", id, nev);
  return 0;
}

// single probe:  probe nx n_0..n_{nx-1} x    (doubles)  -> prints the real answer
static int probe_mode(int argc, char** argv) {
  long nx = atol(argv[2]);
  std::vector<double> xs(nx);
  for (long i = 0; i < nx; i++) xs[i] = atof(argv[3 + i]);
  double x = atof(argv[3 + nx]);
  SQuIDS o(nx, 2, 1, 0);
  o.Set_xrange(xs);
  printf("RESULT %ld\n", call_get_i(o, x));
  return 0;
}

int main(int argc, char** argv) {
  if (argc >= 2 && !strcmp(argv[1], "table")) return table_mode();
  if (argc >= 2 && !strcmp(argv[1], "trace")) return trace_mode(argc, argv);
  if (argc >= 2 && !strcmp(argv[1], "probe")) return probe_mode(argc, argv);
  fprintf(stderr, "usage: grid_replay table|trace|probe ...\n");
  return 2;
}
