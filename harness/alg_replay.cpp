// Replayer for module SUAlgebra: executes every API call exported by TLC on the real kernels and
// compares the full result with the exact expectation.
// stdin: one case per record:  idx op d p1 p2 p3 p4 nh h[nh] A[d*d*5] B[d*d*5] R[d*d*5] s[5]
// stdout: "MISMATCH idx op what err tol" per failing comparison, then "DONE ncases nmismatch maxrelerr"
#include <SQuIDS/SUNalg.h>
#include <SQuIDS/const.h>
#include <SQuIDS/detail/MatrixExp.h>
#include <gsl/gsl_matrix.h>
#include <gsl/gsl_complex_math.h>
#include "exact.h"
#include <sstream>
#include <map>
#include <memory>
#include <csignal>
#include <unistd.h>

using namespace squids;

static long nmis = 0;
static double maxrel = 0;
static long cur_idx = 0;
static std::string cur_op;
static double TOLF = 512;

static void mismatch(const std::string& what, double err, double tol) {
  nmis++;
  printf("MISMATCH %ld %s %s %.6g %.6g\n", cur_idx, cur_op.c_str(), what.c_str(), err, tol);
}

static SU_vector vec_from_comps(const std::vector<double>& c, int d) {
  SU_vector v(d);
  for (int k = 0; k < d * d; k++) v[k] = c[k];
  return v;
}
static SU_vector vec_from_matrix(const Mat& M) { return vec_from_comps(comps_from_matrix(M), M.d); }

// compare a library vector with the expected matrix
static void expect_vec(const std::string& what, const SU_vector& r, const Mat& E, double S) {
  int d = E.d;
  if ((int)r.Dim() != d || (int)r.Size() != d * d) { mismatch(what + ":dim", r.Dim(), d); return; }
  std::vector<double> e = comps_from_matrix(E);
  double tol = TOLF * EPS * (S > 0 ? S : 1.0);
  double worst = 0; int wk = -1;
  for (int k = 0; k < d * d; k++) {
    double err = std::fabs(r[k] - e[k]);
    if (!(err <= tol) && !(err <= worst)) { worst = err; wk = k; }
    if (std::isnan(r[k])) { worst = INFINITY; wk = k; }
    if (S > 0 && err / S > maxrel) maxrel = err / S;
  }
  if (wk >= 0) mismatch(what + ":comp" + std::to_string(wk), worst, tol);
}
static void expect_same(const std::string& what, const SU_vector& a, const SU_vector& b, double tol) {
  if (a.Dim() != b.Dim()) { mismatch(what + ":dim", a.Dim(), b.Dim()); return; }
  for (unsigned k = 0; k < a.Size(); k++) {
    double err = std::fabs(a[k] - b[k]);
    if (!(err <= tol)) { mismatch(what + ":comp" + std::to_string(k), err, tol); return; }
  }
}
static void expect_gsl(const std::string& what, const gsl_matrix_complex* m, const Mat& E, double S) {
  int d = E.d;
  if ((int)m->size1 != d || (int)m->size2 != d) { mismatch(what + ":size", m->size1, d); return; }
  double tol = TOLF * EPS * (S > 0 ? S : 1.0);
  for (int i = 0; i < d; i++)
    for (int j = 0; j < d; j++) {
      gsl_complex z = gsl_matrix_complex_get(m, i, j);
      double err = std::abs(cd(GSL_REAL(z), GSL_IMAG(z)) - E(i, j));
      if (!(err <= tol)) { mismatch(what + ":entry" + std::to_string(i) + std::to_string(j), err, tol); return; }
      if (S > 0 && err / S > maxrel) maxrel = err / S;
    }
}
static std::unique_ptr<gsl_matrix_complex, void (*)(gsl_matrix_complex*)> gsl_from(const Mat& M) {
  gsl_matrix_complex* m = gsl_matrix_complex_alloc(M.d, M.d);
  for (int i = 0; i < M.d; i++)
    for (int j = 0; j < M.d; j++) gsl_matrix_complex_set(m, i, j, gsl_complex_rect(M(i, j).real(), M(i, j).imag()));
  return std::unique_ptr<gsl_matrix_complex, void (*)(gsl_matrix_complex*)>(m, gsl_matrix_complex_free);
}

// Factory results obtained while static initializers run (namespace-scope constants of an application): the harness
// objects precede the library's on the link line, so these are built before the library's own static data.
// The specification's factories are functions of (kind, d, index) only, so the phase of the program cannot matter.
// A replayed call that kills the process (every call here has arguments the specification admits) is reported with its position.
static volatile int g_in_main = 0;
static volatile long g_crash_idx = -1;
static void crash_handler(int sig) {
  char b[96]; int n = snprintf(b, sizeof b, "\nCRASH %d %s %ld\n", sig, g_in_main ? "case" : "static-initialisation", (long)g_crash_idx);
  if (n > 0) { ssize_t w = write(1, b, (size_t)n); (void)w; }
  _exit(70);
}
static void install_crash_handler() { for (int sg : {SIGSEGV, SIGBUS, SIGFPE, SIGABRT, SIGILL}) signal(sg, crash_handler); }

struct StaticFactories {
  std::map<std::string, SU_vector> t;
  static std::string key(const std::string& op, int d, long i) { return op + "/" + std::to_string(d) + "/" + std::to_string(i); }
  StaticFactories() {
    install_crash_handler();
    for (int d = 2; d <= 6; d++) {
      t.emplace(key("identity", d, 0), SU_vector::Identity(d));
      for (int i = 0; i < d; i++) t.emplace(key("projector", d, i), SU_vector::Projector(d, i));
      for (int i = 0; i < d * d; i++) t.emplace(key("generator", d, i), SU_vector::Generator(d, i));
      for (int i = 0; i < d; i++) t.emplace(key("posproj", d, i), SU_vector::PosProjector(d, i));
      for (int i = 0; i < d; i++) t.emplace(key("negproj", d, i), SU_vector::NegProjector(d, i));
    }
  }
};
static const StaticFactories g_static_factories;

// History independence: the specification's operations are functions of their arguments; whatever per-thread scratch
// space the library keeps between calls (matrix holders, factory tables, evolution buffers) must not leak into results.
// Before every second case the replayer runs a fixed set of calls at ANOTHER dimension (alternately the largest and the
// smallest), so that any scratch state left over from a larger or a smaller problem is in place when the case runs.
static void pollute(int dp) {
  SU_vector id = SU_vector::Identity(dp), pr = SU_vector::Projector(dp, dp - 1), pp = SU_vector::PosProjector(dp, dp - 1),
            np = SU_vector::NegProjector(dp, 1), g = SU_vector::Generator(dp, dp * dp - 1);
  SU_vector x(dp);
  for (int k = 0; k < dp * dp; k++) x[k] = 0.5 + 0.25 * k;
  SU_vector h(dp);
  for (int l = 1; l < dp; l++) h[dp * l + l] = 0.7 * l;
  SU_vector y = x.Evolve(h, 0.9);
  std::unique_ptr<double[]> buf(new double[h.GetEvolveBufferSize()]);
  h.PrepareEvolve(buf.get(), 1.3);
  y += x.Evolve(buf.get());
  auto m = x.GetGSLMatrix();
  SU_vector back(m.get());
  Const par;
  par.SetMixingAngle(0, 1, 0.4); par.SetPhase(0, 1, 0.3);
  y.RotateToB1(par); y.RotateToB0(par);
  auto U = par.GetTransformationMatrix(dp);
  y = y.Rotate(U.get());
  y = y.UTransform(U.get()); y = y.UDaggerTransform(U.get());
  y = y.UTransform(h, gsl_complex_rect(0, 0.5));
  y.Rotate(0, dp - 1, 0.3, 0.2);
  y.WeightedRotation(par, x, par);
  y = iCommutator(x, y) + ACommutator(x, pr) * 0.5 + id + pp + np + g;
  SU_vector re = y.Real(), im = y.Imag(); y.Transpose();
  volatile double sink = (x * y) + re[0] + im[0]; (void)sink;
  y.GetEigenSystem(true);
}

// Selections and sign changes (negation, transposition, Real, Imag) commute EXACTLY with scaling by a power of two over the
// whole range of finite doubles: components just below the overflow threshold and far below 1 must pass through unharmed.
// The documented convenience wrapper detail::guarantee<flags>(expression): a statement that truthfully promises equal sizes and/or aligned
// storage (but not NoAlias) has the value of the unwrapped statement, also when the target is an operand; with every flag on distinct vectors too.
template <class F> static void guarantee_forms(const std::string& nm, unsigned d, const SU_vector& a, const SU_vector& b, const SU_vector& r, F f) {
  using namespace squids::detail;
  auto al = [&](const SU_vector& s) { SU_vector t(d); for (unsigned q = 0; q < d * d; q++) t[q] = s[q]; return t; };   // storage from the sized constructor: aligned
  { SU_vector X = al(a), Y = al(b); X = guarantee<EqualSizes>(f(X, Y)); expect_same("a=guarantee<EqualSizes>(" + nm + ")", X, r, 0); }
  { SU_vector X = al(a), Y = al(b); Y = guarantee<AlignedStorage>(f(X, Y)); expect_same("b=guarantee<AlignedStorage>(" + nm + ")", Y, r, 0); }
  { SU_vector X = al(a), Y = al(b); SU_vector e = X + r; X += guarantee<EqualSizes | AlignedStorage>(f(X, Y)); expect_same("a+=guarantee<EqualSizes|AlignedStorage>(" + nm + ")", X, e, 0); }
  { SU_vector X = al(a), Y = al(b); SU_vector e = Y - r; Y -= guarantee<EqualSizes>(f(X, Y)); expect_same("b-=guarantee<EqualSizes>(" + nm + ")", Y, e, 0); }
  { SU_vector X = al(a), Y = al(b), T(d); T = guarantee<NoAlias | EqualSizes | AlignedStorage>(f(X, Y)); expect_same("t=guarantee<all>(" + nm + ")", T, r, 0); }
  { SU_vector X = al(a), Y = al(b), T(d); T[0] = 0.5; SU_vector e = T + r; T += guarantee<NoAlias | EqualSizes>(f(X, Y)); expect_same("t+=guarantee<NoAlias|EqualSizes>(" + nm + ")", T, e, 0); }
  { alignas(32) double buf[40]; for (unsigned k = 0; k < d * d; k++) buf[k] = a[k];
    SU_vector v1(d, buf), v2(d, buf); v1 = guarantee<EqualSizes>(f(v2, b)); expect_same("view=guarantee<EqualSizes>(" + nm + " of view)", v1, r, 0); }
}

template <class F> static void range_exact(const std::string& what, const SU_vector& a, F f) {
  double amax = 0;
  for (unsigned k = 0; k < a.Size(); k++) amax = std::max(amax, std::fabs(a[k]));
  if (!(amax > 0)) return;
  SU_vector fa = f(a);
  for (int e2 : {1023 - std::ilogb(amax), -1000}) {
    SU_vector as(a.Dim());
    for (unsigned k = 0; k < a.Size(); k++) as[k] = std::ldexp(a[k], e2);      // exact: largest component lands in [2^1023, 2^1024)  (2^e2 itself may not be a double)
    SU_vector fs = f(as);
    for (unsigned k = 0; k < a.Size(); k++)
      if (!(fs[k] == std::ldexp(fa[k], e2))) { mismatch(what + (e2 > 0 ? ":near-DBL_MAX" : ":2^-1000") + ":comp" + std::to_string(k), std::fabs(fs[k] - std::ldexp(fa[k], e2)), 0); break; }
  }
}

static void set_params(Const& params, int d, const std::vector<long>& h) {
  // h = th[1..np] ++ ph[1..np] in the pair order (0,1),(0,2),(1,2),(0,3),...
  int np = d * (d - 1) / 2, q = 0;
  for (int j = 1; j < d; j++)
    for (int i = 0; i < j; i++) {
      params.SetMixingAngle(i, j, h[q] * M_PI / 4);
      params.SetPhase(i, j, h[np + q] * M_PI / 4);
      q++;
    }
}

int main(int argc, char** argv) {
  if (argc > 1) TOLF = atof(argv[1]);
  g_in_main = 1; install_crash_handler();
  std::ios::sync_with_stdio(false);
  long ncases = 0;
  std::string op;
  long idx;
  while (std::cin >> idx >> op) {
    int d; long p[4]; int nh;
    std::cin >> d >> p[0] >> p[1] >> p[2] >> p[3] >> nh;
    std::vector<long> h(nh);
    for (int i = 0; i < nh; i++) std::cin >> h[i];
    Mat A, B, R;
    if (!read_mat(std::cin, d, A) || !read_mat(std::cin, d, B) || !read_mat(std::cin, d, R)) { printf("BADINPUT %ld\n", idx); return 2; }
    long s5[5];
    for (int i = 0; i < 5; i++) std::cin >> s5[i];
    cd sexp = exact_scalar(s5[0], s5[1], s5[2], s5[3], s5[4]);
    ncases++;
    cur_idx = idx; cur_op = op; g_crash_idx = idx;
    try {
      if (idx % 2 == 1) { int dp = ((idx / 2) % 2 == 0) ? (d == 6 ? 5 : 6) : (d == 2 ? 3 : 2); pollute(dp); }
      std::vector<double> ca = comps_from_matrix(A), cb = comps_from_matrix(B);
      double SA = norm1(ca), SB = norm1(cb);
      SU_vector a = vec_from_comps(ca, d), b = vec_from_comps(cb, d);
      if (op == "projector" || op == "identity" || op == "generator" || op == "posproj" || op == "negproj") {
        // a factory returns an independent vector every time: modifying one result must not change the next one
        auto make = [&]() -> SU_vector {
          if (op == "projector") return SU_vector::Projector(d, p[0]);
          if (op == "identity") return SU_vector::Identity(d);
          if (op == "generator") return SU_vector::Generator(d, p[0]);
          if (op == "posproj") return SU_vector::PosProjector(d, p[0]);
          return SU_vector::NegProjector(d, p[0]);
        };
        SU_vector first = make();
        SU_vector keep = first;            // copy
        first *= 2.0; first[0] += 1.0;     // scribble over the first result
        SU_vector moved = make(); moved = make(); moved *= 3.0;
        SU_vector second = make();
        expect_same("factory-result-independent", second, keep, 0);
        auto it = g_static_factories.t.find(StaticFactories::key(op, d, op == "identity" ? 0 : p[0]));
        if (it != g_static_factories.t.end()) expect_same("factory-during-static-initialization", it->second, keep, 0);
      }
      if (op == "tomatrix") {
        auto m = a.GetGSLMatrix();
        expect_gsl("GetGSLMatrix", m.get(), A, SA);
        for (int i = 0; i < d; i++)            // the produced matrix is Hermitian, exactly
          for (int j = 0; j < d; j++) {
            gsl_complex x = gsl_matrix_complex_get(m.get(), i, j), y = gsl_matrix_complex_get(m.get(), j, i);
            if (GSL_REAL(x) != GSL_REAL(y) || GSL_IMAG(x) != -GSL_IMAG(y)) { mismatch("hermitian", 1, 0); i = d; break; }
          }
        SU_vector back(m.get());
        expect_same("matrix-roundtrip", back, a, TOLF * EPS * (SA > 0 ? SA : 1));
        auto ga = gsl_from(A);
        SU_vector fromM(ga.get());
        expect_vec("from-matrix", fromM, A, mnorm1(A));
        { // a Hermitian matrix passed as a VIEW into a larger matrix (row stride tda != size2) is the same matrix
          gsl_matrix_complex* big = gsl_matrix_complex_alloc(d + 3, d + 2);
          for (size_t i = 0; i < big->size1; i++) for (size_t j = 0; j < big->size2; j++) gsl_matrix_complex_set(big, i, j, gsl_complex_rect(100.0 + i, -50.0 - j));
          gsl_matrix_complex_view vw = gsl_matrix_complex_submatrix(big, 2, 1, d, d);
          for (int i = 0; i < d; i++) for (int j = 0; j < d; j++) gsl_matrix_complex_set(&vw.matrix, i, j, gsl_complex_rect(A(i, j).real(), A(i, j).imag()));
          SU_vector fromV(&vw.matrix);
          expect_same("from-matrix-view", fromV, fromM, 0);
          SU_vector av = a; gsl_matrix_complex_view vw2 = gsl_matrix_complex_submatrix(big, 1, 0, d, d);
          av.GetGSLMatrix(&vw2.matrix);
          for (int i = 0; i < d; i++) for (int j = 0; j < d; j++) {
            gsl_complex x = gsl_matrix_complex_get(&vw2.matrix, i, j), y = gsl_matrix_complex_get(m.get(), i, j);
            if (GSL_REAL(x) != GSL_REAL(y) || GSL_IMAG(x) != GSL_IMAG(y)) { mismatch("GetGSLMatrix(view)", 1, 0); i = d; break; } }
          gsl_matrix_complex_free(big);
        }
        SU_vector lst(a.GetComponents());
        if (!(lst == a)) mismatch("list-roundtrip", 1, 0);
        for (int k = 0; k < d * d; k++) if (lst[k] != a[k]) { mismatch("list-roundtrip-bits", 1, 0); break; }
        // huge / tiny magnitudes: scaling by a power of two commutes exactly with both conversions
        for (int e2 : {300, -300}) {
          double sc = std::ldexp(1.0, e2);
          SU_vector as = a * sc;
          auto ms = as.GetGSLMatrix();
          bool same = true;
          for (int i = 0; i < d && same; i++)
            for (int j = 0; j < d; j++) {
              gsl_complex x = gsl_matrix_complex_get(m.get(), i, j), y = gsl_matrix_complex_get(ms.get(), i, j);
              if (GSL_REAL(x) * sc != GSL_REAL(y) || GSL_IMAG(x) * sc != GSL_IMAG(y)) { same = false; break; }
            }
          if (!same) mismatch(std::string("scaled-tomatrix:2^") + std::to_string(e2), 1, 0);
          SU_vector bs(ms.get());
          for (int k = 0; k < d * d; k++) if (bs[k] != back[k] * sc) { mismatch(std::string("scaled-frommatrix:2^") + std::to_string(e2), 1, 0); break; }
        }
        gsl_matrix_complex* m2 = gsl_matrix_complex_alloc(d, d);
        a.GetGSLMatrix(m2);
        expect_gsl("GetGSLMatrix(m)", m2, A, SA);
        gsl_matrix_complex_free(m2);
      } else if (op == "neg") {
        SU_vector r = -a;
        expect_vec("-a", r, R, SA);
        { SU_vector c1 = a; SU_vector r3 = -SU_vector(a), r4 = -std::move(c1), r5 = -(a + a), aa = a + a, e5 = -aa;
          expect_same("-rvalue", r3, r, 0); expect_same("-move(a)", r4, r, 0); expect_same("-(a+a)", r5, e5, 0); }
        for (int k = 0; k < d * d; k++) if (r[k] != -a[k]) { mismatch("-a:bits", 1, 0); break; }
        SU_vector r2; r2 = -a; expect_same("assign(-a)", r2, r, 0);
        range_exact("-a", a, [](const SU_vector& v) { return SU_vector(-v); });
      } else if (op == "scale") {
        double x = (double)p[0];
        { SU_vector c1 = a, c2 = a; SU_vector q1 = SU_vector(a) * x, q2 = x * SU_vector(a), q3 = std::move(c1) * x, q4 = x * std::move(c2), q0 = a * x;
          expect_same("rvalue*x", q1, q0, 0); expect_same("x*rvalue", q2, q0, 0); expect_same("move(a)*x", q3, q0, 0); expect_same("x*move(a)", q4, q0, 0); }
        SU_vector r = a * x, r2 = x * a, r3 = a; r3 *= x;
        expect_vec("a*x", r, R, SA * std::fabs(x));
        expect_same("x*a", r2, r, 0); expect_same("a*=x", r3, r, 0);
        for (int k = 0; k < d * d; k++) if (r[k] != a[k] * x) { mismatch("a*x:bits", 1, 0); break; }
        { // the scalar is passed by value: it may be one of the vector's own components
          for (int k : {0, 1, d * d - 1}) {
            SU_vector s1 = a; s1[k] = 1.5; double f = s1[k]; SU_vector e1 = s1 * f; s1 *= s1[k]; expect_same("v*=v[k]", s1, e1, 0);
            SU_vector s2 = a; s2[k] = 1.5; SU_vector e2 = s2; e2 /= 1.5; s2 /= s2[k]; expect_same("v/=v[k]", s2, e2, 0);
            alignas(32) double ub[40]; for (int q = 0; q < d * d; q++) ub[q] = a[q]; ub[k] = 2.5;
            SU_vector s3(d, ub); SU_vector e3 = SU_vector(s3) * 2.5; s3 *= ub[k]; expect_same("view*=buffer[k]", s3, e3, 0);
          }
        }
      } else if (op == "div") {
        double x = (double)p[0];
        SU_vector r = a; r /= x;
        expect_vec("a/=x", r, R, SA / std::fabs(x));
        for (int k = 0; k < d * d; k++) if (r[k] != a[k] / x) { mismatch("a/=x:bits", 1, 0); break; }
      } else if (op == "transpose") {
        SU_vector r = a; r.Transpose();
        expect_vec("Transpose", r, R, SA);
        range_exact("Transpose", a, [](const SU_vector& v) { SU_vector t = v; t.Transpose(); return t; });
      } else if (op == "real") {
        SU_vector r = a.Real(); expect_vec("Real", r, R, SA);
        range_exact("Real", a, [](const SU_vector& v) { return v.Real(); });
      } else if (op == "imag") {
        SU_vector r = a.Imag(); expect_vec("Imag", r, R, SA);
        range_exact("Imag", a, [](const SU_vector& v) { return v.Imag(); });
        SU_vector sum = a.Real() + a.Imag(); expect_same("Real+Imag", sum, a, 0);
      } else if (op == "add") {
        SU_vector r = a + b, r2 = a; r2 += b;
        expect_vec("a+b", r, R, SA + SB); expect_same("a+=b", r2, r, 0);
        { // every value category of the operands (temporaries and moved-from copies)
          SU_vector c1 = a, c2 = b, c3 = a, c4 = b;
          SU_vector r3 = SU_vector(a) + b, r4 = a + SU_vector(b), r5 = SU_vector(a) + SU_vector(b), r6 = std::move(c1) + b, r7 = a + std::move(c2), r8 = std::move(c3) + std::move(c4);
          expect_same("rvalue+b", r3, r, 0); expect_same("a+rvalue", r4, r, 0); expect_same("rvalue+rvalue", r5, r, 0);
          expect_same("move(a)+b", r6, r, 0); expect_same("a+move(b)", r7, r, 0); expect_same("move(a)+move(b)", r8, r, 0);
          SU_vector r9 = (a + b) + b, r10 = a + (b + b), e9 = r + b; expect_same("(a+b)+b", r9, e9, 0);
          SU_vector bb = b + b, e10 = a + bb; expect_same("a+(b+b)", r10, e10, 0);
          // arithmetic on expression objects (proxy of proxy): same value as evaluating the inner expression first
          SU_vector p1 = (a + b) * 2.0, e1 = r * 2.0; expect_same("(a+b)*2", p1, e1, 0);
          SU_vector p2 = -(a + b), e2 = -r; expect_same("-(a+b)", p2, e2, 0);
          SU_vector p3 = (a + b) - (a - b), amb = a - b, e3 = r - amb; expect_same("(a+b)-(a-b)", p3, e3, 0);
          SU_vector p4 = (a + b) + (a - b), e4 = r + amb; expect_same("(a+b)+(a-b)", p4, e4, 0);
          double dp = (a + b) * (a - b), de = r * amb; if (dp != de) mismatch("(a+b)*(a-b) scalar product", std::fabs(dp - de), 0);
          SU_vector hh(d); for (int l = 1; l < d; l++) hh[d * l + l] = 0.25 * l;
          SU_vector p5 = (a + b).Evolve(hh, 0.7), e5 = r.Evolve(hh, 0.7); expect_same("(a+b).Evolve(H,t)", p5, e5, 0);
          // printing lists the components in order
          { std::ostringstream os; os << r; std::istringstream is(os.str()); std::ostringstream ref; for (int k = 0; k < d * d; k++) ref << (k ? "  " : "") << r[k];
            if (os.str() != ref.str()) mismatch("operator<<", 1, 0); }
        }
        for (int k = 0; k < d * d; k++) if (r[k] != a[k] + b[k]) { mismatch("a+b:bits", 1, 0); break; }
      } else if (op == "sub") {
        SU_vector r = a - b, r2 = a; r2 -= b;
        expect_vec("a-b", r, R, SA + SB); expect_same("a-=b", r2, r, 0);
        { // every value category of the operands
          SU_vector c1 = a, c2 = b, c3 = a, c4 = b;
          SU_vector r3 = SU_vector(a) - b, r4 = a - SU_vector(b), r5 = SU_vector(a) - SU_vector(b), r6 = std::move(c1) - b, r7 = a - std::move(c2), r8 = std::move(c3) - std::move(c4);
          expect_same("rvalue-b", r3, r, 0); expect_same("a-rvalue", r4, r, 0); expect_same("rvalue-rvalue", r5, r, 0);
          expect_same("move(a)-b", r6, r, 0); expect_same("a-move(b)", r7, r, 0); expect_same("move(a)-move(b)", r8, r, 0);
          SU_vector bb = b + b, r9 = a - (b + b), e9 = a - bb; expect_same("a-(b+b)", r9, e9, 0);
          SU_vector r10 = a - (2.0 * b), tb = 2.0 * b, e10 = a - tb; expect_same("a-(2*b)", r10, e10, 0);
          SU_vector r11 = (a + b) - b, ab = a + b, e11 = ab - b; expect_same("(a+b)-b", r11, e11, 0);
        }
        for (int k = 0; k < d * d; k++) if (r[k] != a[k] - b[k]) { mismatch("a-b:bits", 1, 0); break; }
      } else if (op == "eq") {
        bool e = (a == b);
        if (e != (p[0] == 1)) mismatch("operator==", e, p[0]);
        if (!(a == a)) mismatch("a==a", 0, 1);
        // vectors of another dimension never compare equal
        SU_vector o(d == 6 ? 5 : d + 1);
        if (a == o || o == a) mismatch("==otherdim", 1, 0);
        // numerically equal components compare equal whatever their bit pattern: -0.0 == +0.0
        { SU_vector z = a, z2 = a; bool any0 = false;
          for (int k = 0; k < d * d; k++) if (z[k] == 0.0) { z[k] = -0.0; z2[k] = 0.0; any0 = true; }
          if (!(z == z2) || !(z2 == z)) mismatch("==signed-zero", 1, 0);
          SU_vector m = -(a - a), zero(d); if (!(m == zero)) mismatch("==-(a-a)", 1, 0);
          (void)any0; }
        // one differing slot
        for (int k = 0; k < d * d; k++) { SU_vector c = a; c[k] += 1.0; if (c == a) { mismatch("==oneslot" + std::to_string(k), 1, 0); break; } }
        // equality speaks of dimension and components only: who owns the storage plays no part (every pairing, both orders)
        { alignas(32) double ua[40], ub[40], uc[40]; for (int k = 0; k < d * d; k++) { ua[k] = a[k]; ub[k] = b[k]; uc[k] = a[k]; }
          SU_vector va(d, ua), vb(d, ub), vc(d, uc), sa(d), sb; sa.SetBackingStore(ua); sb = a;
          bool want = (p[0] == 1);
          if ((a == vb) != want || (va == b) != want || (va == vb) != want || (vb == a) != want || (b == va) != want || (vb == va) != want) mismatch("== between owned and external storage (a,b)", 1, 0);
          if (!(a == va) || !(va == a) || !(va == vc) || !(vc == va) || !(va == sa) || !(sa == va) || !(a == sa) || !(sa == a) || !(sb == va) || !(va == sb)) mismatch("== between owned and external storage (equal values)", 0, 1);
          for (int k : {0, d * d - 1}) { uc[k] += 1.0; if (a == vc || vc == a || va == vc || vc == va) mismatch("== between owned and external storage (one slot differs)", 1, 0); uc[k] -= 1.0; }
          SU_vector o2(d == 6 ? 5 : d + 1); alignas(32) double uo[40] = {0}; SU_vector vo(d == 6 ? 5 : d + 1, uo);
          if (a == vo || vo == a || va == o2 || o2 == va || va == vo || vo == va) mismatch("==otherdim between owned and external storage", 1, 0); }
      } else if (op == "icom") {
        SU_vector r = iCommutator(a, b);
        expect_vec("iCommutator", r, R, SA * SB);
        SU_vector r2(d); r2 = iCommutator(a, b); expect_same("assign(iCommutator)", r2, r, 0);
        { SU_vector r3 = b; for (int q = 0; q < d * d; q++) r3[q] += 0.75 + q; r3 = iCommutator(a, b); expect_same("assign(iCommutator) over a vector holding other values", r3, r, 0);
          SU_vector r4(d == 6 ? 3 : d + 1); for (unsigned q = 0; q < r4.Size(); q++) r4[q] = 3.25 + q; r4 = iCommutator(a, b); expect_same("assign(iCommutator) resizing", r4, r, 0);
          { SU_vector junk(d); for (int q = 0; q < d * d; q++) junk[q] = -7.5 - q; }       // a released block full of other values ...
          SU_vector r5 = iCommutator(a, b); expect_same("construct(iCommutator) on a recycled block", r5, r, 0); }
        { // accumulated into a vector that already holds something (identity component included): x (+-)= f(a,b) is x (+-) f(a,b)
          SU_vector x0 = b; x0[0] += 0.75;
          SU_vector x = x0; x += iCommutator(a, b); SU_vector e = x0 + r; expect_same("x+=iCommutator(a,b)", x, e, 0);
          SU_vector y = x0; y -= iCommutator(a, b); SU_vector e2 = x0 - r; expect_same("x-=iCommutator(a,b)", y, e2, 0);
          // ... also when the accumulator is itself an operand
          SU_vector p1 = a; p1 += iCommutator(p1, b); SU_vector ep1 = a + r; expect_same("a+=iCommutator(a,b)", p1, ep1, 0);
          SU_vector p2 = a; p2 -= iCommutator(p2, b); SU_vector ep2 = a - r; expect_same("a-=iCommutator(a,b)", p2, ep2, 0);
          SU_vector p3 = b; p3 -= iCommutator(a, p3); SU_vector ep3 = b - r; expect_same("b-=iCommutator(a,b)", p3, ep3, 0); }
        for (int e2 : {-60, 200}) {   // exact homogeneity under power-of-two scaling (tiny and huge operands)
          double sc = std::ldexp(1.0, e2);
          SU_vector as = a * sc, bs = b * sc, rs = iCommutator(as, bs), es = r * (sc * sc);
          expect_same(std::string("iCommutator scaled by 2^") + std::to_string(e2), rs, es, 0);
        }
        { // the result may be stored over an operand (same object, or another vector viewing the same user buffer)
          SU_vector x = a; x = iCommutator(x, b); expect_same("a=iCommutator(a,b)", x, r, 0);
          SU_vector y = b; y = iCommutator(a, y); expect_same("b=iCommutator(a,b)", y, r, 0);
          alignas(32) double buf[40]; for (int k = 0; k < d * d; k++) buf[k] = a[k];
          SU_vector v1(d, buf), v2(d, buf); v1 = iCommutator(v2, b); expect_same("view=iCommutator(view,b)", v1, r, 0);
          for (int k = 0; k < d * d; k++) buf[k] = b[k];
          SU_vector w1(d, buf), w2(d, buf); w1 = iCommutator(a, w2); expect_same("view=iCommutator(a,view)", w1, r, 0);
          SU_vector own1 = a; SU_vector vw1(d, &own1[0]); own1 = iCommutator(vw1, b); expect_same("owner=iCommutator(viewOfOwner,b)", own1, r, 0);
          SU_vector own2 = b; SU_vector vw2(d, &own2[0]); vw2 = iCommutator(a, own2); expect_same("viewOfOwner=iCommutator(a,owner)", own2, r, 0);
        }
        guarantee_forms("iCommutator(a,b)", d, a, b, r, [](const SU_vector& x, const SU_vector& y) { return iCommutator(x, y); });
      } else if (op == "acom") {
        SU_vector r = ACommutator(a, b);
        expect_vec("ACommutator", r, R, SA * SB);
        SU_vector r2(d); r2 = ACommutator(a, b); expect_same("assign(ACommutator)", r2, r, 0);
        { SU_vector r3 = b; for (int q = 0; q < d * d; q++) r3[q] += 0.75 + q; r3 = ACommutator(a, b); expect_same("assign(ACommutator) over a vector holding other values", r3, r, 0);
          SU_vector r4(d == 6 ? 3 : d + 1); for (unsigned q = 0; q < r4.Size(); q++) r4[q] = 3.25 + q; r4 = ACommutator(a, b); expect_same("assign(ACommutator) resizing", r4, r, 0);
          { SU_vector junk(d); for (int q = 0; q < d * d; q++) junk[q] = -7.5 - q; }       // a released block full of other values ...
          SU_vector r5 = ACommutator(a, b); expect_same("construct(ACommutator) on a recycled block", r5, r, 0); }
        { // accumulated into a vector that already holds something (identity component included): x (+-)= f(a,b) is x (+-) f(a,b)
          SU_vector x0 = b; x0[0] += 0.75;
          SU_vector x = x0; x += ACommutator(a, b); SU_vector e = x0 + r; expect_same("x+=ACommutator(a,b)", x, e, 0);
          SU_vector y = x0; y -= ACommutator(a, b); SU_vector e2 = x0 - r; expect_same("x-=ACommutator(a,b)", y, e2, 0);
          // ... also when the accumulator is itself an operand
          SU_vector p1 = a; p1 += ACommutator(p1, b); SU_vector ep1 = a + r; expect_same("a+=ACommutator(a,b)", p1, ep1, 0);
          SU_vector p2 = a; p2 -= ACommutator(p2, b); SU_vector ep2 = a - r; expect_same("a-=ACommutator(a,b)", p2, ep2, 0);
          SU_vector p3 = b; p3 -= ACommutator(a, p3); SU_vector ep3 = b - r; expect_same("b-=ACommutator(a,b)", p3, ep3, 0); }
        for (int e2 : {-60, 200}) {
          double sc = std::ldexp(1.0, e2);
          SU_vector as = a * sc, bs = b * sc, rs = ACommutator(as, bs), es = r * (sc * sc);
          expect_same(std::string("ACommutator scaled by 2^") + std::to_string(e2), rs, es, 0);
        }
        { SU_vector x = a; x = ACommutator(x, b); expect_same("a=ACommutator(a,b)", x, r, 0);
          SU_vector y = b; y = ACommutator(a, y); expect_same("b=ACommutator(a,b)", y, r, 0);
          alignas(32) double buf[40]; for (int k = 0; k < d * d; k++) buf[k] = a[k];
          SU_vector v1(d, buf), v2(d, buf); v1 = ACommutator(v2, b); expect_same("view=ACommutator(view,b)", v1, r, 0);
          SU_vector own1 = a; SU_vector vw1(d, &own1[0]); own1 = ACommutator(vw1, b); expect_same("owner=ACommutator(viewOfOwner,b)", own1, r, 0);
          SU_vector own2 = b; SU_vector vw2(d, &own2[0]); vw2 = ACommutator(a, own2); expect_same("viewOfOwner=ACommutator(a,owner)", own2, r, 0); }
        guarantee_forms("ACommutator(a,b)", d, a, b, r, [](const SU_vector& x, const SU_vector& y) { return ACommutator(x, y); });
      } else if (op == "trace") {
        double t1 = a * b, t2 = SUTrace(a, b);
        double S = SA * SB * d, tol = TOLF * EPS * (S > 0 ? S : 1);
        if (!(std::fabs(t1 - sexp.real()) <= tol)) mismatch("a*b", std::fabs(t1 - sexp.real()), tol);
        if (t1 != t2) mismatch("SUTrace!=operator*", std::fabs(t1 - t2), 0);
        // rounding is proportional to |A||B|: scaling both operands by powers of two scales the result exactly
        for (int e2 : {-60, 200}) {
          double sc = std::ldexp(1.0, e2);
          SU_vector as = a * sc, bs = b * sc;
          double ts = as * bs;
          if (ts != t1 * sc * sc) { mismatch(std::string("a*b scaled by 2^") + std::to_string(e2), std::fabs(ts - t1 * sc * sc), 0); break; }
        }
        if (S > 0 && std::fabs(t1 - sexp.real()) / S > maxrel) maxrel = std::fabs(t1 - sexp.real()) / S;
      } else if (op == "evolve") {
        Mat Hm(d); long hmax = 0, hmin = 0;
        for (int i = 0; i < d; i++) { Hm(i, i) = (double)h[i]; if (h[i] > hmax) hmax = h[i]; if (h[i] < hmin) hmin = h[i]; }
        SU_vector H = vec_from_matrix(Hm);
        double t = p[0] * M_PI / 4;
        double S = SA * std::max(1.0, std::fabs(t) * (hmax - hmin + 1) * 4);
        SU_vector r = a.Evolve(H, t);
        expect_vec("Evolve(H,t)", r, R, S);
        SU_vector r2(d); r2 = a.Evolve(H, t); expect_same("assign(Evolve)", r2, r, 0);
        { SU_vector x = a; x = x.Evolve(H, t); expect_same("a=a.Evolve(H,t)", x, r, 0);
          alignas(32) double buf[40]; for (int k = 0; k < d * d; k++) buf[k] = a[k];
          SU_vector v1(d, buf), v2(d, buf); v1 = v2.Evolve(H, t); expect_same("view=view.Evolve(H,t)", v1, r, 0); }
        { // a vector that owns its storage and a second vector viewing that very storage (SU_vector(d, &owner[0])): either may be the target
          SU_vector own1 = a; SU_vector vw1(d, &own1[0]); own1 = vw1.Evolve(H, t); expect_same("owner=viewOfOwner.Evolve(H,t)", own1, r, 0);
          SU_vector own2 = a; SU_vector vw2(d, &own2[0]); vw2 = own2.Evolve(H, t); expect_same("viewOfOwner=owner.Evolve(H,t)", own2, r, 0);
          SU_vector own3 = H; SU_vector vw3(d, &own3[0]); own3 = a.Evolve(vw3, t); expect_same("ownerOfH=a.Evolve(viewOfH,t)", own3, r, 0); }
        guarantee_forms("a.Evolve(H,t)", d, a, H, r, [t](const SU_vector& x, const SU_vector& y) { return x.Evolve(y, t); });
        { // the same evolution reached through unevaluated expressions on either side, and through the unitary transformation
          SU_vector z(d);                                        // zero: a+z and H+z are expressions with the values of a and H
          SU_vector e1 = (a + z).Evolve(H, t), e2 = (a + z).Evolve(H + z, t), e3 = a.Evolve(H + z, t), e4 = (a * 1.0).Evolve(H * 1.0, t);
          expect_same("(a+0).Evolve(H,t)", e1, r, 0); expect_same("(a+0).Evolve(H+0,t)", e2, r, 0);
          expect_same("a.Evolve(H+0,t)", e3, r, 0); expect_same("(a*1).Evolve(H*1,t)", e4, r, 0);
          SU_vector e5 = a.Evolve(H, t * 0.5).Evolve(H, t * 0.5); expect_same("a.Evolve(H,t/2).Evolve(H,t/2)", e5, r, 64 * EPS * S);
          // UTransform(v,s) = e^{sv} a e^{-sv} (as coded: U = exp(s v), result U a U^dagger), so s = -i t gives the evolution e^{-itH} a e^{itH};
          // the generator goes through the matrix exponential (its diagonal shortcut for this H)
          SU_vector u1 = a.UTransform(H, gsl_complex_rect(0, -t)); expect_same("a.UTransform(H,-i t)", u1, r, 1024 * EPS * S);
          // and for a generator that is not diagonal: the same as exponentiating its matrix first
          SU_vector G = a.Real() * 0.125 + H; auto gm = G.GetGSLMatrix();
          gsl_matrix_complex_scale(gm.get(), gsl_complex_rect(0, 0.5));
          gsl_matrix_complex* E = gsl_matrix_complex_alloc(d, d);
          math_detail::matrix_exponential(E, gm.get());
          SU_vector u2 = a.UTransform(G, gsl_complex_rect(0, 0.5)), u3 = a.UTransform(E);
          gsl_matrix_complex_free(E);
          expect_same("a.UTransform(G,s)=a.UTransform(exp(sG))", u2, u3, 1e-9 * (SA > 0 ? SA : 1)); }
        std::vector<double> buf(H.GetEvolveBufferSize());
        H.PrepareEvolve(buf.data(), t);
        SU_vector r3 = a.Evolve(buf.data());
        expect_vec("Evolve(buffer)", r3, R, S);
        { SU_vector own1 = a; SU_vector vw1(d, &own1[0]); own1 = vw1.Evolve(buf.data()); expect_same("owner=viewOfOwner.Evolve(buffer)", own1, r3, 0);
          SU_vector own2 = a; SU_vector vw2(d, &own2[0]); vw2 = own2.Evolve(buf.data()); expect_same("viewOfOwner=owner.Evolve(buffer)", own2, r3, 0);
          SU_vector own4 = a; SU_vector vw4(d, &own4[0]); vw4 += own4.Evolve(buf.data()); SU_vector e4 = a + r3; expect_same("viewOfOwner+=owner.Evolve(buffer)", own4, e4, 0); }
        expect_same("fast-vs-direct", r3, r, 8 * EPS * (SA > 0 ? SA : 1));
        { // generic (non-commensurate) level spacings and a generic time: entry (r,c) picks up exp(i t (E_r - E_c)), as in EvolveM
          Mat Hg(d); std::vector<double> Eg(d);
          for (int q = 0; q < d; q++) { Eg[q] = 0.731 * q * q - 1.377 * q + 0.113 * ((p[0] + 40000) % 7) + (q == 2 ? 0.0419 : 0.0); Hg(q, q) = Eg[q]; }
          SU_vector HG = vec_from_matrix(Hg);
          double tg = 1.2345 + 0.777 * ((p[0] + 40000) % 5) - 2.0;
          Mat Eexp(d);
          for (int r1 = 0; r1 < d; r1++) for (int c1 = 0; c1 < d; c1++) Eexp(r1, c1) = A(r1, c1) * std::exp(cd(0, tg * (Eg[r1] - Eg[c1])));      // SUAlgebra!EvolveM: exp(iHt) a exp(-iHt)
          SU_vector rg = a.Evolve(HG, tg);
          double Sg = SA * std::max(1.0, std::fabs(tg) * 20.0);
          expect_vec("Evolve(generic H, generic t)", rg, Eexp, Sg);
          std::vector<double> bg(HG.GetEvolveBufferSize()); HG.PrepareEvolve(bg.data(), tg);
          SU_vector rg2 = a.Evolve(bg.data()); expect_vec("Evolve(buffer) generic", rg2, Eexp, Sg);
        }
        { // relational clauses on times OFF the pi/4 lattice (no oracle needed): group law, t=0 identity, scalar products
          double t1 = 0.37 + 0.011 * p[1], t2 = -1.23 + 0.007 * p[0];
          SU_vector e1 = a.Evolve(H, t1), e12 = e1.Evolve(H, t2), e3 = a.Evolve(H, t1 + t2), e0 = a.Evolve(H, 0.0);
          double rt = 64 * EPS * (SA > 0 ? SA : 1) * std::max(1.0, (std::fabs(t1) + std::fabs(t2)) * (hmax - hmin + 1) * 4);
          expect_same("group-law(generic t)", e12, e3, rt);
          expect_same("t=0 identity", e0, a, 0);
          SU_vector w = a.Real() * 0.5 + a, we = w.Evolve(H, t1);
          double sp0 = a * w, sp1 = e1 * we;
          if (!(std::fabs(sp0 - sp1) <= 256 * EPS * std::max(1.0, SA * norm1(std::vector<double>(&w[0], &w[0] + w.Size())) * d)))
            mismatch("scalar-product(generic t)", std::fabs(sp0 - sp1), 0);
        }
      } else if (op == "rotate") {
        SU_vector r = a.Rotate((unsigned)p[0], (unsigned)p[1], p[2] * M_PI / 4, p[3] * M_PI / 4);
        expect_vec("Rotate(i,j,th,del)", r, R, SA * 4);
        if (idx % 3 == 0) {
          // OFF the pi/4 lattice: the specification's definition R^dagger A R (RotM) evaluated in floating point for generic angles
          // (negative, beyond 2 pi, no special relation between theta and delta), for EVERY index pair of this dimension
          for (int jj = 1; jj < d; jj++) for (int ii = 0; ii < jj; ii++) {
            double th = -3.1 + 0.617 * ((idx / 3 + 5 * ii + 3 * jj) % 17), de = 2.9 - 0.433 * ((idx / 3 + 2 * ii + 7 * jj) % 19);
            Mat Rm(d); for (int q = 0; q < d; q++) Rm(q, q) = 1;
            Rm(ii, ii) = Rm(jj, jj) = std::cos(th); Rm(ii, jj) = std::sin(th) * std::exp(cd(0, -de)); Rm(jj, ii) = -std::sin(th) * std::exp(cd(0, de));
            Mat E(d);
            for (int r1 = 0; r1 < d; r1++) for (int c1 = 0; c1 < d; c1++) { cd sum = 0;
              for (int x = 0; x < d; x++) for (int y = 0; y < d; y++) sum += std::conj(Rm(x, r1)) * A(x, y) * Rm(y, c1);
              E(r1, c1) = sum; }
            SU_vector rg = a.Rotate((unsigned)ii, (unsigned)jj, th, de);
            expect_vec("Rotate(i,j,generic th,del) ij=" + std::to_string(ii) + std::to_string(jj), rg, E, SA * 4);
          }
        }
      } else if (op == "tob1" || op == "tob0") {
        Const params; set_params(params, d, h);
        SU_vector r = a;
        if (op == "tob1") r.RotateToB1(params); else r.RotateToB0(params);
        expect_vec(op == "tob1" ? "RotateToB1" : "RotateToB0", r, R, SA * 16);
        auto U = params.GetTransformationMatrix(d);
        // the same unitary handed over as a view into a larger matrix (tda != size2)
        gsl_matrix_complex* bigU = gsl_matrix_complex_alloc(d + 2, d + 3);
        for (size_t i = 0; i < bigU->size1; i++) for (size_t j = 0; j < bigU->size2; j++) gsl_matrix_complex_set(bigU, i, j, gsl_complex_rect(3.0 + i, 7.0 - j));
        gsl_matrix_complex_view Uv = gsl_matrix_complex_submatrix(bigU, 1, 2, d, d);
        gsl_matrix_complex_memcpy(&Uv.matrix, U.get());
        if (op == "tob1") {
          SU_vector r2 = a.Rotate(U.get()); expect_vec("Rotate(U)", r2, R, SA * 16);
          SU_vector r3 = a.UTransform(U.get()); expect_vec("UTransform(U)", r3, R, SA * 16);
          SU_vector r4 = a.Rotate(&Uv.matrix); expect_same("Rotate(U view)", r4, r2, 0);
          SU_vector r5 = a.UTransform(&Uv.matrix); expect_same("UTransform(U view)", r5, r3, 0);
        } else {
          SU_vector r3 = a.UDaggerTransform(U.get()); expect_vec("UDaggerTransform(U)", r3, R, SA * 16);
          SU_vector r5 = a.UDaggerTransform(&Uv.matrix); expect_same("UDaggerTransform(U view)", r5, r3, 0);
        }
        gsl_matrix_complex_free(bigU);
        if (idx % 3 == 0) {   // generic mixing angles and phases on every pair: the kernels' route and the matrix route agree, and B0 undoes B1
          Const gp;
          for (int jj = 1; jj < d; jj++) for (int ii = 0; ii < jj; ii++) { gp.SetMixingAngle(ii, jj, -2.3 + 0.377 * ((idx + 3 * ii + jj) % 23)); gp.SetPhase(ii, jj, 1.7 - 0.291 * ((idx + ii + 5 * jj) % 29)); }
          SU_vector g1 = a; g1.RotateToB1(gp);
          auto GU = gp.GetTransformationMatrix(d);
          SU_vector g2 = a.Rotate(GU.get());
          expect_same("RotateToB1(generic)=Rotate(U)", g1, g2, 4096 * EPS * (SA > 0 ? SA : 1));
          SU_vector g3 = g1; g3.RotateToB0(gp);
          expect_same("RotateToB0(RotateToB1(a))=a (generic)", g3, a, 4096 * EPS * (SA > 0 ? SA : 1));
          SU_vector g4 = a; g4.RotateToB0(gp); SU_vector g5 = a.UDaggerTransform(GU.get());
          expect_same("RotateToB0(generic)=UDaggerTransform(U)", g4, g5, 4096 * EPS * (SA > 0 ? SA : 1));
        }
        // identity component and scalar products are preserved
        if (!(std::fabs(r[0] - a[0]) <= TOLF * EPS * (SA > 0 ? SA : 1))) mismatch("identity-component", std::fabs(r[0] - a[0]), 0);
      } else if (op == "wrot") {
        int np = d * (d - 1) / 2;
        std::vector<long> hv(h.begin(), h.begin() + 2 * np), hw(h.begin() + 2 * np, h.begin() + 4 * np);
        Const pv, pw; set_params(pv, d, hv); set_params(pw, d, hw);
        Mat Ym(d); for (int i = 0; i < d; i++) Ym(i, i) = (double)h[4 * np + i];
        SU_vector Y = vec_from_matrix(Ym);
        double SY = 0; for (int i = 0; i < d; i++) SY = std::max(SY, std::fabs((double)h[4 * np + i]));
        double S = SA * 64 * std::max(1.0, SY * SY);
        SU_vector r1 = a; r1.WeightedRotation(pv, Y, pw);
        expect_vec("WeightedRotation(Const)", r1, R, S);
        if (p[3] == 1) {   // the operand IS the weight: the weight object may be the vector being transformed
          SU_vector x1 = a; x1.WeightedRotation(pv, x1, pw); expect_same("x.WeightedRotation(V,x,W)", x1, r1, 0);
          auto V2 = pv.GetTransformationMatrix(d); auto W2 = pw.GetTransformationMatrix(d);
          SU_vector x2 = a; x2.WeightedRotation(V2.get(), x2, W2.get()); expect_same("x.WeightedRotation(Vm,x,Wm)", x2, r1, TOLF * EPS * (S > 0 ? S : 1));
        }
        auto V = pv.GetTransformationMatrix(d); auto W = pw.GetTransformationMatrix(d);
        SU_vector r2 = a; r2.WeightedRotation(V.get(), Y, W.get());
        expect_vec("WeightedRotation(matrix)", r2, R, S);
        expect_same("WeightedRotation:overloads-agree", r2, r1, TOLF * EPS * (S > 0 ? S : 1));
      } else if (op == "mixing") {
        Const params; set_params(params, d, h);
        auto U = params.GetTransformationMatrix(d);
        expect_gsl("GetTransformationMatrix", U.get(), R, 8.0);
      } else if (op == "projector") {
        SU_vector r = SU_vector::Projector(d, p[0]); expect_vec("Projector", r, R, 1);
        auto m = r.GetGSLMatrix(); expect_gsl("Projector:matrix", m.get(), R, 1);
      } else if (op == "identity") {
        SU_vector r = SU_vector::Identity(d); expect_vec("Identity", r, R, 1);
        auto m = r.GetGSLMatrix(); expect_gsl("Identity:matrix", m.get(), R, 1);
      } else if (op == "generator") {
        SU_vector r = SU_vector::Generator(d, p[0]);
        for (int k = 0; k < d * d; k++) if (r[k] != (k == p[0] ? 1.0 : 0.0)) { mismatch("Generator:unit", r[k], k == p[0]); break; }
        // its matrix is the normalised basis element lambda_k = sqrt(2/n_k) B_k (identity: B_0)
        long k = p[0]; int i = k / d, j = k % d;
        double f = (k == 0) ? 1.0 : (i != j ? 1.0 : std::sqrt(2.0 / (i * (i + 1.0))));
        Mat E = R; for (auto& x : E.a) x *= f;
        auto m = r.GetGSLMatrix(); expect_gsl("Generator:matrix", m.get(), E, 2);
      } else if (op == "posproj") {
        SU_vector r = SU_vector::PosProjector(d, p[0]); expect_vec("PosProjector", r, R, d);
      } else if (op == "negproj") {
        SU_vector r = SU_vector::NegProjector(d, p[0]); expect_vec("NegProjector", r, R, d);
      } else {
        printf("BADOP %ld %s\n", idx, op.c_str());
        return 2;
      }
    } catch (std::exception& e) {
      mismatch(std::string("threw:") + e.what(), 1, 0);
    }
  }
  printf("DONE %ld %ld %.3g\n", ncases, nmis, maxrel);
  return 0;
}
