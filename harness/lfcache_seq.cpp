// C19, sequential clause: squids::detail::cache<int,N>, N = 1..4, used by one thread must behave as the
// bounded LIFO pool of spec/SeqCache.tla. Compiled twice:
//   shared variant        (no SQUIDS_THREAD_LOCAL; the yield hooks are present but no sink is installed)
//   thread-local variant  (-DSQUIDS_THREAD_LOCAL=thread_local, the variant every normal build selects)
// stdin: one history per line, exported from TLC's exploration of SeqCache:
//   Q <cap> <k>  ( <op 1=insert|2=get> <val> <res> <depth> <stack bottom..top> ) x k
// After every call the result and the pool content (walk of the data list, length of the free list) are
// compared with the specification state; at the end the pool is drained through get() and must yield the
// specification's stack top-down, then T().
// output: OK <line> | MISMATCH <line> <step> <what> <expected> <got> ; DONE <histories> <calls> <bad>
#include <atomic>
#include <cstdint>
#include <cstddef>
#include <stdint.h>
#include <cstdio>
#include <cstring>
#include <iostream>
#include <sstream>
#include <string>
#include <vector>

#define private public
#include <SQuIDS/detail/Cache.h>
#undef private

template <unsigned N>
struct Seq {
  typedef squids::detail::cache<int, N> Cache;

  static unsigned head_index(typename Cache::ListType& l) {
#ifdef SQUIDS_THREAD_LOCAL
    return l.index;
#else
    return l.load().index;
#endif
  }
  // values on a list, head first; at most N+1 hops (a longer walk means a cycle)
  static std::vector<int> walk(Cache& c, typename Cache::ListType& l, bool& cyc) {
    std::vector<int> out;
    unsigned i = head_index(l), hops = 0;
    cyc = false;
    while (i != N) {
      if (i > N || ++hops > N) { cyc = true; break; }
      out.push_back(c.entries[i].data);
      i = c.entries[i].next ? unsigned(c.entries[i].next - c.entries) : N;
    }
    return out;
  }

  static bool run(long idx, const std::vector<long>& x, long& calls) {
    Cache* c = new Cache();
    size_t p = 0;
    long k = x[p++];
    std::vector<int> stack;
    bool ok = true;
    for (long s = 1; s <= k && ok; s++) {
      long op = x[p++], val = x[p++], res = x[p++], depth = x[p++];
      stack.assign(x.begin() + p, x.begin() + p + depth);
      p += depth;
      long got = (op == 1) ? (c->insert((int)val) ? 1 : 0) : c->get();
      calls++;
      if (got != res) { printf("MISMATCH %ld %ld %s %ld %ld\n", idx, s, op == 1 ? "insert.result" : "get.result", res, got); ok = false; break; }
      bool cyc;
      std::vector<int> d = walk(*c, c->data_list, cyc);
      if (cyc || (long)d.size() != depth) { printf("MISMATCH %ld %ld data.length %ld %ld\n", idx, s, depth, cyc ? -1L : (long)d.size()); ok = false; break; }
      for (long j = 0; j < depth; j++)
        if (d[j] != stack[depth - 1 - j]) { printf("MISMATCH %ld %ld data[%ld] %d %d\n", idx, s, j, stack[depth - 1 - j], d[j]); ok = false; break; }
      if (!ok) break;
      std::vector<int> f = walk(*c, c->free_list, cyc);
      if (cyc || (long)f.size() != (long)N - depth) { printf("MISMATCH %ld %ld free.length %ld %ld\n", idx, s, (long)N - depth, cyc ? -1L : (long)f.size()); ok = false; break; }
    }
    if (ok) {   // drain through the public interface
      for (long j = (long)stack.size() - 1; j >= 0 && ok; j--) {
        int g = c->get();
        if (g != stack[j]) { printf("MISMATCH %ld %ld drain %d %d\n", idx, k + 1, stack[j], g); ok = false; }
      }
      if (ok) {
        int g = c->get();
        if (g != 0) { printf("MISMATCH %ld %ld drain.end 0 %d\n", idx, k + 1, g); ok = false; }
      }
    }
    delete c;
    if (ok) printf("OK %ld\n", idx);
    return ok;
  }
};

int main() {
#ifdef SQUIDS_THREAD_LOCAL
  printf("VARIANT thread_local\n");
#else
  printf("VARIANT shared\n");
#endif
  std::string line;
  long n = 0, calls = 0, bad = 0, idx = 0;
  while (std::getline(std::cin, line)) {
    if (line.empty()) continue;
    std::istringstream ss(line);
    std::string kw; long cap;
    ss >> kw >> cap;
    if (kw != "Q" || cap < 1 || cap > 4) { fprintf(stderr, "bad line %s\n", line.c_str()); return 2; }
    std::vector<long> x; long v;
    while (ss >> v) x.push_back(v);
    bool ok;
    switch (cap) {
      case 1: ok = Seq<1>::run(idx, x, calls); break;
      case 2: ok = Seq<2>::run(idx, x, calls); break;
      case 3: ok = Seq<3>::run(idx, x, calls); break;
      default: ok = Seq<4>::run(idx, x, calls); break;
    }
    n++; idx++;
    if (!ok) bad++;
  }
  printf("DONE %ld %ld %ld\n", n, calls, bad);
  return 0;
}
