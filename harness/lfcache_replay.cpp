// C19: replayer / tracer for the shared variant of squids::detail::cache<int,N>, N = 1..4.
//
//  lfcache_replay replay [hist]        binding A: stdin carries a state table and paths exported from TLC
//                                      (spec/LFCache.tla); every step of every path is executed on the real
//                                      cache under the coroutine scheduler and the projected real state is
//                                      compared with the specification state after each step.
//      CFG <N> <NT>
//      S <id> <4 + 2N + 10*NT integers>     freeH.c freeH.i dataH.c dataH.i nxt[N] dat[N]
//                                           per thread: pc op lst orig.c orig.i nx entry val res done
//      P <pid> <init-state-id> <k> (<thread 1..NT> <spurious 0|1> <state-id>) x k
//    output: OK <pid> <k> | MISMATCH <pid> <step> <thread> <pc-before> <field> <expected> <got>
//            HIST <pid> <thread> <ins|get> <val> <res>   (with "hist": every returned call, in return order)
//            DONE <paths> <steps> <mismatching paths>
//
//  lfcache_replay probe               yield points passed by one thread in insert(); get()  (hooks compiled in?)
//  lfcache_replay random <N> <NT> <OPS> <seed> <executions> <spurious-percent>
//                                      binding B: seeded random schedules of the real code, one ndjson event
//                                      per scheduler step on stdout (validated by spec/LFCacheTrace.tla)
#include "lfcache_sched.h"
#include <iostream>
#include <sstream>
#include <map>

using namespace lfc;

static const char* op_name[3] = {"none", "ins", "get"};

struct SpecState { std::vector<int> v; };

template <unsigned N>
struct Runner {
  Sched<N> S;
  int NT;
  explicit Runner(int nt) : NT(nt) {}

  static int th_off(int t) { return 4 + 2 * (int)N + 10 * t; }

  // compare the real state with a specification state; returns "" or "<thread> <field> <exp> <got>"
  std::string compare(const std::vector<int>& e) {
    char buf[160];
    HeadPOD f = S.head(0), d = S.head(1);
    int got4[4] = {(int)f.counter, (int)f.index, (int)d.counter, (int)d.index};
    static const char* hn[4] = {"freeH.c", "freeH.i", "dataH.c", "dataH.i"};
    for (int i = 0; i < 4; i++)
      if (got4[i] != e[i]) { snprintf(buf, sizeof buf, "0 %s %d %d", hn[i], e[i], got4[i]); return buf; }
    for (unsigned i = 0; i < N; i++)
      if (S.nxt(i) != e[4 + i]) { snprintf(buf, sizeof buf, "0 nxt[%u] %d %d", i, e[4 + i], S.nxt(i)); return buf; }
    for (unsigned i = 0; i < N; i++)
      if (S.dat(i) != e[4 + N + i]) { snprintf(buf, sizeof buf, "0 dat[%u] %d %d", i, e[4 + N + i], S.dat(i)); return buf; }
    for (int t = 0; t < NT; t++) {
      const int* x = &e[th_off(t)];   // pc op lst orig.c orig.i nx entry val res done
      const Thread& T = S.th[t];
#define CMP(name, exp, got) if ((exp) != (got)) { snprintf(buf, sizeof buf, "%d %s %d %d", t + 1, name, (int)(exp), (int)(got)); return buf; }
      CMP("pc", x[0], T.pc);
      CMP("done", x[9], T.done);
      if (T.pc == POPLOAD || T.pc == PUSHLOAD) CMP("lst", x[2], S.lst_of(T.obj));
      if (T.pc == POPNEXT || T.pc == POPCAS || T.pc == PUSHLINK || T.pc == PUSHCAS) {
        HeadPOD o = S.orig_of(t);
        CMP("orig.c", x[3], o.counter);
        CMP("orig.i", x[4], o.index);
      }
      if (T.pc == POPCAS) CMP("nx", x[5], T.a);
      if (T.pc == INSWRITE || T.pc == GETREAD || T.pc == PUSHLOAD || T.pc == PUSHLINK || T.pc == PUSHCAS) CMP("entry", x[6], T.a);
      if (T.pc == RET) CMP("res", x[8], T.res);
#undef CMP
    }
    return "";
  }

  // returns true if the whole path matched
  bool run_path(long pid, const std::map<long, SpecState>& tab, long init, const std::vector<long>& steps, bool hist, long& nsteps) {
    S.reset(NT);
    std::string m = compare(tab.at(init).v);
    if (!m.empty()) { printf("MISMATCH %ld 0 0 init %s\n", pid, m.c_str()); return false; }
    size_t k = steps.size() / 3;
    for (size_t i = 0; i < k; i++) {
      int t = (int)steps[3 * i] - 1;
      bool spur = steps[3 * i + 1] != 0;
      const std::vector<int>& e = tab.at(steps[3 * i + 2]).v;
      const int* x = &e[th_off(t)];
      int before = S.th[t].pc;
      bool was_ret_pending = (before != RET);
      S.step(t, x[1], x[7], spur);
      nsteps++;
      if (hist && S.th[t].pc == RET && was_ret_pending)
        printf("HIST %ld %d %s %d %d\n", pid, t + 1, op_name[S.th[t].op], S.th[t].op == INS ? S.th[t].val : 0, S.th[t].res);
      m = compare(e);
      if (!m.empty()) {
        printf("MISMATCH %ld %zu %d %s %s\n", pid, i + 1, t + 1, before >= 0 ? pc_name[before] : "?", m.c_str());
        return false;
      }
    }
    printf("OK %ld %zu\n", pid, k);
    return true;
  }

  // ---------------- binding B: random schedules -> ndjson ----------------
  uint64_t rng;
  uint32_t rnd() {   // splitmix64
    uint64_t z = (rng += 0x9e3779b97f4a7c15ULL);
    z = (z ^ (z >> 30)) * 0xbf58476d1ce4e5b9ULL;
    z = (z ^ (z >> 27)) * 0x94d049bb133111ebULL;
    return (uint32_t)((z ^ (z >> 31)) >> 16);
  }

  void emit_state(int t, int before, int kind, bool spur) {
    HeadPOD f = S.head(0), d = S.head(1);
    printf("{\"e\":\"Step\",\"tid\":%d,\"pt\":\"%s\",\"k\":\"%s\",\"spur\":%s,\"free\":[%u,%u],\"data\":[%u,%u],\"nxt\":[",
           t + 1, pc_name[before], op_name[kind], spur ? "true" : "false", f.counter, f.index, d.counter, d.index);
    for (unsigned i = 0; i < N; i++) printf("%s%d", i ? "," : "", S.nxt(i));
    printf("],\"dat\":[");
    for (unsigned i = 0; i < N; i++) printf("%s%d", i ? "," : "", S.dat(i));
    printf("],\"pc\":\"%s\",\"res\":%d,\"done\":%d}\n", pc_name[S.th[t].pc], S.th[t].pc == RET ? S.th[t].res : 0, S.th[t].done);
  }

  long random_exec(int ops, int spurpct) {
    S.reset(NT);
    printf("{\"e\":\"Reset\",\"n\":%u,\"nt\":%d,\"ops\":%d}\n", N, NT, ops);
    long n = 0;
    int last = -1;
    for (;;) {
      int runnable[MAXT], nr = 0;
      for (int t = 0; t < NT; t++)
        if (!(S.th[t].pc == IDLE && S.th[t].done >= ops)) runnable[nr++] = t;
      if (!nr) break;
      int t;
      bool last_ok = false;
      for (int i = 0; i < nr; i++) last_ok |= (runnable[i] == last);
      if (last_ok && rnd() % 3 != 0) t = last;   // bursts: keep the same thread with probability 2/3
      else t = runnable[rnd() % nr];
      last = t;
      Thread& T = S.th[t];
      int before = T.pc, kind = NONE, val = 0;
      bool spur = false;
      if (before == IDLE) {
        kind = (rnd() % 100 < 55) ? INS : GET;
        val = kind == INS ? 10 * (t + 1) + T.done + 1 : 0;
      } else if ((before == POPCAS || before == PUSHCAS) && (int)(rnd() % 100) < spurpct) {
        spur = true;
      }
      S.step(t, kind, val, spur);
      // a forced failure of a CAS that would have failed anyway is an ordinary failure; the trace
      // specification decides from the logged post-state, "spur" is informational
      emit_state(t, before, before == IDLE ? kind : T.op, spur);
      n++;
      if (n > 100000) { fprintf(stderr, "runaway schedule\n"); exit(3); }
    }
    return n;
  }
};

template <unsigned N>
static int main_replay(int NT, std::istream& in, bool hist) {
  Runner<N>* R = new Runner<N>(NT);
  std::map<long, SpecState> tab;
  std::string line;
  long npaths = 0, nsteps = 0, nbad = 0;
  const size_t width = 4 + 2 * N + 10 * NT;
  while (std::getline(in, line)) {
    if (line.empty()) continue;
    std::istringstream ss(line);
    std::string kw;
    ss >> kw;
    if (kw == "S") {
      long id; ss >> id;
      SpecState st; int x;
      while (ss >> x) st.v.push_back(x);
      if (st.v.size() != width) { fprintf(stderr, "bad state width %zu (want %zu)\n", st.v.size(), width); return 2; }
      tab[id] = st;
    } else if (kw == "P") {
      long pid, init, k; ss >> pid >> init >> k;
      std::vector<long> steps; long x;
      while (ss >> x) steps.push_back(x);
      if ((long)steps.size() != 3 * k) { fprintf(stderr, "bad path %ld\n", pid); return 2; }
      for (long i = 0; i < k; i++) {
        if (steps[3 * i] < 1 || steps[3 * i] > NT || !tab.count(steps[3 * i + 2])) { fprintf(stderr, "bad step in path %ld\n", pid); return 2; }
      }
      if (!tab.count(init)) { fprintf(stderr, "bad init in path %ld\n", pid); return 2; }
      npaths++;
      if (!R->run_path(pid, tab, init, steps, hist, nsteps)) nbad++;
    } else {
      fprintf(stderr, "bad line: %s\n", line.c_str()); return 2;
    }
  }
  printf("DONE %ld %ld %ld\n", npaths, nsteps, nbad);
  delete R;
  return 0;
}

template <unsigned N>
static int main_random(int NT, int ops, uint64_t seed, int nexec, int spurpct) {
  Runner<N>* R = new Runner<N>(NT);
  R->rng = seed * 0x2545F4914F6CDD1DULL + N * 1000003ULL + NT;
  long n = 0;
  for (int i = 0; i < nexec; i++) n += R->random_exec(ops, spurpct);
  fprintf(stderr, "RANDOM executions=%d steps=%ld\n", nexec, n);
  delete R;
  return 0;
}

int main(int argc, char** argv) {
  std::string mode = argc > 1 ? argv[1] : "replay";
  if (mode == "replay") {
    bool hist = argc > 2 && !strcmp(argv[2], "hist");
    std::string line;
    if (!std::getline(std::cin, line)) return 2;
    std::istringstream ss(line);
    std::string kw; int n = 0, nt = 0;
    ss >> kw >> n >> nt;
    if (kw != "CFG" || n < 1 || n > 4 || nt < 1 || nt > MAXT) { fprintf(stderr, "bad CFG line\n"); return 2; }
    switch (n) {
      case 1: return main_replay<1>(nt, std::cin, hist);
      case 2: return main_replay<2>(nt, std::cin, hist);
      case 3: return main_replay<3>(nt, std::cin, hist);
      default: return main_replay<4>(nt, std::cin, hist);
    }
  }
  if (mode == "random" && argc >= 8) {
    int n = atoi(argv[2]), nt = atoi(argv[3]), ops = atoi(argv[4]);
    uint64_t seed = strtoull(argv[5], nullptr, 10);
    int nexec = atoi(argv[6]), sp = atoi(argv[7]);
    if (n < 1 || n > 4 || nt < 1 || nt > MAXT) return 2;
    switch (n) {
      case 1: return main_random<1>(nt, ops, seed, nexec, sp);
      case 2: return main_random<2>(nt, ops, seed, nexec, sp);
      case 3: return main_random<3>(nt, ops, seed, nexec, sp);
      default: return main_random<4>(nt, ops, seed, nexec, sp);
    }
  }
  if (mode == "probe") {   // which yield points does one thread pass in insert(1); get() ?  (are the hooks compiled in?)
    Runner<2>* R = new Runner<2>(1);
    R->S.reset(1);
    for (int call = 0; call < 2; call++) {
      printf("PROBE %s", call == 0 ? "ins" : "get");
      for (int i = 0; i < 40; i++) {
        R->S.step(0, call == 0 ? INS : GET, 5, false);
        int pc = R->S.th[0].pc;
        printf(" %s", pc >= 0 ? pc_name[pc] : "?");
        if (pc == IDLE) break;
      }
      printf(" res=%d\n", R->S.th[0].res);
    }
    return 0;
  }
  if (mode == "lockfree") {   // sanity: the head must be a lock-free atomic, otherwise "atomic operation" is not one step
    std::atomic<HeadPOD> h;
    printf("LOCKFREE %d\n", (int)h.is_lock_free());
    return 0;
  }
  fprintf(stderr, "usage: lfcache_replay replay [hist] | random N NT OPS seed executions spurious%% | lockfree\n");
  return 2;
}
