#include "suvec_drive.h"
#define VOP OP_ICOMM
#define VFUNC expr_icomm
#include "suvec_expr.inc"
