#include "suvec_drive.h"
#define VOP OP_ADD
#define VFUNC expr_add
#include "suvec_expr.inc"
