// Replayer for module Eigen (C12): SU_vector::GetEigenSystem(order) on matrices with exactly known spectra.
// stdin records:
//   CASE id f d s  M0[d*d*5] hasM1 M1[d*d*5]  spec[d x (p q e)]     M = M0 + 2^-s M1, eigenvalue = p + q sqrt2 + 2^-s e (ascending)
//   RAND idx d seed kind      seeded dense Hermitian input, residual checks only (kind 0 generic, 1 small gaps, 2 huge identity part, 3 scaled by 2^+-60)
// stdout:
//   FAIL id order what err tol : text
//   DONE ncases ncalls nfail maxEvalRatio maxResRatio
#include <SQuIDS/SUNalg.h>
#include <gsl/gsl_matrix.h>
#include <gsl/gsl_vector.h>
#include <gsl/gsl_complex_math.h>
#include "exact.h"
#include <algorithm>
#include <random>
#include <memory>

using namespace squids;
static long nfail = 0, ncalls = 0;
static double maxEv = 0, maxRes = 0;

static void failrec(long id, int order, const char* what, double err, double tol, const std::string& text) {
  nfail++;
  printf("FAIL %ld %d %s %.6g %.6g : %s\n", id, order, what, err, tol, text.c_str());
}

static double maxabs(const Mat& M) { double s = 0; for (const cd& x : M.a) s = std::max(s, std::abs(x)); return s; }

// expected: ascending exact spectrum or empty (residual checks only)
static void check(long id, const Mat& M, const std::vector<double>& expected) {
  int d = M.d;
  std::vector<double> c = comps_from_matrix(M);
  double scale = std::max(1.0, maxabs(M) * d);
  // ordered, unordered, ordered again on the same operator: the answer to one call must not depend on the previous one
  static const int ORDERS[2][3] = {{1, 0, 1}, {0, 1, 0}};
  for (int oi = 0; oi < 3; oi++) {
    int order = ORDERS[(id % 2 + 2) % 2][oi];
    ncalls++;
    try {
      SU_vector v(d);
      for (int k = 0; k < d * d; k++) v[k] = c[k];
      auto es = v.GetEigenSystem(order != 0);
      for (int k = 0; k < d * d; k++) if (v[k] != c[k]) { failrec(id, order, "operand-modified", 1, 0, "GetEigenSystem changed the vector"); break; }
      const gsl_vector* L = es.first.get();
      const gsl_matrix_complex* V = es.second.get();
      if (!L || !V || (int)L->size != d || (int)V->size1 != d || (int)V->size2 != d) { failrec(id, order, "shape", 0, 0, "wrong sizes"); continue; }
      bool finite = true;
      std::vector<double> ev(d);
      Mat Vm(d);
      for (int i = 0; i < d; i++) {
        ev[i] = gsl_vector_get(L, i);
        if (!std::isfinite(ev[i])) finite = false;
        for (int j = 0; j < d; j++) { gsl_complex z = gsl_matrix_complex_get(V, i, j); Vm(i, j) = cd(GSL_REAL(z), GSL_IMAG(z)); if (!std::isfinite(GSL_REAL(z)) || !std::isfinite(GSL_IMAG(z))) finite = false; }
      }
      if (!finite) {
        bool evfin = true; for (double x : ev) if (!std::isfinite(x)) evfin = false;
        failrec(id, order, evfin ? "nonfinite-vectors" : "nonfinite-values", INFINITY, 0, "non-finite numbers returned");
        continue;
      }
      double tolE = 1e-10 * scale, tolR = 1e-9 * scale;
      if (order) for (int i = 0; i + 1 < d; i++) if (!(ev[i] <= ev[i + 1])) { failrec(id, order, "order", ev[i] - ev[i + 1], 0, "eigenvalues not ascending"); break; }
      if (!expected.empty()) {
        std::vector<double> got = ev;
        if (!order) std::sort(got.begin(), got.end());     // multiset comparison
        double worst = 0;
        for (int i = 0; i < d; i++) worst = std::max(worst, std::fabs(got[i] - expected[i]));
        maxEv = std::max(maxEv, worst / tolE);
        if (!(worst <= tolE)) {
          char b[200]; snprintf(b, sizeof b, "eigenvalues differ from the exact spectrum (got %.12g.. expected %.12g..)", got[0], expected[0]);
          failrec(id, order, "eigenvalues", worst, tolE, b);
        }
      }
      double res = 0, orth = 0;
      for (int i = 0; i < d; i++) for (int j = 0; j < d; j++) {
        cd s = 0, o = 0;
        for (int q = 0; q < d; q++) { s += M(i, q) * Vm(q, j); o += std::conj(Vm(q, i)) * Vm(q, j); }
        s -= Vm(i, j) * ev[j]; o -= (i == j ? 1.0 : 0.0);
        res = std::max(res, std::abs(s)); orth = std::max(orth, std::abs(o));
      }
      maxRes = std::max(maxRes, std::max(res, orth) / tolR);
      if (!(res <= tolR)) failrec(id, order, "residual", res, tolR, "M V != V diag(L)");
      if (!(orth <= 1e-9)) failrec(id, order, "unitary", orth, 1e-9, "V^dagger V != 1");
    } catch (std::exception& e) {
      failrec(id, order, "throw", INFINITY, 0, std::string("exception: ") + e.what());
    }
  }
}

int main() {
  std::ios::sync_with_stdio(false);
  std::string tag;
  long ncases = 0;
  while (std::cin >> tag) {
    if (tag == "CASE") {
      long id; int f, d, s, h;
      std::cin >> id >> f >> d >> s;
      Mat M0, M1;
      if (!read_mat(std::cin, d, M0)) { printf("BADINPUT %ld\n", id); return 2; }
      std::cin >> h;
      if (h && !read_mat(std::cin, d, M1)) { printf("BADINPUT %ld\n", id); return 2; }
      std::vector<double> sp(d);
      for (int i = 0; i < d; i++) { long p, q, e; std::cin >> p >> q >> e; sp[i] = (double)((long double)p + (long double)q * 1.41421356237309504880168872420969808L + std::ldexp((long double)e, -s)); }
      Mat M(d);
      for (int i = 0; i < d * d; i++) M.a[i] = M0.a[i] + (h ? std::ldexp(1.0, -s) * M1.a[i] : cd(0, 0));
      for (int i = 0; i < d; i++) { M(i, i) = M(i, i).real(); for (int j = i + 1; j < d; j++) M(j, i) = std::conj(M(i, j)); }
      ncases++;
      check(id, M, sp);
    } else if (tag == "RAND") {
      long idx; int d, kind; unsigned long seed;
      std::cin >> idx >> d >> seed >> kind;
      std::mt19937_64 g(seed);
      std::normal_distribution<double> nd;
      std::uniform_real_distribution<double> un(-3, 3);
      // random unitary (Gram-Schmidt) times random real spectrum
      Mat Q(d);
      for (int j = 0; j < d; j++) {
        std::vector<cd> col(d);
        for (int i = 0; i < d; i++) col[i] = cd(nd(g), nd(g));
        for (int rep = 0; rep < 2; rep++)
          for (int p = 0; p < j; p++) { cd ip = 0; for (int i = 0; i < d; i++) ip += std::conj(Q(i, p)) * col[i]; for (int i = 0; i < d; i++) col[i] -= ip * Q(i, p); }
        double nn = 0; for (auto& x : col) nn += std::norm(x); nn = std::sqrt(nn);
        for (int i = 0; i < d; i++) Q(i, j) = col[i] / nn;
      }
      std::vector<double> ev(d);
      for (int i = 0; i < d; i++) ev[i] = un(g);
      if (kind == 1) for (int i = 1; i < d; i += 2) ev[i] = ev[i - 1] + std::ldexp(1.0, -(int)(g() % 50));   // small gaps
      Mat M(d);
      for (int i = 0; i < d; i++) for (int j = 0; j < d; j++) { cd s = 0; for (int q = 0; q < d; q++) s += Q(i, q) * ev[q] * std::conj(Q(j, q)); M(i, j) = s; }
      if (kind == 2) { static const double C0[5] = {1e6, 1e9, 1e12, 1e15, -1e13}; double c0 = C0[g() % 5]; for (int i = 0; i < d; i++) M(i, i) += c0; }   // a huge multiple of the identity on top
      if (kind == 3) { double f = std::ldexp(1.0, (g() % 2) ? 60 : -60); for (auto& x : M.a) x *= f; }                                           // all entries huge / tiny
      for (int i = 0; i < d; i++) { M(i, i) = M(i, i).real(); for (int j = i + 1; j < d; j++) M(j, i) = std::conj(M(i, j)); }
      ncases++;
      check(-idx - 1, M, std::vector<double>());
    } else { printf("BADINPUT tag %s\n", tag.c_str()); return 2; }
  }
  printf("DONE %ld %ld %ld %.6g %.6g\n", ncases, ncalls, nfail, maxEv, maxRes);
  return 0;
}
