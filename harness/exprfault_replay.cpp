// C16 binding for module ExprFaults: nested-expression statements with the k-th allocation failing.
// stdin:  idx expr form d k warm      stdout: FAIL idx what   ...   DONE ncases nfail nfired
// operator new[] / delete[] are replaced: a ledger of live blocks, and while armed the k-th new[] throws std::bad_alloc.
#include <SQuIDS/SUNalg.h>
#include <cstdio>
#include <cstdlib>
#include <cstring>
#include <exception>
#include <iostream>
#include <new>
#include <string>
#include <vector>
#include <unistd.h>
using namespace squids;

static void* live[4096]; static int nlive = 0; static long bad_delete = 0;
static bool armed = false; static long countdown = 0; static bool fired = false;
void* operator new[](std::size_t n) {
  if (armed && --countdown == 0) { fired = true; throw std::bad_alloc(); }
  void* p = std::malloc(n ? n : 1);
  if (!p) throw std::bad_alloc();
  if (nlive < 4096) live[nlive++] = p;
  return p;
}
void operator delete[](void* p) noexcept {
  if (!p) return;
  int i; for (i = 0; i < nlive; i++) if (live[i] == p) break;
  if (i == nlive) { bad_delete++; return; }
  live[i] = live[--nlive];
  std::free(p);
}
void operator delete[](void* p, std::size_t) noexcept { operator delete[](p); }

static long cur_idx = -1;
static void on_terminate() { printf("FAIL %ld terminate-instead-of-bad_alloc\nDIED\n", cur_idx); fflush(stdout); _exit(0); }

static SU_vector mk(int d, int salt) { SU_vector v(d); for (int k = 0; k < d * d; k++) v[k] = 0.25 * ((k * 7 + salt * 3) % 11) - 1.0; return v; }
static bool same(const SU_vector& a, const std::vector<double>& c) {
  if (a.Size() != c.size()) return false;
  for (unsigned k = 0; k < a.Size(); k++) if (std::memcmp(&a[k], &c[k], sizeof(double)) != 0) return false;
  return true;
}
static std::vector<double> snap(const SU_vector& a) { std::vector<double> c(a.Size()); for (unsigned k = 0; k < a.Size(); k++) c[k] = a[k]; return c; }

// the statement: form applied to target T with the nested expression written IN the statement (an expression object must not
// outlive the full expression that creates it: it refers to its operands, temporaries included)
#define STMT(EXPR) do { if (form == "ctor") new (slot) SU_vector(EXPR); else if (form == "inc-same") *T += (EXPR); \
                        else if (form == "dec-same") *T -= (EXPR); else *T = (EXPR); } while (0)
static double g_scalar = 0;
static void statement(const std::string& e, const std::string& form, SU_vector* T, void* slot, const SU_vector& a, const SU_vector& b, const SU_vector& h) {
  const double t = 0.7;
  if (e == "a") STMT(a);
  else if (e == "a+b") STMT(a + b);
  else if (e == "a*2") STMT(a * 2.0);
  else if (e == "icomm(a,b)") STMT(iCommutator(a, b));
  else if (e == "a.evolve(h,t)") STMT(a.Evolve(h, t));
  else if (e == "-(a+b)") STMT(-(a + b));
  else if (e == "-(a-b)") STMT(-(a - b));
  else if (e == "-(a*2)") STMT(-(a * 2.0));
  else if (e == "-icomm(a,b)") STMT(-iCommutator(a, b));
  else if (e == "-acomm(a,b)") STMT(-ACommutator(a, b));
  else if (e == "-a.evolve(h,t)") STMT(-a.Evolve(h, t));
  else if (e == "(a+b)+(a-b)") STMT((a + b) + (a - b));
  else if (e == "(a+b)-(a*2)") STMT((a + b) - (a * 2.0));
  else if (e == "(a+b)*2") STMT((a + b) * 2.0);
  else if (e == "(a+b)+b") STMT((a + b) + b);
  else if (e == "(a+b)-b") STMT((a + b) - b);
  else if (e == "b+(a*2)") STMT(b + (a * 2.0));
  else if (e == "(a+b).evolve(h,t)") STMT((a + b).Evolve(h, t));
  else if (e == "(a+b).evolve(h+h,t)") STMT((a + b).Evolve(h + h, t));
  else if (e == "icomm(a+b,a-b)") STMT(iCommutator(a + b, a - b));
  else if (e == "acomm(a*2,b)") STMT(ACommutator(a * 2.0, b));
  else if (e == "-(-(a+b))") STMT(-(-(a + b)));
  else if (e == "(a+b)*(a-b)") { g_scalar = (a + b) * (a - b); if (form == "ctor") new (slot) SU_vector(a.Dim()); }
  else throw std::logic_error("expr " + e);
}

int main() {
  std::set_terminate(on_terminate);
  long idx, n = 0, nfail = 0, nfired = 0; std::string e, form; int d, k, warm;
  alignas(64) static unsigned char slotmem[sizeof(SU_vector) + 64];
  while (std::cin >> idx >> e >> form >> d >> k >> warm) {
    n++; cur_idx = idx;
    std::string note;
    {
      SU_vector a = mk(d, 1), b = mk(d, 2), h(d);
      for (int l = 1; l < d; l++) h[d * l + l] = 0.3 * l;
      auto sa = snap(a), sb = snap(b), sh = snap(h);
      int dt = form == "assign-other" ? (d == 6 ? 3 : d + 1) : d;
      // reference: the statement un-armed on a twin target
      std::vector<double> ref; double refs = 0;
      try {
        SU_vector R = form == "assign-empty" ? SU_vector() : mk(dt, 5);
        void* rs = slotmem;
        statement(e, form, &R, rs, a, b, h);
        if (form == "ctor") { SU_vector* C = reinterpret_cast<SU_vector*>(rs); ref = snap(*C); C->~SU_vector(); } else ref = snap(R);
        refs = g_scalar;
      } catch (std::logic_error&) { printf("BADINPUT %ld\n", idx); return 2; }
      catch (std::exception&) { ref.clear(); note = "unarmed-statement-raised"; }
      SU_vector T = form == "assign-empty" ? SU_vector() : mk(dt, 5);
      auto st = snap(T);
      SU_vector::clear_mem_cache();         // cold cache: every allocation of the statement is a real new[] ...
      if (warm == 1) { SU_vector spare(dt); }                                                   // ... or one spare block of the target's dimension
      if (warm == 2) { std::vector<SU_vector> many; for (int q = 0; q < 40; q++) many.emplace_back(dt); }   // ... or that dimension's cache full
      bool constructed = false, threw = false, other = false;
      fired = false; countdown = k; armed = true;
      try { statement(e, form, &T, slotmem, a, b, h); constructed = (form == "ctor"); }
      catch (std::bad_alloc&) { threw = true; }
      catch (...) { other = true; }
      armed = false;
      if (fired) nfired++;
      SU_vector* C = constructed ? reinterpret_cast<SU_vector*>(slotmem) : nullptr;
      if (note.empty()) {
        if (other) note = "another-exception-instead-of-bad_alloc";
        else if (fired && !threw) note = "allocation-failure-swallowed";
        else if (!fired && threw) note = "bad_alloc-without-a-failed-allocation";
        else if (!same(a, sa) || !same(b, sb) || !same(h, sh)) note = "operand-modified";
        else if (!fired) {                        // fewer than k allocations: the statement must simply have worked
          if (e == "(a+b)*(a-b)") { if (g_scalar != refs) note = "value-differs-from-unarmed-run"; }
          else if (!same(C ? *C : T, ref)) note = "value-differs-from-unarmed-run";
        } else {                                  // failed: the target is unchanged or empty, and usable
          if (form != "ctor" && !(same(T, st) || T.Dim() == 0)) note = "target-neither-unchanged-nor-empty";
        }
      }
      if (note.empty()) {
        try { T = a; if (!same(T, sa)) note = "target-not-reassignable"; T = SU_vector(); } catch (std::exception&) { note = "target-reassignment-raised"; }
      }
      if (C) C->~SU_vector();
    }
    SU_vector::clear_mem_cache();
    if (note.empty() && nlive != 0) note = "leak:" + std::to_string(nlive);
    if (note.empty() && bad_delete != 0) note = "foreign-or-double-delete";
    if (!note.empty()) { printf("FAIL %ld %s\n", idx, note.c_str()); nfail++; nlive = 0; bad_delete = 0; }
  }
  printf("DONE %ld %ld %ld\n", n, nfail, nfired);
  return 0;
}
