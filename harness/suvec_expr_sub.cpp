#include "suvec_drive.h"
#define VOP OP_SUB
#define VFUNC expr_sub
#include "suvec_expr.inc"
