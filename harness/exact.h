// Conversion between the specification's exact values (module Exact) and doubles, and the
// documented meaning of SU_vector components, written independently of the generated kernels.
#ifndef VERIF_EXACT_H
#define VERIF_EXACT_H
#include <complex>
#include <vector>
#include <cmath>
#include <cstdio>
#include <cstdint>
#include <string>
#include <iostream>

typedef std::complex<double> cd;
static const double EPS = 2.220446049250313e-16;

// (a + b z + c z^2 + d z^3)/n , z = exp(i pi/4)
inline cd exact_scalar(long a, long b, long c, long d, long n) {
  return cd((a + (b - d) * M_SQRT1_2) / (double)n, (c + (b + d) * M_SQRT1_2) / (double)n);
}

struct Mat {
  int d;
  std::vector<cd> a;
  Mat() : d(0) {}
  explicit Mat(int d_) : d(d_), a(d_ * d_, cd(0, 0)) {}
  cd& operator()(int i, int j) { return a[i * d + j]; }
  const cd& operator()(int i, int j) const { return a[i * d + j]; }
};

inline bool read_mat(std::istream& in, int d, Mat& M) {
  M = Mat(d);
  for (int k = 0; k < d * d; k++) {
    long a, b, c, dd, n;
    if (!(in >> a >> b >> c >> dd >> n)) return false;
    M.a[k] = exact_scalar(a, b, c, dd, n);
  }
  return true;
}

// components of a Hermitian matrix M = c0*I + sum_k c_k lambda_k with Tr(lambda_a lambda_b) = 2 delta_ab:
//   slot d*i+j, i<j : Re M_ij ; slot d*j+i, i<j : -Im M_ij ; slot d*l+l : Tr(M lambda_l)/2 ; slot 0 : Tr M / d
inline std::vector<double> comps_from_matrix(const Mat& M) {
  int d = M.d;
  std::vector<double> c(d * d, 0.0);
  double tr = 0;
  for (int i = 0; i < d; i++) tr += M(i, i).real();
  c[0] = tr / d;
  for (int i = 0; i < d; i++)
    for (int j = i + 1; j < d; j++) {
      c[d * i + j] = M(i, j).real();
      c[d * j + i] = -M(i, j).imag();
    }
  for (int l = 1; l < d; l++) {
    double s = 0;
    for (int m = 0; m < l; m++) s += M(m, m).real();
    s -= l * M(l, l).real();
    c[d * l + l] = 0.5 * std::sqrt(2.0 / (l * (l + 1.0))) * s;
  }
  return c;
}

// the inverse map (matrix denoted by a component vector), same documentation, independent code
inline Mat matrix_from_comps(const std::vector<double>& c, int d) {
  Mat M(d);
  for (int i = 0; i < d; i++) M(i, i) = c[0];
  for (int i = 0; i < d; i++)
    for (int j = i + 1; j < d; j++) {
      M(i, j) = cd(c[d * i + j], -c[d * j + i]);
      M(j, i) = cd(c[d * i + j], c[d * j + i]);
    }
  for (int l = 1; l < d; l++) {
    double f = std::sqrt(2.0 / (l * (l + 1.0))) * c[d * l + l];
    for (int m = 0; m < l; m++) M(m, m) += f;
    M(l, l) += -l * f;
  }
  return M;
}

inline double norm1(const std::vector<double>& v) {
  double s = 0;
  for (double x : v) s += std::fabs(x);
  return s;
}
inline double mnorm1(const Mat& M) {
  double s = 0;
  for (const cd& x : M.a) s += std::abs(x);
  return s;
}

// FNV-1a digest of raw doubles (for bit-identity comparisons across processes)
inline uint64_t digest(const double* p, size_t n) {
  uint64_t h = 1469598103934665603ULL;
  const unsigned char* b = (const unsigned char*)p;
  for (size_t i = 0; i < n * sizeof(double); i++) { h ^= b[i]; h *= 1099511628211ULL; }
  return h;
}
#endif
