#include "suvec_drive.h"
#define VOP OP_EVOLVE
#define VFUNC expr_evolve
#include "suvec_expr.inc"
