// C19, real threads: the shared (lock-free) variant of squids::detail::cache<int,N> hammered by N threads, built with
// ThreadSanitizer.  The coroutine scheduler of lfcache_replay runs every interleaving sequentially consistently; what it
// cannot see is a publication with too weak a memory order (the payload and the link written before the compare-and-swap
// must be visible to the thread that pops the record) - that is a data race, which TSan reports on any hardware.
// Also checked: every value comes out at most once, nothing comes out that was not put in, and after the threads have
// stopped draining yields exactly what was inserted and not fetched.
//   lfcache_threads <threads> <ops per thread> <seed> [pc]      prints DONE <inserted> <fetched> <drained> <bad>
// "pc": thread 0 only inserts, thread 1 only fetches (each list then has a single popping thread).  That is the configuration
// for the ThreadSanitizer build: with two poppers on one list the design's speculative read of a record's link (discarded
// when the versioned compare-and-swap fails) is itself reported, on any tree.
#include <atomic>
#include <cstdint>
#include <cstddef>
#include <stdint.h>
#include <cstdio>
#include <cstdlib>
#include <string>
#include <thread>
#include <vector>
#include <SQuIDS/detail/Cache.h>

#ifdef SQUIDS_THREAD_LOCAL
#error "this harness needs the shared variant (include Cache.h alone, SQUIDS_THREAD_LOCAL undefined)"
#endif

int main(int argc, char** argv) {
  int nt = argc > 1 ? atoi(argv[1]) : 4; long ops = argc > 2 ? atol(argv[2]) : 20000; unsigned seed = argc > 3 ? atoi(argv[3]) : 1;
  bool pc = argc > 4 && std::string(argv[4]) == "pc";
  if (pc) nt = 2;
  static squids::detail::cache<int, 8> C;
  const long MAXV = (long)nt * ops + 8;
  std::vector<std::atomic<int>> state(MAXV);          // 0 never inserted, 1 in the cache, 2 fetched
  for (auto& s : state) s.store(0);
  std::atomic<long> bad{0}, nins{0}, nget{0};
  std::vector<std::thread> ths;
  for (int t = 0; t < nt; t++)
    ths.emplace_back([&, t] {
      unsigned x = seed * 2654435761u + 97 * t + 1;
      long next = 1 + (long)t * ops;                   // this thread's private values
      for (long k = 0; k < ops; k++) {
        x = x * 1664525u + 1013904223u;
        bool producer_bias = (t % 2 == 0);
        if (pc ? (t == 0) : (((x >> 16) % 100) < (producer_bias ? 65u : 35u))) {
          int v = (int)next;
          state[v].store(1);
          if (C.insert(v)) { next++; nins++; } else state[v].store(0);
        } else {
          int v = C.get();
          if (v != 0) {
            int was = (v > 0 && v < MAXV) ? state[v].exchange(2) : -1;
            if (was != 1) bad++;                       // fetched twice, or never inserted
            nget++;
          }
        }
      }
    });
  for (auto& th : ths) th.join();
  long drained = 0;
  for (;;) { int v = C.get(); if (v == 0) break; int was = (v > 0 && v < MAXV) ? state[v].exchange(2) : -1; if (was != 1) bad++; drained++; if (drained > 64) { bad++; break; } }
  for (long v = 1; v < MAXV; v++) if (state[v].load() == 1) bad++;          // inserted, never came back
  printf("DONE %ld %ld %ld %ld\n", nins.load(), nget.load(), drained, bad.load());
  return bad.load() ? 1 : 0;
}
