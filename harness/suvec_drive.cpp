// Driver for module SUVec: executes a script of public SU_vector calls on real objects and records,
// after every call, the projection of the implementation state onto the specification's variables
// (one ndjson event per call) for validation by TLC (spec/SUVecTrace.tla).
//
//   stdin : script, one command per line (see parse below)          stdout: ndjson trace, last line {"e":"End"}
//
// Observation instruments (no library behaviour is changed):
//   * replaced global operator new[]/delete[] : a ledger of the library's block allocations; block ids are
//     the smallest unused integer (as module SUVec numbers fresh blocks), allocation failure injection
//   * SQUIDS_VERIF heap events (cache hit / block put into the cache)
//   * detail::verif_access : the six private fields of a vector, read-only
#include <SQuIDS/SUNalg.h>
#include <cstdio>
#include <cstdlib>
#include <cstring>
#include <iostream>
#include <sstream>
#include <new>
#include <unistd.h>
#include "exact.h"
#include "suvec_drive.h"

using namespace squids;

// ------------------------------------------------------------------ ledger
static const int MAXB = 256;
struct LedgerEntry { void* p; int id; };     // id > 0: library block, id = -1: allocated outside a call window
static LedgerEntry ledger[4096];
static int nledger = 0;
static bool id_used[MAXB + 1];
static bool in_window = false;
static long window_news = 0;       // new[] calls inside the current window
static long fail_at = 0;           // >0: the fail_at-th new[] in the window throws
static bool fault_fired = false;
static long scalar_live = 0;       // scalar new/delete balance inside windows
struct HeapEv { const char* k; int id; };
static HeapEv hevs[512];
static int nhev = 0;
static void add_hev(const char* k, int id) { if (nhev < 512) { hevs[nhev].k = k; hevs[nhev].id = id; nhev++; } }
static int find_ledger(void* p) { for (int i = 0; i < nledger; i++) if (ledger[i].p == p) return i; return -1; }
static int id_of(const void* p) { int i = find_ledger(const_cast<void*>(p)); return i < 0 ? 0 : ledger[i].id; }

void* operator new[](std::size_t size) {
  if (in_window) {
    window_news++;
    if (fail_at > 0 && window_news == fail_at) { fault_fired = true; throw std::bad_alloc(); }
  }
  void* p = malloc(size ? size : 1);
  if (!p) throw std::bad_alloc();
  if (nledger >= 4096) { fprintf(stderr, "ledger overflow\n"); _exit(3); }
  int id = -1;
  if (in_window) {
    id = 0;
    for (int i = 1; i <= MAXB; i++) if (!id_used[i]) { id = i; break; }
    if (id == 0) { fprintf(stderr, "out of block ids\n"); _exit(3); }
    id_used[id] = true;
    add_hev("new", id);
  }
  ledger[nledger].p = p; ledger[nledger].id = id; nledger++;
  return p;
}
void operator delete[](void* p) noexcept {
  if (!p) return;
  int i = find_ledger(p);
  if (i < 0) { add_hev("badfree", 0); return; }      // not a live new[] block: double free or foreign memory; do not pass it on
  if (ledger[i].id > 0) { add_hev("del", ledger[i].id); id_used[ledger[i].id] = false; }
  ledger[i] = ledger[nledger - 1]; nledger--;
  free(p);
}
void operator delete[](void* p, std::size_t) noexcept { operator delete[](p); }
void* operator new(std::size_t size) { void* p = malloc(size ? size : 1); if (!p) throw std::bad_alloc(); if (in_window) scalar_live++; return p; }
void operator delete(void* p) noexcept { if (p && in_window) scalar_live--; free(p); }
void operator delete(void* p, std::size_t) noexcept { operator delete(p); }

static void heap_sink(const char* tag, const void* p0, const void* p1, long a, long b) {
  if (!strcmp(tag, "heap.cached")) add_hev("cached", id_of(p0));
  else if (!strcmp(tag, "heap.hit")) add_hev("hit", id_of(p0));
}

// ------------------------------------------------------------------ pool, external buffers
static const int K = 6, NE = 4;
alignas(64) static unsigned char slots[K][sizeof(SU_vector) + 64];
static bool live[K];
static SU_vector& V(int i) { return *reinterpret_cast<SU_vector*>(slots[i]); }
static double* ebase[NE];
static double* eptr[NE];
static int edim[NE];
static long ncached = 0;

typedef detail::verif_access VA;

// pattern values of the specification (module Exact: PatCoef / Pattern; module SUVec: WriteVal, ExtInitVal)
static long patcoef(long s, long k) { long v = (s * 7 + k * k * 3 + k * (s + 1) + s * s) % 5; return v - 2; }
static void fill_pattern(double* c, int d, long s) {
  for (int k = 0; k < d * d; k++) {
    int i = k / d, j = k % d;
    double f = (k == 0 || i != j) ? 1.0 : std::sqrt(i * (i + 1.0) / 2.0);   // c_k = u_k sqrt(n_k/2)
    c[k] = patcoef(s, k) * f;
  }
}
static void fill_write(double* c, int d, long cc) {
  if (cc % 2 == 0) {
    Mat M(d);
    for (int i = 1; i <= d; i++) M(i - 1, i - 1) = (double)((i * (cc / 2)) % 4);
    std::vector<double> v = comps_from_matrix(M);
    for (int k = 0; k < d * d; k++) c[k] = v[k];
  } else fill_pattern(c, d, cc);
}

// ------------------------------------------------------------------ logging
static std::string js_val(const double* c, int d) {
  std::vector<double> v(c, c + d * d);
  Mat M = matrix_from_comps(v, d);
  std::ostringstream o;
  bool nonint = false;
  o << "[";
  for (int k = 0; k < d * d; k++) {
    double re = M.a[k].real(), im = M.a[k].imag();
    double rr = std::floor(re + 0.5), ri = std::floor(im + 0.5);
    if (!(std::fabs(re - rr) <= 1e-6) || !(std::fabs(im - ri) <= 1e-6) || std::fabs(rr) > 1e9 || std::fabs(ri) > 1e9) { nonint = true; rr = ri = 0; }
    o << (k ? "," : "") << "[" << (long)rr << "," << (long)ri << "]";
  }
  o << "]";
  if (nonint) return "[],\"ni\":true";
  return o.str() + ",\"ni\":false";
}
static int ext_of(const double* p) { for (int e = 0; e < NE; e++) if (eptr[e] && p == eptr[e]) return e + 1; return 0; }

static void log_event(const std::string& head, const char* out, long fail_logged) {
  std::ostringstream o;
  o << "{" << head << ",\"fail\":" << fail_logged << ",\"out\":\"" << out << "\",\"hev\":[";
  for (int i = 0; i < nhev; i++) o << (i ? "," : "") << "[\"" << hevs[i].k << "\"," << hevs[i].id << "]";
  o << "],\"post\":[";
  for (int i = 0; i < K; i++) {
    o << (i ? "," : "");
    if (!live[i]) { o << "{\"live\":false,\"dim\":0,\"lk\":\"null\",\"id\":0,\"owns\":false,\"ext\":false,\"val\":[],\"ni\":false}"; continue; }
    const SU_vector& v = V(i);
    const double* p = VA::components(v);
    bool owns = VA::isinit(v), ext = VA::isinit_d(v);
    unsigned dim = v.Dim();
    const char* lk = "null"; int id = 0;
    // a vector that neither owns nor is bound has no meaningful pointer unless its size is non-zero (dangling)
    bool has_ptr = owns || ext || (VA::size(v) != 0 && p != nullptr);
    if (has_ptr && p) {
      int e = ext_of(p);
      if (e) { lk = "ext"; id = e; }
      else { lk = "blk"; id = id_of(p - VA::ptr_offset(v)); }
    }
    o << "{\"live\":true,\"dim\":" << dim << ",\"lk\":\"" << lk << "\",\"id\":" << id << ",\"owns\":" << (owns ? "true" : "false")
      << ",\"ext\":" << (ext ? "true" : "false") << ",\"sz\":" << v.Size() << ",\"val\":";
    if ((owns || ext) && p && dim >= 2 && dim <= 6) o << js_val(p, dim); else o << "[],\"ni\":false";
    o << "}";
  }
  o << "],\"ebuf\":[";
  for (int e = 0; e < NE; e++) {
    o << (e ? "," : "") << "{\"dim\":" << edim[e] << ",\"val\":";
    if (edim[e]) o << js_val(eptr[e], edim[e]); else o << "[],\"ni\":false";
    o << "}";
  }
  o << "],\"scalar\":" << scalar_live << "}";
  puts(o.str().c_str());
}

static std::string q(const std::string& s) { return "\"" + s + "\""; }
static std::string head_of(const std::string& name, int t, int a, int b, const std::string& op, const std::string& w, long d, long e, long c, bool arv, bool brv) {
  std::ostringstream o;
  o << "\"e\":" << q(name) << ",\"t\":" << t << ",\"a\":" << a << ",\"b\":" << b << ",\"op\":" << q(op) << ",\"w\":" << q(w)
    << ",\"d\":" << d << ",\"ee\":" << e << ",\"c\":" << c << ",\"arv\":" << (arv ? "true" : "false") << ",\"brv\":" << (brv ? "true" : "false");
  return o.str();
}

static void bind_ext(int e, int d) {       // first use of a user buffer: fix its dimension, fill it with the specification's initial pattern
  if (edim[e] == 0) {
    edim[e] = d;
    eptr[e] = ebase[e] + ((d % 2) ? 3 : 0);    // optimal alignment: even -> 32 bytes, odd -> second component 32 bytes
    fill_pattern(eptr[e], d, 10 + (e + 1));
  }
}

template <typename F>
static void window(const std::string& head, long fail, F f) {
  nhev = 0; window_news = 0; fault_fired = false; fail_at = fail; scalar_live = 0;
  const char* out = "ok";
  in_window = true;
  try { f(); }
  catch (DriverError& e) { in_window = false; fprintf(stderr, "driver error: %s\n", e.what()); fflush(stdout); _exit(3); }
  catch (std::bad_alloc&) { out = "bad_alloc"; }
  catch (std::runtime_error&) { out = "rt"; }
  catch (std::exception&) { out = "other"; }
  in_window = false;
  fail_at = 0;
  for (int i = 0; i < nhev; i++) { if (!strcmp(hevs[i].k, "cached")) ncached++; if (!strcmp(hevs[i].k, "hit")) ncached--; }
  log_event(head, out, fault_fired ? fail : 0);
}

static bool aligned_ok(const SU_vector& v) {
  const double* p = VA::components(v);
  return p && (((intptr_t)(p + v.Dim() % 2)) % 32 == 0);
}

int main(int argc, char** argv) {
  verif::event_sink() = heap_sink;
  for (int e = 0; e < NE; e++) { void* p = nullptr; if (posix_memalign(&p, 64, 64 * sizeof(double))) return 3; ebase[e] = (double*)p; eptr[e] = nullptr; edim[e] = 0; }
  std::string line;
  static double fastbuf[64];
  while (std::getline(std::cin, line)) {
    if (line.empty() || line[0] == '#') continue;
    std::istringstream in(line);
    std::string cmd; in >> cmd;
    if (cmd == "RESET") {
      for (int i = 0; i < K; i++) if (live[i]) {
        window(head_of("Destroy", i, -1, -1, "", "", 0, 0, 0, false, false), 0, [&] { V(i).~SU_vector(); live[i] = false; }); }
      if (ncached > 0) { window(head_of("ClearCache", -1, -1, -1, "", "", 0, 0, 0, false, false), 0, [&] { SU_vector::clear_mem_cache(); }); ncached = 0; }
      int leaked = 0; for (int i = 0; i < nledger; i++) if (ledger[i].id > 0) leaked++;
      printf("{\"e\":\"Reset\",\"leaked\":%d}\n", leaked);
      // forget leaked blocks so that later segments are judged on their own
      for (int i = 0; i < nledger;) { if (ledger[i].id > 0) { id_used[ledger[i].id] = false; ledger[i] = ledger[nledger - 1]; nledger--; } else i++; }
      for (int e = 0; e < NE; e++) { edim[e] = 0; eptr[e] = nullptr; }
      ncached = 0;
      continue;
    }
    int t = -1, a = -1, b = -1; long d = 0, e = 0, c = 0, fail = 0; std::string w, op; int arv = 0, brv = 0, flags = 0;
    if (cmd == "NewEmpty") { in >> t; window(head_of(cmd, t, a, b, "", "", 0, 0, 0, 0, 0), 0, [&] { new (slots[t]) SU_vector(); live[t] = true; }); }
    else if (cmd == "NewSized") { in >> t >> d >> fail; window(head_of(cmd, t, a, b, "", "", d, 0, 0, 0, 0), fail, [&] { new (slots[t]) SU_vector((unsigned)d); live[t] = true; }); }
    else if (cmd == "MakeAligned") { in >> t >> d >> fail; window(head_of(cmd, t, a, b, "", "", d, 0, 0, 0, 0), fail, [&] { new (slots[t]) SU_vector(SU_vector::make_aligned((unsigned)d)); live[t] = true; }); }
    else if (cmd == "NewFromList") {
      in >> t >> d >> c >> fail;   // d = list length
      std::vector<double> data((size_t)d, 0.0);
      int dd = (int)std::floor(std::sqrt((double)d) + 0.5);
      if ((long)dd * dd == d && dd >= 2 && dd <= 6) fill_write(data.data(), dd, c);
      window(head_of(cmd, t, a, b, "", "", d, 0, c, 0, 0), fail, [&] { new (slots[t]) SU_vector(data); live[t] = true; });
    }
    else if (cmd == "NewFromMatrix") {
      in >> t >> d >> e >> c >> fail;   // d x e matrix
      gsl_matrix_complex* m = gsl_matrix_complex_calloc(d, e);
      if (d == e && d >= 2 && d <= 6) { std::vector<double> cc(d * d); fill_write(cc.data(), d, c); Mat M = matrix_from_comps(cc, d);
        for (int i = 0; i < d; i++) for (int j = 0; j < d; j++) gsl_matrix_complex_set(m, i, j, gsl_complex_rect(M(i, j).real(), M(i, j).imag())); }
      window(head_of("NewFromList", t, a, b, "", "", d == e ? d * d : 0 - 0 + 5, 0, c, 0, 0), fail, [&] { new (slots[t]) SU_vector(m); live[t] = true; });
      gsl_matrix_complex_free(m);
    }
    else if (cmd == "NewExt") { in >> t >> d >> e; if (d >= 2 && d <= 6) bind_ext(e - 1, d);
      double* p = (d >= 2 && d <= 6) ? eptr[e - 1] : ebase[e - 1];
      window(head_of(cmd, t, a, b, "", "", d, e, 0, 0, 0), 0, [&] { new (slots[t]) SU_vector((unsigned)d, p); live[t] = true; }); }
    else if (cmd == "NewCopy") { in >> t >> a >> fail; window(head_of(cmd, t, a, b, "", "", 0, 0, 0, 0, 0), fail, [&] { new (slots[t]) SU_vector(V(a)); live[t] = true; }); }
    else if (cmd == "NewMove") { in >> t >> a; window(head_of(cmd, t, a, b, "", "", 0, 0, 0, 0, 0), 0, [&] { new (slots[t]) SU_vector(std::move(V(a))); live[t] = true; }); }
    else if (cmd == "Destroy") { in >> t; window(head_of(cmd, t, a, b, "", "", 0, 0, 0, 0, 0), 0, [&] { V(t).~SU_vector(); live[t] = false; }); }
    else if (cmd == "ClearCache") { window(head_of(cmd, t, a, b, "", "", 0, 0, 0, 0, 0), 0, [&] { SU_vector::clear_mem_cache(); }); ncached = 0; }
    else if (cmd == "Write") { in >> t >> c;
      window(head_of(cmd, t, a, b, "", "", 0, 0, c, 0, 0), 0, [&] { SU_vector& v = V(t); std::vector<double> tmp(36); fill_write(tmp.data(), v.Dim(), c);
        for (unsigned k = 0; k < v.Size(); k++) v[k] = tmp[k]; }); }
    else if (cmd == "SetBackingStore") { in >> t >> e; bind_ext(e - 1, V(t).Dim());
      window(head_of(cmd, t, a, b, "", "", 0, e, 0, 0, 0), 0, [&] { V(t).SetBackingStore(eptr[e - 1]); }); }
    else if (cmd == "CopyAssign") { in >> t >> a >> fail; window(head_of(cmd, t, a, b, "", "", 0, 0, 0, 0, 0), fail, [&] { V(t) = V(a); }); }
    else if (cmd == "MoveAssign") { in >> t >> a; window(head_of(cmd, t, a, b, "", "", 0, 0, 0, 0, 0), 0, [&] { V(t) = std::move(V(a)); }); }
    else if (cmd == "CompoundVec") { in >> t >> w >> a; window(head_of(cmd, t, a, b, "", w, 0, 0, 0, 0, 0), 0, [&] { if (w == "+=") V(t) += V(a); else V(t) -= V(a); }); }
    else if (cmd == "CompoundScalar") { in >> t >> w; window(head_of(cmd, t, a, b, "", w, 0, 0, 0, 0, 0), 0, [&] { if (w == "*=") V(t) *= 3.0; else V(t) /= 0.5; }); }
    else if (cmd == "Burst") { long n; in >> d >> n;     // n temporaries of one dimension alive at once, then all released (cache capacity)
      window(head_of(cmd, t, a, b, "", "", d, 0, n, 0, 0), 0, [&] {
        std::vector<SU_vector> tmp; tmp.reserve(n);
        for (long i = 0; i < n; i++) tmp.emplace_back((unsigned)d);
        tmp.clear(); }); }
    else if (cmd == "Probe") { in >> t >> op;    // read-only calls that create internal temporaries
      window(head_of(cmd, t, a, b, op, "", 0, 0, 0, 0, 0), 0, [&] {
        const SU_vector& v = V(t);
        if (op == "rotate") { SU_vector r = v.Rotate(0, 1, 0.3, 0.1); (void)r; }
        else if (op == "real") { SU_vector r = v.Real(); (void)r; }
        else if (op == "matrix") { auto m = v.GetGSLMatrix(); SU_vector r(m.get()); (void)r; }
        else throw DriverError("bad probe"); }); }
    else if (cmd == "BinaryRead") { in >> op >> a >> b;   // calls that must reject mismatched dimensions, no state change
      window(head_of(cmd, t, a, b, op, "", 0, 0, 0, 0, 0), 0, [&] {
        if (op == "dot") { volatile double x = V(a) * V(b); (void)x; }
        else if (op == "rotateU") { gsl_matrix_complex* m = gsl_matrix_complex_calloc(V(b).Dim(), V(b).Dim()); gsl_matrix_complex_set_identity(m);
          try { SU_vector r = V(a).Rotate(m); (void)r; } catch (...) { gsl_matrix_complex_free(m); throw; } gsl_matrix_complex_free(m); }
        else if (op == "eq") { volatile bool x = (V(a) == V(b)); (void)x; }
        else throw DriverError("bad binary read"); }); }
    else if (cmd == "Factory") { in >> t >> op >> d >> c; if (!(in >> fail)) fail = 0;
      window(head_of(cmd, t, a, b, op, "", d, 0, c, 0, 0), fail, [&] {
        if (op == "projector") new (slots[t]) SU_vector(SU_vector::Projector(d, c));
        else if (op == "identity") new (slots[t]) SU_vector(SU_vector::Identity(d));
        else if (op == "generator") new (slots[t]) SU_vector(SU_vector::Generator(d, c));
        else if (op == "posproj") new (slots[t]) SU_vector(SU_vector::PosProjector(d, c));
        else if (op == "negproj") new (slots[t]) SU_vector(SU_vector::NegProjector(d, c));
        else throw DriverError("bad factory");
        live[t] = true; }); }
    else if (cmd == "AssignExpr") {
      long k;
      in >> t >> w >> op >> a >> b >> arv >> brv >> k >> fail >> flags;
      int wi = w == "=" ? W_ASSIGN : w == "+=" ? W_INC : w == "-=" ? W_DEC : W_CTOR;
      SU_vector& A = V(a); SU_vector& B = V(b);
      // only true guarantees may be asserted (asserting a false one is undefined by the documentation)
      int f = 0;
      if (wi != W_CTOR && flags) {
        SU_vector& T = V(t);
        const double* tp = VA::components(T);
        bool noalias = tp != VA::components(A) && tp != VA::components(B);
        bool eqsz = T.Size() == (op == "add" && brv && !arv ? B.Size() : A.Size()) && T.Size() == A.Size() && T.Size() == B.Size();
        bool al = aligned_ok(T) && aligned_ok(A) && aligned_ok(B);
        if ((flags & 1) && noalias) f |= 1;
        if ((flags & 2) && eqsz) f |= 2;
        if ((flags & 4) && al) f |= 4;
        if (f == 6) f = 2;      // instantiated flag sets: 0 1 2 3 4 5 7
      }
      if (op == "fastevolve") { unsigned dd = A.Dim(); if (dd >= 2 && dd <= 6) { Mat H(dd); for (unsigned i = 0; i < dd; i++) H(i, i) = (double)i;
          std::vector<double> hc = comps_from_matrix(H); static double hstore[40]; for (unsigned q2 = 0; q2 < dd * dd; q2++) hstore[q2] = hc[q2];
          SU_vector Hv(dd, hstore); /* user storage: no library allocation outside a recorded call */ Hv.PrepareEvolve(fastbuf, k * M_PI / 2); } }
      std::ostringstream hd; hd << head_of(cmd, t, a, b, op, w, 0, 0, k, arv, brv) << ",\"flags\":" << f;
      window(hd.str(), fail, [&] {
        void* ts = slots[t];
        if (op == "add") expr_add(wi, ts, A, B, arv, brv, (double)k, fastbuf, f);
        else if (op == "sub") expr_sub(wi, ts, A, B, arv, brv, (double)k, fastbuf, f);
        else if (op == "neg") expr_neg(wi, ts, A, B, arv, brv, (double)k, fastbuf, f);
        else if (op == "smul") expr_smul(wi, ts, A, B, arv, brv, (double)k, fastbuf, f);
        else if (op == "icomm") expr_icomm(wi, ts, A, B, arv, brv, (double)k, fastbuf, f);
        else if (op == "acomm") expr_acomm(wi, ts, A, B, arv, brv, (double)k, fastbuf, f);
        else if (op == "evolve") expr_evolve(wi, ts, A, B, arv, brv, (double)k, fastbuf, f);
        else if (op == "fastevolve") expr_fastevolve(wi, ts, A, B, arv, brv, (double)k, fastbuf, f);
        else if (op == "elementwise") expr_elementwise(wi, ts, A, B, arv, brv, (double)k, fastbuf, f);
        else throw DriverError("bad op " + op);
        if (wi == W_CTOR) live[t] = true; });
    }
    else { fprintf(stderr, "unknown command: %s\n", cmd.c_str()); return 3; }
    fflush(stdout);
  }
  puts("{\"e\":\"End\"}");
  fflush(stdout);
  _exit(0);
}
