// Deterministic coroutine scheduler for the shared (lock-free) variant of squids::detail::cache.
//
// Cache.h is compiled WITHOUT SQUIDS_THREAD_LOCAL (it needs only <atomic>), with -DSQUIDS_VERIF so that
// SQUIDS_VERIF_YIELD(tag,obj,a) in front of every atomic load / CAS / plain access of next / data calls
// the sink installed here. Each logical thread is a ucontext coroutine running the real insert()/get();
// the sink swaps back to the scheduler, which resumes exactly the thread named by the next step. Exactly
// one coroutine runs between two yields, so the execution is the sequentially consistent interleaving
// the specification (spec/LFCache.tla) describes, step for step.
#ifndef LFCACHE_SCHED_H
#define LFCACHE_SCHED_H

#include <atomic>
#include <cstdint>
#include <cstddef>
#include <stdint.h>
#include <cstdio>
#include <cstdlib>
#include <cstring>
#include <new>
#include <string>
#include <vector>
#include <ucontext.h>

#ifdef SQUIDS_THREAD_LOCAL
#error "lfcache_sched.h drives the shared variant: do not define SQUIDS_THREAD_LOCAL"
#endif
#ifndef SQUIDS_VERIF
#error "compile with -DSQUIDS_VERIF"
#endif

// the harness projects the private fields (entries, free_list, data_list) onto the specification's
// variables; all standard headers are already included above
#include <SQuIDS/detail/Verif.h>   // also when Cache.h carries no hooks yet: the check then reports that, instead of a compile error
#define private public
#include <SQuIDS/detail/Cache.h>
#undef private

namespace lfc {

// pc codes = yield points (same order as PcNames in tools/c19_lib.py)
enum Pc { IDLE = 0, POPLOAD, POPNEXT, POPCAS, INSWRITE, PUSHLOAD, PUSHLINK, PUSHCAS, GETREAD, RET, NPC };
static const char* const pc_name[NPC] = {"idle", "popLoad", "popNext", "popCas", "insWrite", "pushLoad",
                                         "pushLink", "pushCas", "getRead", "ret"};
static const char* const pc_tag[NPC] = {"idle", "pop.load", "pop.next", "pop.cas", "ins.write", "push.load",
                                        "push.link", "push.cas", "get.read", "ret"};
enum Op { NONE = 0, INS = 1, GET = 2 };
enum Lst { LNONE = 0, LFREE = 1, LDATA = 2 };

struct HeadPOD { uint32_t counter, index; };

static const int MAXT = 4;
static const size_t STACK = 256 * 1024;

struct Thread {
  ucontext_t ctx;
  char* stack;
  int pc;            // where it is parked
  const void* obj;   // obj of the yield it is parked at
  long a;            // a    of the yield it is parked at
  int op;            // command for the next / running call
  int val;           // value to insert
  int res;           // result of the last returned call
  int done;          // completed calls
  bool force_fail;   // make the CAS it is parked in front of fail (emulates a spurious failure)
  bool finished;     // body ran off its end (never in a correct run)
};

struct SchedBase {
  ucontext_t main_ctx;
  Thread th[MAXT];
  int cur;
  int nt;
  virtual void call(int t) = 0;   // run one public call of thread t on the real cache
  virtual ~SchedBase() {}
};

static SchedBase* g_sched = nullptr;

static int tag_to_pc(const char* tag) {
  for (int i = 0; i < NPC; i++)
    if (!strcmp(tag, pc_tag[i])) return i;
  return -1;
}

// the yield sink: runs on the coroutine's stack
static void yield_hook(const char* tag, const void* obj, long a) {
  SchedBase* s = g_sched;
  if (!s || s->cur < 0) return;   // called outside a coroutine (sequential use): no scheduling
  Thread& me = s->th[s->cur];
  me.pc = tag_to_pc(tag);
  me.obj = obj;
  me.a = a;
  swapcontext(&me.ctx, &s->main_ctx);
  // resumed: the access in front of which we were parked happens now
  if (me.force_fail) {
    me.force_fail = false;
    if (me.pc == POPCAS || me.pc == PUSHCAS) {
      // obj is &orig, the expected value of the compare-exchange about to run: spoil its counter so the
      // CAS fails and reloads orig with the (unchanged) head - exactly the effect of a spurious failure
      HeadPOD h;
      memcpy(&h, obj, sizeof h);
      h.counter ^= 0x40000000u;
      memcpy(const_cast<void*>(obj), &h, sizeof h);
    }
  }
}

static void thread_body(int t) {
  SchedBase* s = g_sched;
  for (;;) {
    yield_hook("idle", nullptr, 0);
    s->call(t);
    yield_hook("ret", nullptr, 0);
    s->th[t].done++;   // the specification's Return step
  }
}

template <unsigned N>
struct Sched : SchedBase {
  typedef squids::detail::cache<int, N> Cache;
  alignas(64) unsigned char store[sizeof(Cache)];
  Cache* c;

  Sched() : c(nullptr) {
    for (int t = 0; t < MAXT; t++) th[t].stack = (char*)malloc(STACK);
  }
  ~Sched() {
    for (int t = 0; t < MAXT; t++) free(th[t].stack);
  }

  void call(int t) {
    Thread& T = th[t];
    if (T.op == INS)
      T.res = c->insert(T.val) ? 1 : 0;
    else
      T.res = c->get();
  }

  // fresh cache, fresh coroutines, all parked at "idle"
  void reset(int nthreads) {
    nt = nthreads;
    g_sched = this;
    squids::verif::yield_sink() = yield_hook;
    c = new (store) Cache();
    // record.data is not initialised by the constructor; the specification starts from T() = 0
    // (done after construction: stores before a constructor are dead to the optimiser)
    for (unsigned i = 0; i < N; i++) c->entries[i].data = 0;
    cur = -1;
    for (int t = 0; t < nt; t++) {
      Thread& T = th[t];
      getcontext(&T.ctx);
      T.ctx.uc_stack.ss_sp = T.stack;
      T.ctx.uc_stack.ss_size = STACK;
      T.ctx.uc_link = &main_ctx;
      T.pc = -1; T.obj = nullptr; T.a = 0; T.op = NONE; T.val = 0; T.res = 0; T.done = 0;
      T.force_fail = false; T.finished = false;
      makecontext(&T.ctx, (void (*)())thread_body, 1, t);
      resume(t);   // runs to the first "idle"
    }
  }

  void resume(int t) {
    cur = t;
    swapcontext(&main_ctx, &th[t].ctx);
    cur = -1;
  }

  // one scheduler step: thread t performs the access it is parked at and runs to its next yield point.
  // For a thread parked at "idle" op/val select the call it starts; at "ret" it goes back to "idle".
  void step(int t, int op, int val, bool spur) {
    Thread& T = th[t];
    if (T.pc == IDLE) { T.op = op; T.val = val; }
    T.force_fail = spur;
    resume(t);
  }

  // ---- projection of the real object onto the specification's variables ----
  HeadPOD head(int which) const {   // 0 free, 1 data
    typename Cache::list_head h = (which == 0 ? c->free_list : c->data_list).load();
    HeadPOD r; r.counter = h.counter; r.index = h.index; return r;
  }
  int nxt(unsigned i) const {
    return c->entries[i].next ? int(c->entries[i].next - c->entries) : int(N);
  }
  int dat(unsigned i) const { return c->entries[i].data; }
  int lst_of(const void* p) const {
    if (p == (const void*)&c->free_list) return LFREE;
    if (p == (const void*)&c->data_list) return LDATA;
    return LNONE;
  }
  HeadPOD orig_of(int t) const {
    HeadPOD h; memcpy(&h, th[t].obj, sizeof h); return h;
  }
};

}  // namespace lfc
#endif
