// Linked into the programs under examples/ (rebuilt with -DSQUIDS_VERIF): installs an event sink before main() and writes
// the solver-protocol events of the run (hooks in SQuIDS.cpp only - the examples' classes are not instrumented) as ndjson to
// $SQUIDS_VERIF_TRACE; after $SQUIDS_VERIF_MAXEV events the trace is closed at the next Evolve boundary and the process
// ends (the examples run for minutes).  Objects and addresses are interned to small integers in order of first appearance.
#include <SQuIDS/detail/Verif.h>
#include <cstdio>
#include <cstdlib>
#include <cstring>
#include <unistd.h>
namespace {
FILE* out = nullptr;
long nev = 0, maxev = 6000;
const void* objs[8]; int nobj = 0;
const void* addrs[600]; int naddr = 0;
int oid(const void* p) { for (int i = 0; i < nobj; i++) if (objs[i] == p) return i + 1; if (nobj < 8) { objs[nobj++] = p; return nobj; } return 0; }
int aid(const void* p) { if (!p) return 0; for (int i = 0; i < naddr; i++) if (addrs[i] == p) return i + 1; if (naddr < 599) { addrs[naddr++] = p; return naddr; } return -1; }
struct { int o, sp, dp, eact, dact; bool open; } cur;
long nrhs = 0; int sysid = 0; bool first_at_sys = true;
int pending_ini_o = 0, pending_ini_sys = 0;
void finish(int code) { if (out) { fprintf(out, "{\"e\":\"End\"}\n"); fclose(out); out = nullptr; } _exit(code); }
void flush_rhs() {
  if (!cur.open || !out) return;
  cur.open = false;
  fprintf(out, "{\"e\":\"Rhs\",\"o\":%d,\"sp\":%d,\"dp\":%d,\"eact\":%d,\"dact\":%d}\n", cur.o, cur.sp, cur.dp, cur.eact, cur.dact);
  nev++;
}
void sink(const char* tag, const void* p0, const void* p1, long a, long b) {
  if (!out || strncmp(tag, "sq.", 3) != 0) return;
  int o = oid(p0);
  if (!strcmp(tag, "sq.bind")) { flush_rhs(); cur.open = true; cur.o = o; cur.sp = aid(p1); if (nrhs == 0) first_at_sys = (cur.sp == sysid); nrhs++; }
  else if (!strcmp(tag, "sq.bind.e")) cur.eact = aid(p1);
  else if (!strcmp(tag, "sq.bind.d")) cur.dact = aid(p1);
  else if (!strcmp(tag, "sq.bind.dp")) cur.dp = aid(p1);
  else if (!strcmp(tag, "sq.ini")) { pending_ini_o = o; pending_ini_sys = aid(p1); }
  else if (!strcmp(tag, "sq.ini.cache")) { fprintf(out, "{\"e\":\"Ini\",\"o\":%d,\"sys\":%d,\"cacheclear\":%s}\n", pending_ini_o, pending_ini_sys, (p1 == nullptr && a == 0) ? "true" : "false"); nev++; }
  else if (!strcmp(tag, "sq.evolve.start")) { nrhs = 0; first_at_sys = true; sysid = aid(p1);
    fprintf(out, "{\"e\":\"EvolveStart\",\"o\":%d,\"sys\":%d,\"num\":%ld,\"paramsok\":%s}\n", o, sysid, a, b ? "true" : "false"); nev++; }
  else if (!strcmp(tag, "sq.evolve.driverfreed")) flush_rhs();
  else if (!strcmp(tag, "sq.evolve.end")) {
    fprintf(out, "{\"e\":\"EvolveEnd\",\"o\":%d,\"eact\":%d,\"num\":%ld,\"nrhs\":%ld,\"contract\":%s}\n", o, aid(p1), a, nrhs, first_at_sys ? "true" : "false"); nev++;
    fflush(out);
    if (nev >= maxev) finish(0);
  }
  else if (!strcmp(tag, "sq.movector") || !strcmp(tag, "sq.moveassign")) {
    fprintf(out, "{\"e\":\"Move\",\"dst\":%d,\"src\":%d,\"ctor\":%s}\n", o, oid(p1), !strcmp(tag, "sq.movector") ? "true" : "false"); nev++; }
  if (naddr >= 598 || nobj >= 8) finish(0);       // out of the trace specification's window: stop at what was seen
}
void at_exit() { if (out) { fprintf(out, "{\"e\":\"End\"}\n"); fclose(out); out = nullptr; } }
struct Installer {
  Installer() {
    const char* f = getenv("SQUIDS_VERIF_TRACE");
    if (!f) return;
    out = fopen(f, "w");
    if (getenv("SQUIDS_VERIF_MAXEV")) maxev = atol(getenv("SQUIDS_VERIF_MAXEV"));
    squids::verif::event_sink() = sink; atexit(at_exit);
  }
} installer;
}
