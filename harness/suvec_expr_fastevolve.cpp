#include "suvec_drive.h"
#define VOP OP_FASTEVOLVE
#define VFUNC expr_fastevolve
#include "suvec_expr.inc"
