// Replayer for module ExpFamilies (C07): executes call sequences exported by TLC on the real
// squids::math_detail::matrix_exponential and SU_vector::UTransform(V, i*s), every sequence on a fresh thread
// (so the thread-local scratch state starts empty and then carries the history), and compares every result
// with the specification's exact exponential.
//
// stdin records:
//   CASE id f n sa sn anti lat  m[n] k[n]  U[n*n*5] AL[n*n*5] AP[n*n*5]  AN[n*n]  NP[n][n*n]  B[n*n*5]  hasE E[n*n*5] hasUT UT[n*n*5]
//   SEQ idx len tok...          tok = <id> (direct call) or u<id> (through UTransform; anti-Hermitian cases only)
// stdout:
//   FAIL seq pos id how class err tol m s : text      one per failing comparison
//   XCHECK id err tol                                 harness evaluation of the spec formula disagrees with TLC's exact value
//   DRIFT seq pos id m s m0 s0                        branch differs from the one first seen for the case
//   BAND id m s                                       branch first seen for every case (m=-2: threw before a branch was chosen)
//   DONE nseq ncalls nfail maxratio
#include <SQuIDS/SUNalg.h>
#include <SQuIDS/detail/MatrixExp.h>
#include <SQuIDS/detail/Verif.h>
#include <gsl/gsl_matrix.h>
#include <gsl/gsl_complex_math.h>
#include <gsl/gsl_errno.h>
#include "exact.h"
#include <map>
#include <thread>
#include <sstream>
#include <memory>

using namespace squids;
typedef long double ld;
typedef std::complex<ld> cl;

static double CFAC = 1e3;

struct Case {
  long id; int f, n, sa, sn, anti, lat;
  std::vector<long> m, k;
  Mat U, AL, AP, B, E, UT;
  std::vector<long> AN;
  std::vector<std::vector<long> > NP;
  bool hasE, hasUT;
  // derived
  Mat A;        // the double-precision argument
  Mat Eh;       // the specification's formula evaluated in long double
  Mat H;        // Hermitian generator -i*AP (anti-Hermitian cases)
  double nA, nE;
  long m0, s0; bool seen;
};

static thread_local long ev_m = -1, ev_s = -1, ev_n = 0;
// GSL reports misuse (e.g. a scratch matrix of the wrong size) through its error handler, which aborts by default;
// record the first message instead so that it is reported as a failure of the call that caused it
static thread_local int gsl_errs = 0;
static thread_local char gsl_msg[160];
static void gsl_handler(const char* reason, const char* file, int line, int) {
  if (!gsl_errs++) snprintf(gsl_msg, sizeof gsl_msg, "%s (%s:%d)", reason, file, line);
}
static void sink(const char* tag, const void*, const void*, long a, long b) {
  if (std::string(tag) == "expm.branch") { ev_m = a; ev_s = b; ev_n++; }
}

static double norm1col(const Mat& M) {
  double best = 0;
  for (int j = 0; j < M.d; j++) { double s = 0; for (int i = 0; i < M.d; i++) s += std::abs(M(i, j)); if (s > best) best = s; }
  return best;
}
static bool allfinite(const Mat& M) {
  for (const cd& x : M.a) if (!std::isfinite(x.real()) || !std::isfinite(x.imag())) return false;
  return true;
}
static Mat mmul(const Mat& X, const Mat& Y) {
  int n = X.d; Mat R(n);
  for (int i = 0; i < n; i++) for (int j = 0; j < n; j++) { cl s = 0; for (int q = 0; q < n; q++) s += cl(X(i, q)) * cl(Y(q, j)); R(i, j) = cd((double)s.real(), (double)s.imag()); }
  return R;
}
static Mat dagger(const Mat& X) { int n = X.d; Mat R(n); for (int i = 0; i < n; i++) for (int j = 0; j < n; j++) R(i, j) = std::conj(X(j, i)); return R; }
static double diffnorm(const Mat& X, const Mat& Y) {
  Mat D(X.d); for (size_t i = 0; i < X.a.size(); i++) D.a[i] = X.a[i] - Y.a[i];
  return norm1col(D);
}
static cl zeta_pow(long k) {   // exp(i k pi/4), exact up to one rounding of sqrt(1/2)
  static const ld h = 0.70710678118654752440084436210484903928L;
  long r = ((k % 8) + 8) % 8;
  switch (r) { case 0: return cl(1, 0); case 1: return cl(h, h); case 2: return cl(0, 1); case 3: return cl(-h, h);
               case 4: return cl(-1, 0); case 5: return cl(-h, -h); case 6: return cl(0, -1); default: return cl(h, -h); }
}

static void derive(Case& c) {
  int n = c.n;
  const ld LN2 = 0.693147180559945309417232121458176568L, PI4 = 0.785398163397448309615660845819875721L;
  c.A = Mat(n);
  for (int i = 0; i < n * n; i++) {
    cl a = std::ldexp((ld)1, c.sa) * (LN2 * cl(c.AL.a[i]) + PI4 * cl(c.AP.a[i])) + std::ldexp((ld)1, c.sn) * (ld)c.AN[i];
    c.A.a[i] = cd((double)a.real(), (double)a.imag());
  }
  // W = sum_r exp(2^sa (m_r ln2 + i k_r pi/4)) u_r u_r^dagger
  std::vector<cl> w(n);
  for (int r = 0; r < n; r++) {
    if (c.sa == 0) w[r] = std::ldexp((ld)1, (int)c.m[r]) * zeta_pow(c.k[r]);
    else { ld sc = std::ldexp((ld)1, c.sa); ld re = sc * c.m[r] * LN2, im = sc * c.k[r] * PI4; w[r] = std::exp(re) * cl(std::cos(im), std::sin(im)); }
  }
  std::vector<cl> W(n * n), P(n * n, cl(0, 0));
  for (int i = 0; i < n; i++) for (int j = 0; j < n; j++) { cl s = 0; for (int r = 0; r < n; r++) s += cl(c.U(i, r)) * w[r] * std::conj(cl(c.U(j, r))); W[i * n + j] = s; }
  for (int p = 0; p < n; p++) { ld f = std::ldexp((ld)1, c.sn * p) / 120.0L; for (int i = 0; i < n * n; i++) P[i] += f * (ld)c.NP[p][i]; }
  c.Eh = Mat(n);
  for (int i = 0; i < n; i++) for (int j = 0; j < n; j++) { cl s = 0; for (int q = 0; q < n; q++) s += W[i * n + q] * P[q * n + j]; c.Eh(i, j) = cd((double)s.real(), (double)s.imag()); }
  c.H = Mat(n);
  for (int i = 0; i < n * n; i++) c.H.a[i] = cd(0, -1) * c.AP.a[i];
  c.nA = norm1col(c.A);
  const Mat& E = c.hasE ? c.E : c.Eh;
  c.nE = norm1col(E);
  c.seen = false; c.m0 = c.s0 = -1;
}

static std::map<long, Case> cases;
static long nfail = 0, ncalls = 0;
static double maxratio = 0;

static void fail(long seq, int pos, const Case& c, const char* how, const std::string& cls, double err, double tol, const std::string& text) {
  nfail++;
  printf("FAIL %ld %d %ld %s %s %.6g %.6g %ld %ld : %s\n", seq, pos, c.id, how, cls.c_str(), err, tol, ev_m, ev_s, text.c_str());
}

static SU_vector vec_from_matrix(const Mat& M) {
  std::vector<double> c = comps_from_matrix(M);
  SU_vector v(M.d);
  for (int k = 0; k < M.d * M.d; k++) v[k] = c[k];
  return v;
}
static Mat mat_of_vec(const SU_vector& v) {
  std::vector<double> c(v.Size());
  for (unsigned k = 0; k < v.Size(); k++) c[k] = v[k];
  return matrix_from_comps(c, v.Dim());
}
static std::string band_class() {
  if (ev_m < 0) return "nobranch";
  if (ev_m == 0) return "diag";
  std::ostringstream o; o << "pade" << ev_m; if (ev_m == 13) o << (ev_s > 0 ? "sq" : ""); return o.str();
}

static void note_band(long seq, int pos, Case& c, bool threw) {
  long m = threw && ev_n == 0 ? -2 : ev_m, s = threw && ev_n == 0 ? 0 : ev_s;
  if (!c.seen) { c.seen = true; c.m0 = m; c.s0 = s; }
  else if (c.m0 != m || c.s0 != s) printf("DRIFT %ld %d %ld %ld %ld %ld %ld\n", seq, pos, c.id, m, s, c.m0, c.s0);
}

static void do_direct(long seq, int pos, Case& c) {
  int n = c.n;
  const Mat& E = c.hasE ? c.E : c.Eh;
  // every other call passes argument and result as VIEWS into larger matrices (row stride tda != n): the same matrices
  bool asview = ((seq + pos) % 2) != 0;
  gsl_matrix_complex* bigA = gsl_matrix_complex_alloc(asview ? n + 2 : n, asview ? n + 3 : n);
  gsl_matrix_complex* bigR = gsl_matrix_complex_alloc(asview ? n + 3 : n, asview ? n + 2 : n);
  gsl_matrix_complex_set_all(bigA, gsl_complex_rect(1e3, -1e3));
  gsl_matrix_complex_view vA = gsl_matrix_complex_submatrix(bigA, asview ? 1 : 0, asview ? 2 : 0, n, n);
  gsl_matrix_complex_view vR = gsl_matrix_complex_submatrix(bigR, asview ? 2 : 0, asview ? 1 : 0, n, n);
  gsl_matrix_complex* A = &vA.matrix;
  gsl_matrix_complex* R = &vR.matrix;
  for (int i = 0; i < n; i++) for (int j = 0; j < n; j++) gsl_matrix_complex_set(A, i, j, gsl_complex_rect(c.A(i, j).real(), c.A(i, j).imag()));
  gsl_matrix_complex_set_all(R, gsl_complex_rect(NAN, NAN));
  ev_m = ev_s = -1; ev_n = 0; gsl_errs = 0;
  double tol = CFAC * n * EPS * std::max(1.0, c.nA) * c.nE;
  bool threw = false;
  try {
    math_detail::matrix_exponential(R, A);
    if (gsl_errs) fail(seq, pos, c, "direct", "gsl-error/" + band_class(), gsl_errs, 0, std::string("GSL error raised inside matrix_exponential: ") + gsl_msg);
    Mat Rm(n);
    for (int i = 0; i < n; i++) for (int j = 0; j < n; j++) { gsl_complex z = gsl_matrix_complex_get(R, i, j); Rm(i, j) = cd(GSL_REAL(z), GSL_IMAG(z)); }
    // the argument must not be modified
    for (int i = 0; i < n; i++) for (int j = 0; j < n; j++) { gsl_complex z = gsl_matrix_complex_get(A, i, j); if (GSL_REAL(z) != c.A(i, j).real() || GSL_IMAG(z) != c.A(i, j).imag()) { fail(seq, pos, c, "direct", "argument-modified/" + band_class(), 1, 0, "matrix_exponential changed its argument"); i = n; break; } }
    if (!allfinite(Rm)) fail(seq, pos, c, "direct", "nonfinite/" + band_class(), INFINITY, tol, "non-finite entries in exp(A)");
    else {
      double err = diffnorm(Rm, E);
      if (err / tol > maxratio) maxratio = err / tol;
      if (!(err <= tol)) fail(seq, pos, c, "direct", "accuracy/" + band_class(), err, tol, "||expm(A)-exp(A)||_1 too large, ||A||_1=" + std::to_string(c.nA));
    }
  } catch (std::exception& e) {
    threw = true;
    fail(seq, pos, c, "direct", std::string("throw/") + (ev_n ? band_class() : "nobranch"), INFINITY, tol, std::string("exception: ") + e.what());
  }
  note_band(seq, pos, c, threw);
  // strictly triangular arguments are nilpotent: exp(zA) = sum_{p<n} z^p A^p / p! is a finite sum for every complex z
  // (LawNilpotent of the specification). Exercise z = i: a purely imaginary strictly triangular matrix.
  {
    bool lower = true, upper = true, nz = false;
    for (int i = 0; i < n; i++) for (int j = 0; j < n; j++) {
      if (c.A(i, j) != cd(0, 0)) { nz = true; if (j >= i) lower = false; if (j <= i) upper = false; }
    }
    if (nz && (lower || upper) && c.nA <= 32) {
      typedef std::complex<long double> cl;
      std::vector<cl> P(n * n, cl(0, 0)), Sum(n * n, cl(0, 0)), Z(n * n);
      for (int i = 0; i < n; i++) { P[i * n + i] = cl(1, 0); Sum[i * n + i] = cl(1, 0); }
      for (int i = 0; i < n; i++) for (int j = 0; j < n; j++) Z[i * n + j] = cl(0, 1) * cl(c.A(i, j).real(), c.A(i, j).imag());
      long double fact = 1;
      for (int p = 1; p < n; p++) {
        std::vector<cl> Q(n * n, cl(0, 0));
        for (int i = 0; i < n; i++) for (int k = 0; k < n; k++) for (int j = 0; j < n; j++) Q[i * n + j] += P[i * n + k] * Z[k * n + j];
        P = Q; fact *= p;
        for (int q = 0; q < n * n; q++) Sum[q] += P[q] / fact;
      }
      Mat Ez(n); double nEz = 0;
      for (int j = 0; j < n; j++) { double col = 0; for (int i = 0; i < n; i++) { Ez(i, j) = cd((double)Sum[i * n + j].real(), (double)Sum[i * n + j].imag()); col += std::abs(Ez(i, j)); } nEz = std::max(nEz, col); }
      for (int i = 0; i < n; i++) for (int j = 0; j < n; j++) gsl_matrix_complex_set(A, i, j, gsl_complex_rect((double)Z[i * n + j].real(), (double)Z[i * n + j].imag()));
      gsl_matrix_complex_set_all(R, gsl_complex_rect(NAN, NAN));
      gsl_errs = 0;
      try {
        math_detail::matrix_exponential(R, A);
        Mat Rz(n);
        for (int i = 0; i < n; i++) for (int j = 0; j < n; j++) { gsl_complex z = gsl_matrix_complex_get(R, i, j); Rz(i, j) = cd(GSL_REAL(z), GSL_IMAG(z)); }
        double tolz = CFAC * n * EPS * std::max(1.0, c.nA) * nEz;
        double errz = allfinite(Rz) ? diffnorm(Rz, Ez) : INFINITY;
        if (!(errz <= tolz)) fail(seq, pos, c, "direct", "accuracy/imaginary-triangular", errz, tolz, "expm(i*N) != sum (iN)^p/p! for a strictly triangular N");
      } catch (std::exception& e) {
        fail(seq, pos, c, "direct", "throw/imaginary-triangular", INFINITY, 0, std::string("exception: ") + e.what());
      }
    }
  }
  gsl_matrix_complex_free(bigA); gsl_matrix_complex_free(bigR);
}

// B.UTransform(V, i*s) = exp(-isV) B exp(isV),  i s V = A  (V = H = -i AP, s = 2^sa pi/4)
static void do_utransform(long seq, int pos, Case& c) {
  int n = c.n;
  const Mat& E = c.hasE ? c.E : c.Eh;
  Mat X = c.hasUT ? c.UT : mmul(dagger(E), mmul(c.B, E));
  double s = std::ldexp(M_PI / 4, c.sa);
  double nB = norm1col(c.B), nH = norm1col(c.H);
  double tol = CFAC * n * EPS * std::max(1.0, c.nA) * nB * 2;
  ev_m = ev_s = -1; ev_n = 0; gsl_errs = 0;
  bool threw = false;
  try {
    SU_vector b = vec_from_matrix(c.B), v = vec_from_matrix(c.H);
    SU_vector b0 = b, v0 = v;
    SU_vector r = b.UTransform(v, gsl_complex_rect(0, s));
    long m1 = ev_m, s1 = ev_s;
    if (gsl_errs) fail(seq, pos, c, "utransform", "gsl-error/" + band_class(), gsl_errs, 0, std::string("GSL error raised inside UTransform: ") + gsl_msg);
    Mat Rm = mat_of_vec(r);
    bool same = true;
    for (int q = 0; q < n * n; q++) if (b[q] != b0[q] || v[q] != v0[q]) same = false;
    if (!same) fail(seq, pos, c, "utransform", "operand-modified/" + band_class(), 1, 0, "UTransform changed an operand");
    if (!allfinite(Rm)) fail(seq, pos, c, "utransform", "nonfinite/" + band_class(), INFINITY, tol, "non-finite components");
    else {
      double err = diffnorm(Rm, X);
      if (err / tol > maxratio) maxratio = err / tol;
      if (!(err <= tol)) fail(seq, pos, c, "utransform", "accuracy/" + band_class(), err, tol, "UTransform(V,i s) != exp(-isV) B exp(isV), s*||V||_1=" + std::to_string(s * nH));
      // norm preserving: Tr(R^2) = Tr(B^2)
      double f0 = 0, f1 = 0;
      for (const cd& x : c.B.a) f0 += std::norm(x);
      for (const cd& x : Rm.a) f1 += std::norm(x);
      double tn = CFAC * n * EPS * std::max(1.0, c.nA) * f0;
      if (!(std::fabs(f1 - f0) <= tn)) fail(seq, pos, c, "utransform", "norm/" + band_class(), std::fabs(f1 - f0), tn, "Tr(B^2) not preserved");
      // inverse by s -> -s
      SU_vector back = r.UTransform(v, gsl_complex_rect(0, -s));
      Mat Bk = mat_of_vec(back);
      double e2 = allfinite(Bk) ? diffnorm(Bk, c.B) : INFINITY;
      if (!(e2 <= 2 * tol)) fail(seq, pos, c, "utransform", "inverse/" + band_class(), e2, 2 * tol, "UTransform(V,-i s) does not undo UTransform(V,i s)");
    }
    ev_m = m1; ev_s = s1;
  } catch (std::exception& e) {
    threw = true;
    fail(seq, pos, c, "utransform", std::string("throw/") + (ev_n ? band_class() : "nobranch"), INFINITY, tol, std::string("exception: ") + e.what());
  }
  note_band(seq, pos, c, threw);
}

static void read_ints(std::istream& in, std::vector<long>& v, int n) { v.resize(n); for (int i = 0; i < n; i++) in >> v[i]; }

int main(int argc, char** argv) {
  if (argc > 1) CFAC = atof(argv[1]);
  bool hook = true;
  squids::verif::event_sink() = sink;
  gsl_set_error_handler(&gsl_handler);
  std::ios::sync_with_stdio(false);
  std::string tag;
  long nseq = 0;
  while (std::cin >> tag) {
    if (tag == "CASE") {
      Case c;
      std::cin >> c.id >> c.f >> c.n >> c.sa >> c.sn >> c.anti >> c.lat;
      int n = c.n;
      read_ints(std::cin, c.m, n); read_ints(std::cin, c.k, n);
      if (!read_mat(std::cin, n, c.U) || !read_mat(std::cin, n, c.AL) || !read_mat(std::cin, n, c.AP)) { printf("BADINPUT %ld\n", c.id); return 2; }
      read_ints(std::cin, c.AN, n * n);
      c.NP.resize(n);
      for (int p = 0; p < n; p++) read_ints(std::cin, c.NP[p], n * n);
      if (!read_mat(std::cin, n, c.B)) { printf("BADINPUT %ld\n", c.id); return 2; }
      int h; std::cin >> h; c.hasE = h != 0;
      if (c.hasE && !read_mat(std::cin, n, c.E)) { printf("BADINPUT %ld\n", c.id); return 2; }
      std::cin >> h; c.hasUT = h != 0;
      if (c.hasUT && !read_mat(std::cin, n, c.UT)) { printf("BADINPUT %ld\n", c.id); return 2; }
      derive(c);
      if (c.hasE) {   // the harness' evaluation of the specification's formula must agree with TLC's exact value
        double e = diffnorm(c.Eh, c.E), t = 64 * n * EPS * std::max(1.0, c.nE);
        if (!(e <= t)) printf("XCHECK %ld %.6g %.6g\n", c.id, e, t);
      }
      cases[c.id] = c;
    } else if (tag == "SEQ") {
      long idx; int len; std::cin >> idx >> len;
      std::vector<std::string> toks(len);
      for (int i = 0; i < len; i++) std::cin >> toks[i];
      nseq++;
      std::thread th([&]() {
        for (int i = 0; i < len; i++) {
          bool ut = toks[i][0] == 'u';
          long id = atol(toks[i].c_str() + (ut ? 1 : 0));
          auto it = cases.find(id);
          if (it == cases.end()) { printf("BADINPUT unknown case %ld\n", id); continue; }
          ncalls++;
          if (ut) do_utransform(idx, i, it->second); else do_direct(idx, i, it->second);
        }
      });
      th.join();
    } else { printf("BADINPUT tag %s\n", tag.c_str()); return 2; }
  }
  for (auto& kv : cases) if (kv.second.seen) printf("BAND %ld %ld %ld\n", kv.first, kv.second.m0, kv.second.s0);
  printf("DONE %ld %ld %ld %.6g\n", nseq, ncalls, nfail, maxratio);
  return 0;
}
