#include "suvec_drive.h"
#define VOP OP_SMUL
#define VFUNC expr_smul
#include "suvec_expr.inc"
