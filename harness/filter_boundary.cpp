// C11 binding for module FilterBoundary: LowPassFilter / AvgRampFilter with the cutoff (and cutoff - ramp) exactly on level
// splittings.  The table filtered is PrepareEvolve(buffer, 0): CX = 1, SX = 0 for every pair, so after the call CX[p] IS the
// factor applied to pair p (and a NaN factor shows in both CX and SX).
// stdin:  idx op d E[d] k c2 r rejected np {na {num den}[na]}[np]
// stdout: FAIL idx pair what value   ...   DONE ncases nfail
#include <SQuIDS/SUNalg.h>
#include <gsl/gsl_matrix.h>
#include <gsl/gsl_complex_math.h>
#include <cmath>
#include <cstdio>
#include <iostream>
#include <memory>
#include <string>
#include <vector>
using namespace squids;

int main() {
  long idx, n = 0, nfail = 0; std::string op; int d;
  while (std::cin >> idx >> op >> d) {
    std::vector<long> E(d); for (auto& e : E) std::cin >> e;
    long k, c2, r; int rejected, np; std::cin >> k >> c2 >> r >> rejected >> np;
    std::vector<std::vector<std::pair<long, long>>> allowed(np);
    for (auto& a : allowed) { int na; std::cin >> na; a.resize(na); for (auto& x : a) std::cin >> x.first >> x.second; }
    n++;
    gsl_matrix_complex* M = gsl_matrix_complex_calloc(d, d);
    for (int i = 0; i < d; i++) gsl_matrix_complex_set(M, i, i, gsl_complex_rect((double)E[i], 0));
    SU_vector H(M);
    gsl_matrix_complex_free(M);
    size_t bs = H.GetEvolveBufferSize();
    std::unique_ptr<double[]> buf(new double[bs]);
    H.PrepareEvolve(buf.get(), 0.0);
    bool threw = false;
    try {
      if (op == "lowpass") H.LowPassFilter(buf.get(), c2 / 2.0, (double)r);
      else H.AvgRampFilter(buf.get(), (double)k, c2 / 2.0, (double)r);
    } catch (std::exception&) { threw = true; }
    if (threw != (rejected != 0)) { printf("FAIL %ld -1 %s 0\n", idx, threw ? "raised-although-ramp<=cutoff" : "ramp-wider-than-cutoff-accepted"); nfail++; continue; }
    const double* CX = buf.get(); const double* SX = buf.get() + bs / 2;
    for (int p = 0; p < np; p++) {
      if (!std::isfinite(CX[p]) || !std::isfinite(SX[p])) { printf("FAIL %ld %d non-finite %g\n", idx, p, CX[p]); nfail++; break; }
      if (rejected) { if (CX[p] != 1.0 || SX[p] != 0.0) { printf("FAIL %ld %d table-changed-by-rejected-call %g\n", idx, p, CX[p]); nfail++; break; } continue; }
      bool ok = false;
      for (auto& a : allowed[p]) if (std::fabs(CX[p] - (double)a.first / (double)a.second) <= 1e-12) ok = true;   // the library's splittings carry rounding (components -> eigenvalue differences): a pair meant to sit ON a threshold sits within an ulp of it
      if (!ok || SX[p] != 0.0) { printf("FAIL %ld %d factor %.17g\n", idx, p, CX[p]); nfail++; break; }
    }
  }
  // Interval averages at extreme magnitudes (module Filters' RangeW, evaluated numerically): a level splitting s far below one
  // with an interval so long that s*(t1-t0) is of order one - natural-unit magnitudes.  With t0 = 0, t1 = c/s:
  //   <cos> = sin(c)/c ,  <sin> = (1-cos(c))/c   (up to the sign convention of the stored sine, taken from the unaveraged table)
  {
    static const double S[] = {1e-3, 3.1e-17, 1e-17, 2.5e-120, 1e-300, 7.0, 4.4e15};
    static const double C[] = {2.0, 0.5, 30.0};
    for (double sp : S) for (double c : C) for (int d = 2; d <= 6; d += 2) {
      n++;
      gsl_matrix_complex* M = gsl_matrix_complex_calloc(d, d);
      gsl_matrix_complex_set(M, 1, 1, gsl_complex_rect(sp, 0));            // one split level: pairs (0,1) and (1,k)
      SU_vector H(M); gsl_matrix_complex_free(M);
      size_t bs = H.GetEvolveBufferSize();
      std::unique_ptr<double[]> avg(new double[bs]), one(new double[bs]);
      double t1 = c / sp;
      H.PrepareEvolve(avg.get(), 0.0, t1);
      H.PrepareEvolve(one.get(), 0.25 * t1);                              // signs of the stored sines at a time where sin(s t) > 0
      const double* CX = avg.get(); const double* SX = avg.get() + bs / 2; const double* S1 = one.get() + bs / 2;
      int np = d * (d - 1) / 2; bool bad = false; double worst = 0;
      for (int p = 0; p < np && !bad; p++) {
        bool split = (p == 0) || (p >= d - 1 && p < 2 * d - 3);             // pair (0,1), then pairs (1,k), k = 2..d-1
        double wc = split ? std::sin(c) / c : 1.0, ws = split ? (1 - std::cos(c)) / c : 0.0;
        double sgn = S1[p] < 0 ? -1.0 : 1.0;
        double e1 = std::fabs(CX[p] - wc), e2 = std::fabs(std::fabs(SX[p]) - ws);
        if (!std::isfinite(CX[p]) || !std::isfinite(SX[p]) || !(e1 <= 1e-9) || !(e2 <= 1e-9) || (ws > 1e-6 && SX[p] * sgn < 0)) { bad = true; worst = std::max(e1, e2); }
      }
      if (bad) { printf("FAILX splitting=%g c=%g d=%d err=%g\n", sp, c, d, worst); nfail++; }
    }
  }
  printf("DONE %ld %ld\n", n, nfail);
  return 0;
}
