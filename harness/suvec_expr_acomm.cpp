#include "suvec_drive.h"
#define VOP OP_ACOMM
#define VFUNC expr_acomm
#include "suvec_expr.inc"
