// Replayer for module Filters (property C11): executes every exported call history on the real
// PrepareEvolve / LowPassFilter / AvgRampFilter / Evolve(buffer) / GetExpectationValue code and compares
// the table slot by slot with what the specification says.
//
// stdin, one case per record (whitespace separated):
//   idx d E[d] nh {op u k a b}[nh] out lat np {cls lfn lfd fn fd avr om nan w1 w2 w3 w4 w5 pd}[np]
//     op  : plain | avg | range | lowpass | avgramp        (the last one is the call under test)
//     u   : unit of the times/thresholds of that call, 0 -> 1, 1 -> pi/4
//     plain k            t = k U                     avg k a      t = k U, scale = a/2 U
//     range k a          t0 = k pi/4, t1 = a pi/4    lowpass a b  cutoff = a/2, ramp = b
//     avgramp k a b      t = k U, cutoff = a/2 U, ramp = b U
//     out : ok | throw          lat : 1 when the exact multipliers w are given
//     per pair (library order = row-major (i,j), i<j): class of the last call (pass|ramp|cut|none), its factor
//     lfn/lfd, the cumulative factor fn/fd, the expected avr flag (-1: not applicable), omega = E_i - E_j,
//     nan (as-written model only), the exact multiplier w = (w1 + w2 z + w3 z^2 + w4 z^3)/w5 (times 4/pi if pd)
//     of entry (i,j):  CX[p] = Re w,  SX[p] = Sgn(p) Im w,  Sgn = +1 for i = 0, -1 otherwise.
// stdout: "MISMATCH idx key detail err tol" per failing comparison, "DONE ncases nmismatch maxrel"
#include <SQuIDS/SUNalg.h>
#include <SQuIDS/SQuIDS.h>
#include "exact.h"
#include <sstream>
#include <memory>
#include <cstring>

using namespace squids;

static long nmis = 0;
static double maxrel = 0;
static long cur_idx = 0;
static double TOLF = 512;

static void report(const std::string& key, std::string detail, double err, double tol) {
  nmis++;
  for (char& c : detail) if (c == ' ' || c == '\t' || c == '\n') c = '_';
  if (detail.empty()) detail = "-";
  printf("MISMATCH %ld %s %s %.6g %.6g\n", cur_idx, key.c_str(), detail.c_str(), err, tol);
}

struct ActionRec { std::string op; int u; long k, a, b; };
struct PairRec { std::string cls; long lfn, lfd, fn, fd; int avr; long om; int nan; long w[5]; int pd; };

static std::string opname(const std::string& op) {
  if (op == "plain") return "Prepare";
  if (op == "avg") return "PrepareAvg";
  if (op == "range") return "PrepareRange";
  if (op == "lowpass") return "LowPass";
  return "AvgRamp";
}
static double unit(int u) { return u ? M_PI / 4 : 1.0; }

static SU_vector vec_from_comps(const std::vector<double>& c, int d) {
  SU_vector v(d);
  for (int k = 0; k < d * d; k++) v[k] = c[k];
  return v;
}

// one library call; returns true when it threw
static bool apply(const ActionRec& a, const SU_vector& H, double* buf, std::vector<bool>& avr, std::string& what) {
  double U = unit(a.u);
  try {
    if (a.op == "plain") H.PrepareEvolve(buf, a.k * U);
    else if (a.op == "avg") H.PrepareEvolve(buf, a.k * U, (a.a / 2.0) * U, avr);
    else if (a.op == "range") H.PrepareEvolve(buf, a.k * (M_PI / 4), a.a * (M_PI / 4));
    else if (a.op == "lowpass") H.LowPassFilter(buf, a.a / 2.0, (double)a.b);
    else if (a.op == "avgramp") H.AvgRampFilter(buf, a.k * U, (a.a / 2.0) * U, a.b * U);
    else { printf("BADOP %ld %s\n", cur_idx, a.op.c_str()); exit(2); }
  } catch (std::exception& e) { what = e.what(); return true; }
  return false;
}

static bool same_bits(double x, double y) { return std::memcmp(&x, &y, sizeof(double)) == 0 || (x == 0 && y == 0); }

// a minimal derived solver object for the averaged expectation-value overloads
class Probe : public SQuIDS {
  SU_vector H;
 public:
  Probe(unsigned nx, unsigned d, const SU_vector& h) : SQuIDS(nx, d, 1, 0, 0.0), H(h) {
    if (nx > 1) Set_xrange(0.0, 1.0, "linear"); else Set_xrange(0.0, 0.0, "linear");
  }
  SU_vector H0(double, unsigned int) const { return H; }
  void set_time(double t) { Set_t(t); }
  void set_state(unsigned ix, const SU_vector& v) { state[ix].rho[0] = v; }
};

int main(int argc, char** argv) {
  if (argc > 1) TOLF = atof(argv[1]);
  std::ios::sync_with_stdio(false);
  long ncases = 0, idx;
  while (std::cin >> idx) {
    int d, nh, lat, np;
    std::cin >> d;
    std::vector<long> E(d);
    for (int i = 0; i < d; i++) std::cin >> E[i];
    std::cin >> nh;
    std::vector<ActionRec> hist(nh);
    for (auto& a : hist) std::cin >> a.op >> a.u >> a.k >> a.a >> a.b;
    std::string out;
    std::cin >> out >> lat >> np;
    std::vector<PairRec> pr(np);
    for (auto& p : pr) {
      std::cin >> p.cls >> p.lfn >> p.lfd >> p.fn >> p.fd >> p.avr >> p.om >> p.nan;
      for (int q = 0; q < 5; q++) std::cin >> p.w[q];
      std::cin >> p.pd;
    }
    if (!std::cin || np != d * (d - 1) / 2 || nh < 1) { printf("BADINPUT %ld\n", idx); return 2; }
    ncases++;
    cur_idx = idx;
    const ActionRec& last = hist[nh - 1];
    const std::string OP = opname(last.op);
    try {
      // the pair list in the library's order, with the sign the stored sine carries
      std::vector<int> pi(np), pj(np), sgn(np);
      { int q = 0; for (int i = 0; i < d; i++) for (int j = i + 1; j < d; j++) { pi[q] = i; pj[q] = j; sgn[q] = (i == 0) ? 1 : -1; q++; } }
      Mat Hm(d);
      for (int i = 0; i < d; i++) Hm(i, i) = (double)E[i];
      SU_vector H = vec_from_comps(comps_from_matrix(Hm), d);
      if ((int)H.GetEvolveBufferSize() != 2 * np) { report(OP + "/buffer-size", "size", H.GetEvolveBufferSize(), 2 * np); continue; }
      std::vector<double> buf(2 * np + 2);
      for (size_t q = 0; q < buf.size(); q++) buf[q] = 7.25 + q;       // sentinel: never a legal table
      const double guard0 = buf[2 * np], guard1 = buf[2 * np + 1];
      std::vector<bool> avr(np);
      for (int q = 0; q < np; q++) avr[q] = (pr[q].avr == 1) ? false : true;   // the opposite of what is expected
      bool setup_bad = false;
      for (int s = 0; s + 1 < nh && !setup_bad; s++) {
        std::string what;
        std::vector<bool> av2(np);
        if (apply(hist[s], H, buf.data(), av2, what)) { report(opname(hist[s].op) + "/threw", "setup:" + what.substr(0, 20), 1, 0); setup_bad = true; }
        for (int q = 0; q < 2 * np && !setup_bad; q++)
          if (!std::isfinite(buf[q])) {
            int p = q % np;
            bool coincident = hist[s].op == "range" && pr[p].om == 0;
            // reported by the case whose last call is this one; here only stop (no consequential reports)
            (void)coincident; setup_bad = true;
          }
      }
      if (setup_bad) { printf("SKIP %ld setup\n", idx); continue; }
      std::vector<double> snap(buf);
      std::string what;
      bool threw = apply(last, H, buf.data(), avr, what);
      if (buf[2 * np] != guard0 || buf[2 * np + 1] != guard1) report(OP + "/overrun", "guard", 1, 0);
      if (out == "throw") {
        if (!threw) report(OP + "/not-rejected", "ramp>cutoff", 1, 0);
        for (int q = 0; q < 2 * np; q++)
          if (!same_bits(buf[q], snap[q])) { report(OP + "/rejected-modified", "slot=" + std::to_string(q), std::fabs(buf[q] - snap[q]), 0); break; }
        continue;
      }
      if (threw) { report(OP + "/threw", what.substr(0, 24), 1, 0); continue; }

      // finiteness of every entry
      bool finite = true;
      for (int q = 0; q < 2 * np; q++)
        if (!std::isfinite(buf[q])) {
          int p = q % np;
          finite = false;
          if (last.op == "range" && pr[p].om == 0)
            report("PrepareRange/coincident", std::string(q < np ? "CX" : "SX") + "[" + std::to_string(p) + "]=" + (std::isnan(buf[q]) ? "nan" : "inf") + ",levels=" + std::to_string(pi[p]) + "," + std::to_string(pj[p]), INFINITY, 0);
          else
            report(OP + "/nonfinite", "slot=" + std::to_string(q), INFINITY, 0);
          break;
        }
      if (!finite) continue;

      // relational part: classification against the table before the call / the plain table
      const double U = unit(last.u);
      if (last.op == "avg") {
        std::vector<double> plain(2 * np);
        H.PrepareEvolve(plain.data(), last.k * U);
        for (int p = 0; p < np; p++) {
          const PairRec& P = pr[p];
          std::string at = "pair=" + std::to_string(p);
          if (P.cls == "cut") {
            if (!(buf[p] == 0.0 && buf[np + p] == 0.0)) report(OP + "/cut-nonzero", at, std::fabs(buf[p]) + std::fabs(buf[np + p]), 0);
            if (!avr[p]) report(OP + "/flag-missing", at, 1, 0);
          } else {
            if (!same_bits(buf[p], plain[p]) || !same_bits(buf[np + p], plain[np + p]))
              report(OP + "/pass-bits", at, std::fabs(buf[p] - plain[p]) + std::fabs(buf[np + p] - plain[np + p]), 0);
            if (avr[p]) report(OP + "/flag-spurious", at, 1, 0);
          }
        }
      } else if (last.op == "lowpass" || last.op == "avgramp") {
        for (int p = 0; p < np; p++) {
          const PairRec& P = pr[p];
          std::string at = "pair=" + std::to_string(p);
          for (int part = 0; part < 2; part++) {
            double got = buf[part * np + p], before = snap[part * np + p];
            if (P.cls == "cut") {
              if (!(got == 0.0)) report(OP + "/cut-nonzero", at, std::fabs(got), 0);
            } else if (P.cls == "pass") {
              if (!same_bits(got, before)) report(OP + "/pass-modified", at, std::fabs(got - before), 0);
            } else if (P.cls == "ramp") {
              // factor (|cutoff| - |x|)/|ramp| with x = omega (k U) carrying a relative rounding error of a few eps:
              // |d factor| <= 16 eps (|cutoff| + |x|)/|ramp|
              double f = (double)P.lfn / (double)P.lfd;
              double x = std::fabs((double)P.om * (last.op == "lowpass" ? 1.0 : (double)last.k));
              double tol = EPS * std::fabs(before) * (2 * f + 16 * (std::fabs(last.a / 2.0) + x) / std::fabs((double)last.b));
              double err = std::fabs(got - before * f);
              if (!(err <= tol)) report(OP + "/ramp-factor", at, err, tol);
              if (std::fabs(before) > 0 && err / std::fabs(before) > maxrel) maxrel = err / std::fabs(before);
            } else report(OP + "/class", at + ":" + P.cls, 1, 0);
          }
        }
      }

      // absolute part on the lattice: table against the exact multipliers, Evolve(buffer) against w o A
      if (lat) {
        std::vector<cd> wv(np);
        std::vector<double> sc(np);
        double t0 = 0, t1 = 0;
        const ActionRec& base = hist[0];
        if (base.op == "range") { t0 = base.k * (M_PI / 4); t1 = base.a * (M_PI / 4); }
        else t1 = base.k * (M_PI / 4);
        double S = 1;
        for (int p = 0; p < np; p++) {
          const PairRec& P = pr[p];
          wv[p] = exact_scalar(P.w[0], P.w[1], P.w[2], P.w[3], P.w[4]) * (P.pd ? 4 / M_PI : 1.0);
          double om = std::fabs((double)P.om);
          if (base.op == "range" && P.om != 0) sc[p] = (1 + om * (std::fabs(t0) + std::fabs(t1))) / std::min(1.0, om * std::fabs(t1 - t0));
          else sc[p] = std::max(1.0, om * std::fabs(t1));
          if (sc[p] > S) S = sc[p];
          double tol = TOLF * EPS * sc[p];
          double ec = std::fabs(buf[p] - wv[p].real()), es = std::fabs(buf[np + p] - sgn[p] * wv[p].imag());
          std::string key = (last.op == "range") ? "PrepareRange/mean" : OP + "/table";
          if (!(ec <= tol)) report(key, "CX[" + std::to_string(p) + "]", ec, tol);
          if (!(es <= tol)) report(key, "SX[" + std::to_string(p) + "]", es, tol);
          if (ec / sc[p] > maxrel) maxrel = ec / sc[p];
          if (es / sc[p] > maxrel) maxrel = es / sc[p];
        }
        double tol = TOLF * EPS * S;
        for (int k = 0; k < d * d; k++) {
          std::vector<double> uc(d * d, 0.0);
          uc[k] = 1.0;
          Mat A = matrix_from_comps(uc, d), R = A;
          for (int p = 0; p < np; p++) { R(pi[p], pj[p]) = A(pi[p], pj[p]) * wv[p]; R(pj[p], pi[p]) = A(pj[p], pi[p]) * std::conj(wv[p]); }
          std::vector<double> e = comps_from_matrix(R);
          SU_vector a = vec_from_comps(uc, d);
          SU_vector r = a.Evolve(buf.data());
          bool bad = false;
          for (int q = 0; q < d * d && !bad; q++) {
            double err = std::fabs(r[q] - e[q]);
            if (!(err <= tol)) { report(OP + "/evolve", "generator=" + std::to_string(k) + ",comp=" + std::to_string(q), err, tol); bad = true; }
            else if (err / S > maxrel) maxrel = err / S;
          }
          if (bad) break;
        }
      }

      // the averaged expectation-value overloads are built on the same table and flags
      if (last.op == "avg" && nh == 1) {
        double t = last.k * U, scale = (last.a / 2.0) * U;
        SU_vector op(d), rho0(d), rho1(d);
        for (int k = 0; k < d * d; k++) { op[k] = 1.0 + 0.25 * k; rho0[k] = 0.5 - 0.125 * (k % 7); rho1[k] = 0.25 * ((k * 3) % 5) - 0.5; }
        double Sv = norm1(std::vector<double>(&op[0], &op[0] + d * d)) * (norm1(std::vector<double>(&rho0[0], &rho0[0] + d * d)) + norm1(std::vector<double>(&rho1[0], &rho1[0] + d * d)));
        SU_vector opE = op.Evolve(buf.data());
        bool anycut = false;
        for (int p = 0; p < np; p++) anycut = anycut || pr[p].avr == 1;
        {
          Probe q(1, d, H);
          q.set_time(t);
          q.set_state(0, rho0);
          std::vector<bool> av(np);
          for (int p = 0; p < np; p++) av[p] = pr[p].avr != 1;
          double got = q.GetExpectationValue(op, 0, 0, scale, av);
          for (int p = 0; p < np; p++) if (av[p] != (pr[p].avr == 1)) { report(OP + "/expectation-flags", "GetExpectationValue:pair=" + std::to_string(p), 1, 0); break; }
          double want = rho0 * opE;
          if (!(std::fabs(got - want) <= 8 * EPS * Sv)) report(OP + "/expectation-value", "GetExpectationValue-vs-table", std::fabs(got - want), 8 * EPS * Sv);
          if (!anycut) {
            double plainv = q.GetExpectationValue(op, 0, 0);
            if (!(std::fabs(got - plainv) <= 64 * EPS * Sv)) report(OP + "/expectation-value", "GetExpectationValue-vs-unaveraged", std::fabs(got - plainv), 64 * EPS * Sv);
          }
        }
        {
          Probe q(2, d, H);
          q.set_time(t);
          q.set_state(0, rho0);
          q.set_state(1, rho1);
          const double xi = 0.25;
          double want = (opE * rho0) * 0.75 + (opE * rho1) * 0.25;
          for (int variant = 0; variant < 2; variant++) {
            std::vector<bool> av(np);
            for (int p = 0; p < np; p++) av[p] = pr[p].avr != 1;
            double got;
            if (variant == 0) { SQuIDS::expectationValueDBuffer eb(d); got = q.GetExpectationValueD(op, 0, xi, eb, scale, av); }
            else got = q.GetExpectationValueD(op, 0, xi, scale, av);
            std::string nm = variant == 0 ? "GetExpectationValueD(buf)" : "GetExpectationValueD";
            for (int p = 0; p < np; p++) if (av[p] != (pr[p].avr == 1)) { report(OP + "/expectation-flags", nm + ":pair=" + std::to_string(p), 1, 0); break; }
            if (!(std::fabs(got - want) <= 8 * EPS * Sv)) report(OP + "/expectation-value", nm + "-vs-table", std::fabs(got - want), 8 * EPS * Sv);
            if (!anycut) {
              double plainv = q.GetExpectationValueD(op, 0, xi);
              if (!(std::fabs(got - plainv) <= 64 * EPS * Sv)) report(OP + "/expectation-value", nm + "-vs-unaveraged", std::fabs(got - plainv), 64 * EPS * Sv);
            }
          }
        }
      }
    } catch (std::exception& e) {
      report(OP + "/exception", std::string(e.what()).substr(0, 30), 1, 0);
    }
  }
  printf("DONE %ld %ld %.3g\n", ncases, nmis, maxrel);
  return 0;
}
