// C05 binding: replays every Setup / Query transition exported by TLC from spec/Observables.tla on a real
// class derived from squids::SQuIDS and compares with the exact expected values.
//
// stdin records (integers; matrices row-major as 5-tuples (a + b z + c z^2 + d z^3)/n, z = exp(i pi/4)):
//   S sid d nx kind v  g[nx]  h[2][d]  nops  rho[nx][2][d*d]  ops[nops][d*d]
//   Q qid sid nh hist[nh] K x4 inr node  [inter[2][d*d]  evd[2][nops]]  [ev[2][nops]]
//     g, x4 in units of 1/4; hist, K in units of pi/4; inr = 1: x inside the node range (otherwise every entry
//     point must raise an error); node >= 0: x is node `node`.
// The object: H0(x,irho) = (4x)*diag(h[irho]) (the only override), states written through the protected member
// `state`, clock advanced by the history's Evolve calls: mode 0 with all numerical terms off, mode 1 (histories
// of positive steps) with the coherent term on and HI = 0 (the ODE solver runs, the state stays constant).
// stdout:  MISMATCH qid mode fn irho op what err tol   ...   DONE nqueries ncomparisons nmismatch maxrelerr
#include <SQuIDS/SQuIDS.h>
#include "exact.h"
#include <map>
#include <memory>
#include <sstream>

using namespace squids;

static double TOLF = 512;
static long nmis = 0, ncmp = 0, printed = 0;
static double maxrel = 0;

struct Setup {
  int d, nx, v; std::string kind;
  std::vector<long> g;
  std::vector<std::vector<long>> h;      // [irho][d]
  std::vector<std::vector<Mat>> rho;     // [ix][irho]
  std::vector<Mat> ops;
  double rhonorm;
};

class Obs : public SQuIDS {
 public:
  std::vector<SU_vector> H;
  Obs(unsigned nx, unsigned d, double ti) : SQuIDS(nx, d, 2, 0, ti) {}
  Obs(Obs&& other) : SQuIDS(std::move(static_cast<SQuIDS&>(other))), H(other.H) {}
  // (an index outside 0..nrhos-1 can only come from a defect in the library: answer with some OTHER operator rather than crash here)
  double hscale = 1;       // a change of the time unit: every energy times hscale, every time divided by it
  SU_vector H0(double x, unsigned int irho) const override { return irho < H.size() ? SU_vector((hscale * 4.0 * x) * H[irho]) : SU_vector((4.0 * x + 1.0 + irho) * (H[0] + H[1])); }
  double perturb = 0;      // mode 2 only: a strong interaction while the refused Evolve runs
  SU_vector HI(unsigned int ix, unsigned int irho, double t) const override {
    SU_vector h(nsun);
    if (perturb != 0) for (unsigned k = 0; k < nsun * nsun; k++) h[k] = perturb * (1 + (k + ix + irho) % 3) * std::cos(3 * t + k);
    return h;
  }
  void RestoreClock(double t_) { Set_t(t_); }
  void SetRho(unsigned ix, unsigned irho, const std::vector<double>& c) {
    for (unsigned k = 0; k < c.size(); k++) state[ix].rho[irho][k] = c[k];
  }
};

static SU_vector vec_from_matrix(const Mat& M) {
  std::vector<double> c = comps_from_matrix(M);
  SU_vector v(M.d);
  for (int k = 0; k < M.d * M.d; k++) v[k] = c[k];
  return v;
}

static std::unique_ptr<Obs> build(const Setup& s, const std::vector<long>& hist, int mode, double tscale = 1.0) {
  double ti = 0.7 * s.v * tscale;              // any initial time; only t - t_ini matters
  std::unique_ptr<Obs> o(new Obs(s.nx, s.d, ti));
  o->hscale = 1.0 / tscale;
  for (int ir = 0; ir < 2; ir++) {
    Mat Hm(s.d);
    for (int i = 0; i < s.d; i++) Hm(i, i) = (double)s.h[ir][i];
    o->H.push_back(vec_from_matrix(Hm));
  }
  // an object that held other grids before (every kind in turn): the grid is what the LAST call gave
  if (mode >= 1) {
    o->Set_xrange(0.5, 0.5 + 3.0 * (s.nx - 1), "linear");
    if (mode % 2 == 0) { std::vector<double> xs; for (int i = 0; i < s.nx; i++) xs.push_back(1.0 + i * i); o->Set_xrange(xs); }
    if (mode == 3) o->Set_xrange(2.0, 2048.0, "log");
    if (mode == 4) o->Set_xrange(-7.0, 11.0, "lin");
  }
  if (s.kind == "lin") o->Set_xrange(s.g.front() / 4.0, s.g.back() / 4.0, "linear");
  else if (s.kind == "log") o->Set_xrange(s.g.front() / 4.0, s.g.back() / 4.0, "log");
  else { std::vector<double> xs; for (long k : s.g) xs.push_back(k / 4.0); o->Set_xrange(xs); }
  for (int ix = 0; ix < s.nx; ix++)
    for (int ir = 0; ir < 2; ir++) o->SetRho(ix, ir, comps_from_matrix(s.rho[ix][ir]));
  if (mode == 1) o->Set_CoherentRhoTerms(true);      // default HI = 0: the solver runs, the state is constant
  if (mode == 2) {
    // An Evolve that GSL refuses (multistep method, error control pushes the step below h_min): Evolve reports the
    // error and the in-step view of the state is left wherever the stepper last evaluated.  The stored state and the
    // clock are then put back to the specification's values through the same members a derived class uses, and the
    // history continues with all numerical terms off.  Queries are functions of the stored state, the clock, the grid
    // and H0 only: they must not see the stale in-step view.
    o->perturb = 40.0;
    o->Set_CoherentRhoTerms(true);
    o->Set_GSL_step(gsl_odeiv2_step_msadams);
    o->Set_rel_error(1e-13); o->Set_abs_error(1e-13);
    o->Set_h(0.25); o->Set_h_min(0.2);
    bool refused = false;
    try { o->Evolve(3.0); } catch (std::exception&) { refused = true; }
    if (!refused) return nullptr;
    o->perturb = 0;
    o->Set_CoherentRhoTerms(false);
    o->Set_h_min(1e6); o->Set_h_max(1e7); o->Set_h(2e6); o->Set_rel_error(0.5); o->Set_abs_error(0.5); o->Set_NumSteps(1);   // integrator settings do not enter any query
    o->RestoreClock(ti);
    for (int ix = 0; ix < s.nx; ix++)
      for (int ir = 0; ir < 2; ir++) o->SetRho(ix, ir, comps_from_matrix(s.rho[ix][ir]));
  }
  if (mode == 3 || mode == 4) {
    // The object queried is not the one that was configured: it received everything by move assignment (mode 3: the
    // target had another initial time, another grid and another state before) or by move construction (mode 4), half
    // way through the history.  The answers are functions of what the object now holds.
    size_t half = hist.size() / 2;
    for (size_t i = 0; i < half; i++) o->Evolve(hist[i] * M_PI / 4);
    std::unique_ptr<Obs> q;
    if (mode == 3) {
      q.reset(new Obs(s.nx + 1, s.d, ti - 2.5));
      for (int ir = 0; ir < 2; ir++) q->H.push_back(o->H[ir] * 3.0);
      q->Set_xrange(1.0, 64.0, "log");
      for (int ix = 0; ix <= s.nx; ix++) for (int ir = 0; ir < 2; ir++) q->SetRho(ix, ir, std::vector<double>(s.d * s.d, 0.375 * (ix + 1)));
      q->Evolve(1.25);
      q->H.clear();
      for (int ir = 0; ir < 2; ir++) q->H.push_back(o->H[ir]);       // H is a member of the test class, not of SQuIDS
      static_cast<SQuIDS&>(*q) = std::move(static_cast<SQuIDS&>(*o));
    } else {
      q.reset(new Obs(std::move(*o)));
    }
    for (size_t i = half; i < hist.size(); i++) q->Evolve(hist[i] * M_PI / 4);
    return q;
  }
  for (long k : hist) o->Evolve(k * M_PI / 4 * tscale);
  return o;
}

static long cur_q = 0; static int cur_mode = 0; static std::string cur_kind;
static void mismatch(const char* fn, int ir, int op, const std::string& what, double err, double tol) {
  nmis++;
  static std::map<std::string, int> per_class;             // keep the report bounded but complete in classes
  int& n = per_class[std::string(fn) + "/" + cur_kind + "/" + what];
  if (n < 12 && printed < 20000) { n++; printed++; printf("MISMATCH %ld %d %s %d %d %s %.6g %.6g\n", cur_q, cur_mode, fn, ir, op, what.c_str(), err, tol); }
}
static void expect_val(const char* fn, int ir, int op, double got, double want, double S) {
  ncmp++;
  double tol = TOLF * EPS * (S > 0 ? S : 1.0), err = std::fabs(got - want);
  if (!(err <= tol)) mismatch(fn, ir, op, "value", err, tol);
  else if (S > 0 && err / S > maxrel) maxrel = err / S;
}

template <class F> static bool throws(F f) {
  try { f(); } catch (std::exception&) { return true; }
  return false;
}

int main(int argc, char** argv) {
  if (argc > 1) TOLF = atof(argv[1]);
  std::ios::sync_with_stdio(false);
  std::map<long, Setup> setups;
  std::string tag;
  long nq = 0;
  long last_sid = -1; std::vector<long> last_hist;
  std::unique_ptr<Obs> objs[5]; long nrefused = 0, nmode2 = 0;
  while (std::cin >> tag) {
    if (tag == "S") {
      long sid; Setup s;
      std::cin >> sid >> s.d >> s.nx >> s.kind >> s.v;
      s.g.resize(s.nx); for (auto& k : s.g) std::cin >> k;
      s.h.assign(2, std::vector<long>(s.d));
      for (auto& hh : s.h) for (auto& k : hh) std::cin >> k;
      int nops; std::cin >> nops;
      s.rho.assign(s.nx, std::vector<Mat>(2));
      s.rhonorm = 0;
      for (auto& r : s.rho) for (auto& m : r) { if (!read_mat(std::cin, s.d, m)) { printf("BADINPUT S\n"); return 2; } s.rhonorm = std::max(s.rhonorm, mnorm1(m)); }
      s.ops.resize(nops);
      for (auto& m : s.ops) if (!read_mat(std::cin, s.d, m)) { printf("BADINPUT S\n"); return 2; }
      setups[sid] = s;
    } else if (tag == "Q") {
      long qid, sid, nh; std::cin >> qid >> sid >> nh;
      std::vector<long> hist(nh); for (auto& k : hist) std::cin >> k;
      long K, x4, inr, node; std::cin >> K >> x4 >> inr >> node;
      if (!setups.count(sid)) { printf("BADINPUT Q sid\n"); return 2; }
      const Setup& s = setups[sid];
      int d = s.d, nops = s.ops.size();
      Mat inter[2]; std::vector<double> evd[2], ev[2];
      auto read_vals = [&](std::vector<double>& out) {
        out.resize(nops);
        for (auto& y : out) { long a, b, c, dd, n; std::cin >> a >> b >> c >> dd >> n; y = exact_scalar(a, b, c, dd, n).real(); }
      };
      if (inr) { for (int ir = 0; ir < 2; ir++) read_mat(std::cin, d, inter[ir]); for (int ir = 0; ir < 2; ir++) read_vals(evd[ir]); }
      if (node >= 0) for (int ir = 0; ir < 2; ir++) read_vals(ev[ir]);
      nq++; cur_q = qid; cur_kind = s.kind;
      bool allpos = nh > 0;
      for (long k : hist) if (k <= 0) allpos = false;
      if (sid != last_sid || hist != last_hist) {
        try {
          objs[0] = build(s, hist, 0);
          objs[1].reset();
          if (allpos) objs[1] = build(s, hist, 1);
          objs[2] = build(s, hist, 2); nmode2++; if (objs[2]) nrefused++;
          objs[3] = build(s, hist, 3); objs[4] = build(s, hist, 4);
        } catch (std::exception& e) { cur_mode = -1; mismatch("build", 0, 0, std::string("threw:") + e.what(), 1, 0); last_sid = -1; continue; }
        last_sid = sid; last_hist = hist;
        // OFF the lattice, once per object and history: a generic elapsed time and generic positions (non-dyadic interpolation
        // weights).  No exact value exists for these; the clauses of the property are checked as relations between entry points
        // and the vector algebra: the interpolated state is the convex combination of the bracketing nodes' stored states, the
        // D-forms are Tr(interpolated state x operator evolved with H0 AT x over t - t_ini), and at a node they agree with the
        // node-indexed form.
        if (objs[0]) {
          std::unique_ptr<Obs> g = build(s, hist, 0);
          g->Evolve(0.7345 + 0.0613 * (sid % 7));
          double dtg = g->Get_t() - g->Get_t_initial();
          std::vector<double> xs = g->Get_xrange();
          cur_mode = 9; cur_q = qid;
          for (int ir = 0; ir < 2; ir++) for (size_t iv = 0; iv + 1 < xs.size(); iv++) for (double fr : {0.0, 0.137, 0.5, 0.861}) {
            double xg = xs[iv] + fr * (xs[iv + 1] - xs[iv]);
            double f2 = (xg - xs[iv]) / (xs[iv + 1] - xs[iv]), f1 = 1 - f2;
            SU_vector want = f1 * vec_from_matrix(s.rho[iv][ir]) + f2 * vec_from_matrix(s.rho[iv + 1][ir]);
            SU_vector st = g->GetIntermediateState(ir, xg);
            double tolst = 64 * EPS * std::max(1.0, s.rhonorm);
            for (int k = 0; k < d * d; k++) if (!(std::fabs(st[k] - want[k]) <= tolst)) { mismatch("GetIntermediateState(generic x)", ir, k, "value", std::fabs(st[k] - want[k]), tolst); break; }
            SQuIDS::expectationValueDBuffer bufg(d);
            std::vector<bool> avg(d * (d - 1) / 2 + 1, false);
            for (size_t k = 0; k < s.ops.size(); k += 3) {
              SU_vector opv = vec_from_matrix(s.ops[k]);
              double ref = want * opv.Evolve(g->H0(xg, ir), dtg);
              double S = std::max(1.0, s.rhonorm * mnorm1(s.ops[k])) * (1 + std::fabs(dtg) * 40 * std::fabs(xg));
              double tolv = 512 * EPS * S;
              double got[4] = {g->GetExpectationValueD(opv, ir, xg), g->GetExpectationValueD(opv, ir, xg, bufg), g->GetExpectationValueD(opv, ir, xg, 1e300, avg), g->GetExpectationValueD(opv, ir, xg, bufg, 1e300, avg)};
              static const char* nm[4] = {"GetExpectationValueD(generic)", "GetExpectationValueD(buf,generic)", "GetExpectationValueD(avg,generic)", "GetExpectationValueD(buf,avg,generic)"};
              for (int q2 = 0; q2 < 4; q2++) { ncmp++; if (!(std::fabs(got[q2] - ref) <= tolv)) { mismatch(nm[q2], ir, (int)k, "value", std::fabs(got[q2] - ref), tolv); break; } }
              if (fr == 0.0) { ncmp++; double nv = g->GetExpectationValue(opv, ir, (unsigned)iv); if (!(std::fabs(nv - ref) <= tolv)) mismatch("GetExpectationValue(generic t)", ir, (int)k, "value", std::fabs(nv - ref), tolv); }
              // with a scale that IS reached: the averaging overloads are the same interpolated state against the operator evolved with the
              // averaged table of H0(x) over the ELAPSED time t - t_ini (the vector-level PrepareEvolve), and report that table's flags
              for (double sc : {0.37, 2.9}) {
                SU_vector h0 = g->H0(xg, ir);
                std::vector<double> eb(h0.GetEvolveBufferSize());
                std::vector<bool> av1(avg.size(), false), av2(avg.size(), false), av3(avg.size(), false), av4(avg.size(), false);
                h0.PrepareEvolve(eb.data(), dtg, sc, av1);
                double refa = want * opv.Evolve(eb.data());
                double ga = g->GetExpectationValueD(opv, ir, xg, bufg, sc, av2), gb = g->GetExpectationValueD(opv, ir, xg, sc, av3);
                ncmp += 2;
                if (!(std::fabs(ga - refa) <= tolv)) mismatch("GetExpectationValueD(buf,avg,reached-scale)", ir, (int)k, "value", std::fabs(ga - refa), tolv);
                if (!(std::fabs(gb - refa) <= tolv)) mismatch("GetExpectationValueD(avg,reached-scale)", ir, (int)k, "value", std::fabs(gb - refa), tolv);
                if (av2 != av1 || av3 != av1) mismatch("GetExpectationValueD(avg,reached-scale)", ir, (int)k, "flags", 1, 0);
                if (fr == 0.0) { ncmp++; double gn = g->GetExpectationValue(opv, ir, (unsigned)iv, sc, av4);
                  if (!(std::fabs(gn - refa) <= tolv)) mismatch("GetExpectationValue(avg,reached-scale)", ir, (int)k, "value", std::fabs(gn - refa), tolv);
                  if (av4 != av1) mismatch("GetExpectationValue(avg,reached-scale)", ir, (int)k, "flags", 1, 0); }
              }
            }
          }
          // The time unit is the user's: with every energy multiplied by 2^k and every time divided by it (initial time, elapsed
          // times), each phase H0 (t - t_ini) is the same number, so every query answers as before - a system written in a very
          // small or a very large time unit is the same system (elapsed times of 1e-18 with splittings of 1e18, and the reverse).
          for (int ku : {60, -40}) {
            double ts = std::ldexp(1.0, -ku);
            std::unique_ptr<Obs> g2 = build(s, hist, 0, ts);
            g2->Evolve((0.7345 + 0.0613 * (sid % 7)) * ts);
            std::string un = ku > 0 ? "/unit-2^-60" : "/unit-2^40";
            for (int ir = 0; ir < 2; ir++) for (size_t iv = 0; iv + 1 < xs.size(); iv++) for (double fr : {0.0, 0.137}) {
              double xg = xs[iv] + fr * (xs[iv + 1] - xs[iv]);
              SQuIDS::expectationValueDBuffer b1(d), b2(d);
              std::vector<bool> a1(d * (d - 1) / 2 + 1, false), a2(d * (d - 1) / 2 + 1, false);
              for (size_t k = 0; k < s.ops.size(); k += 3) {
                SU_vector opv = vec_from_matrix(s.ops[k]);
                double S = std::max(1.0, s.rhonorm * mnorm1(s.ops[k])) * (1 + std::fabs(dtg) * 40 * std::fabs(xg));
                double tolv = 512 * EPS * S;
                double u[6] = {g->GetExpectationValueD(opv, ir, xg), g->GetExpectationValueD(opv, ir, xg, b1), g->GetExpectationValueD(opv, ir, xg, 1e300, a1), g->GetExpectationValueD(opv, ir, xg, b1, 1e300, a1),
                               fr == 0.0 ? g->GetExpectationValue(opv, ir, (unsigned)iv) : 0.0, fr == 0.0 ? g->GetExpectationValue(opv, ir, (unsigned)iv, 1e300, a1) : 0.0};
                double w[6] = {g2->GetExpectationValueD(opv, ir, xg), g2->GetExpectationValueD(opv, ir, xg, b2), g2->GetExpectationValueD(opv, ir, xg, 1e300 , a2), g2->GetExpectationValueD(opv, ir, xg, b2, 1e300, a2),
                               fr == 0.0 ? g2->GetExpectationValue(opv, ir, (unsigned)iv) : 0.0, fr == 0.0 ? g2->GetExpectationValue(opv, ir, (unsigned)iv, 1e300, a2) : 0.0};
                static const char* nm2[6] = {"GetExpectationValueD", "GetExpectationValueD(buf)", "GetExpectationValueD(avg)", "GetExpectationValueD(buf,avg)", "GetExpectationValue", "GetExpectationValue(avg)"};
                for (int q2 = 0; q2 < 6; q2++) { ncmp++; if (!(std::fabs(u[q2] - w[q2]) <= tolv)) { mismatch((std::string(nm2[q2]) + un).c_str(), ir, (int)k, "value", std::fabs(u[q2] - w[q2]), tolv); break; } }
              }
            }
          }
        }
      }
      for (int mode = 0; mode < 5; mode++) {
        if (!objs[mode]) continue;
        cur_mode = mode;
        const Obs& o = *objs[mode];
        double x = x4 / 4.0;
        if (node >= 0) x = o.Get_x(node);        // the stored node (a "log" grid is only accurate to an ulp)
        long dh = 0;
        for (int ir = 0; ir < 2; ir++) for (int i = 0; i < d; i++) for (int j = 0; j < d; j++) dh = std::max(dh, std::labs(s.h[ir][i] - s.h[ir][j]));
        double phase = std::fabs((double)K) * M_PI / 4 * std::fabs((double)x4) * dh;
        const char* side = x4 < s.g.front() ? "below" : "above";
        std::vector<bool> avr(d * (d - 1) / 2 + 1, false);
        double unreachable = 1e300;
        for (int ir = 0; ir < 2; ir++) {
          SQuIDS::expectationValueDBuffer buf(d);
          if (!inr) {
            // must raise an error, on both sides of the range
            ncmp += 5;
            SU_vector op = vec_from_matrix(s.ops[1 % nops]);
            if (!throws([&] { o.GetIntermediateState(ir, x); })) mismatch("GetIntermediateState", ir, -1, std::string("no-throw:") + side, 1, 0);
            if (!throws([&] { o.GetExpectationValueD(op, ir, x); })) mismatch("GetExpectationValueD", ir, 1, std::string("no-throw:") + side, 1, 0);
            if (!throws([&] { o.GetExpectationValueD(op, ir, x, buf); })) mismatch("GetExpectationValueD(buf)", ir, 1, std::string("no-throw:") + side, 1, 0);
            if (!throws([&] { o.GetExpectationValueD(op, ir, x, unreachable, avr); })) mismatch("GetExpectationValueD(avg)", ir, 1, std::string("no-throw:") + side, 1, 0);
            if (!throws([&] { o.GetExpectationValueD(op, ir, x, buf, unreachable, avr); })) mismatch("GetExpectationValueD(buf,avg)", ir, 1, std::string("no-throw:") + side, 1, 0);
            continue;
          }
          try {
            SU_vector st = o.GetIntermediateState(ir, x);
            std::vector<double> want = comps_from_matrix(inter[ir]);
            if ((int)st.Dim() != d) mismatch("GetIntermediateState", ir, -1, "dim", st.Dim(), d);
            else for (int k = 0; k < d * d; k++) expect_val("GetIntermediateState", ir, k, st[k], want[k], s.rhonorm);
          } catch (std::exception& e) { mismatch("GetIntermediateState", ir, -1, std::string("threw:") + e.what(), 1, 0); }
          for (int k = 0; k < nops; k++) {
            SU_vector op = vec_from_matrix(s.ops[k]);
            double S = s.rhonorm * mnorm1(s.ops[k]) * (1 + phase);
            try {
              expect_val("GetExpectationValueD", ir, k, o.GetExpectationValueD(op, ir, x), evd[ir][k], S);
              expect_val("GetExpectationValueD(buf)", ir, k, o.GetExpectationValueD(op, ir, x, buf), evd[ir][k], S);
              expect_val("GetExpectationValueD(avg)", ir, k, o.GetExpectationValueD(op, ir, x, unreachable, avr), evd[ir][k], S);
              expect_val("GetExpectationValueD(buf,avg)", ir, k, o.GetExpectationValueD(op, ir, x, buf, unreachable, avr), evd[ir][k], S);
              if (node >= 0) {
                expect_val("GetExpectationValue", ir, k, o.GetExpectationValue(op, ir, node), ev[ir][k], S);
                expect_val("GetExpectationValue(avg)", ir, k, o.GetExpectationValue(op, ir, node, unreachable, avr), ev[ir][k], S);
              }
            } catch (std::exception& e) { mismatch("GetExpectationValue*", ir, k, std::string("threw:") + e.what(), 1, 0); }
          }
        }
      }
    } else { printf("BADINPUT %s\n", tag.c_str()); return 2; }
  }
  printf("REFUSED %ld %ld\n", nrefused, nmode2);
  printf("DONE %ld %ld %ld %.3g\n", nq, ncmp, nmis, maxrel);
  return 0;
}
