// Linked into the repository's own test programs (rebuilt with -DSQUIDS_VERIF): installs an event sink before main()
// and writes the heap events of the run as ndjson to $SQUIDS_VERIF_TRACE at exit. Blocks are numbered by allocation
// (an address that is released and handed out again gets a new number).
#include <SQuIDS/detail/Verif.h>
#include <cstdio>
#include <cstdlib>
#include <cstring>
#include <vector>
#include <map>
#include <string>
namespace {
struct Rec { char k; int b; int d; };
std::vector<Rec>* recs = nullptr;
std::map<const void*, int>* ids = nullptr;
std::vector<int>* freeids = nullptr;
int nextid = 1;
int newid() { if (freeids && !freeids->empty()) { int x = freeids->back(); freeids->pop_back(); return x; } return nextid++; }
bool busy = false;
void sink(const char* tag, const void* p0, const void*, long a, long) {
  if (busy || !recs) return;       // the containers below allocate; do not recurse through replaced operator new
  busy = true;
  char k = 0;
  if (!strcmp(tag, "heap.fresh")) k = 'f'; else if (!strcmp(tag, "heap.hit")) k = 'h'; else if (!strcmp(tag, "heap.cached")) k = 'c';
  else if (!strcmp(tag, "heap.deleted")) k = 'd'; else if (!strcmp(tag, "heap.drained")) k = 'r';
  if (k) {
    int id;
    auto it = ids->find(p0);
    if (k == 'f' || it == ids->end()) { id = newid(); (*ids)[p0] = id; if (k != 'f') recs->push_back({'n', id, (int)a}); }   // 'n': first seen (a block from a plain new[])
    else id = it->second;
    recs->push_back({k, id, (int)a});
    if (k == 'd' || k == 'r') { ids->erase(p0); freeids->push_back(id); }
  }
  busy = false;
}
void dump() {
  const char* f = getenv("SQUIDS_VERIF_TRACE");
  if (!f || !recs) return;
  FILE* o = fopen(f, "w");
  if (!o) return;
  for (auto& r : *recs) {
    const char* e = r.k == 'f' ? "Fresh" : r.k == 'h' ? "Hit" : r.k == 'c' ? "Cached" : r.k == 'd' ? "Deleted" : r.k == 'r' ? "Drained" : "Raw";
    fprintf(o, "{\"e\":\"%s\",\"b\":%d,\"d\":%d}\n", e, r.b, r.d);
  }
  fprintf(o, "{\"e\":\"End\",\"b\":0,\"d\":0}\n");
  fclose(o);
}
struct Installer {
  Installer() { recs = new std::vector<Rec>(); ids = new std::map<const void*, int>(); freeids = new std::vector<int>(); squids::verif::event_sink() = sink; atexit(dump); }
} installer;
}
