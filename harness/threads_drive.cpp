// Driver for module Threads (C18): N real threads doing vector algebra, matrix exponentials, cross-thread hand-over of
// vectors through a mutex-protected queue and const queries on one shared, frozen solver object.
//   threads_drive <mode> <nthreads> <rounds> <seed>
//     mode "trace": records heap / hand-over / exit events (ndjson, linearised by a global sequence) and result digests
//     mode "race" : no recording at all (no extra synchronisation) - meant to be built with ThreadSanitizer; in the plain
//                   build it is the run in which calls of different threads overlap most (compared with "ref" bit for bit)
//   optional 5th argument: repetitions of the all-entry-points block per round
//     mode "ref"  : the same per-thread programs executed by ONE thread in round order; prints the result digests
#include <SQuIDS/SQuIDS.h>
#include <SQuIDS/detail/MatrixExp.h>
#include <atomic>
#include <condition_variable>
#include <cstdio>
#include <cstring>
#include <deque>
#include <mutex>
#include <thread>
#include <vector>
#include <unistd.h>
#include "exact.h"

using namespace squids;

static bool tracing = false;
static std::mutex logm;
static std::vector<std::string> logv;
static thread_local int my_tid = 0;   // 0 = main

// ---- ledger (only in trace mode)
static const int MAXB = 2400;
struct LE { void* p; int id; };
static LE ledger[16384]; static int nled = 0; static bool used[MAXB + 1]; static int cached_by[MAXB + 1];
static int find_l(void* p) { for (int i = 0; i < nled; i++) if (ledger[i].p == p) return i; return -1; }
static void logline(const char* fmt, int a, int b) { char buf[160]; snprintf(buf, sizeof buf, fmt, a, b); logv.push_back(buf); }

#ifndef VERIF_NO_LEDGER
void* operator new[](std::size_t size) {
  void* p = malloc(size ? size : 1);
  if (!p) throw std::bad_alloc();
  if (tracing && my_tid >= 0) {
    std::lock_guard<std::mutex> g(logm);
    int id = 0; for (int i = 1; i <= MAXB; i++) if (!used[i]) { id = i; break; }
    if (!id || nled >= 16384) { fprintf(stderr, "ledger full\n"); _exit(3); }
    used[id] = true; cached_by[id] = 0; ledger[nled].p = p; ledger[nled].id = id; nled++;
    logline("{\"e\":\"AllocNew\",\"t\":%d,\"b\":%d}", my_tid, id);
  }
  return p;
}
void operator delete[](void* p) noexcept {
  if (!p) return;
  if (tracing) {
    std::lock_guard<std::mutex> g(logm);
    int i = find_l(p);
    if (i >= 0 && my_tid <= 0) { used[ledger[i].id] = false; ledger[i] = ledger[nled - 1]; nled--; }
    else if (i >= 0) { logline("{\"e\":\"ReleaseFree\",\"t\":%d,\"b\":%d}", my_tid, ledger[i].id); used[ledger[i].id] = false; cached_by[ledger[i].id] = 0; ledger[i] = ledger[nled - 1]; nled--; }
  }
  free(p);
}
void operator delete[](void* p, std::size_t) noexcept { operator delete[](p); }
#endif

// ---- scratch objects of the library that are observable from outside: the GSL random generator of the norm estimator.
// The three entry points are interposed (the executable's definitions win over libgsl.so's); in trace mode every
// make / first use by a thread / drop is an event of module Threads (ResMake, ResUse, ResDrop).
#include <dlfcn.h>
#include <gsl/gsl_rng.h>
static const int MAXR = 16;
static const gsl_rng* res_ptr[MAXR + 1]; static int res_last_user[MAXR + 1];
static int res_id(const gsl_rng* r, bool make) {
  for (int i = 1; i <= MAXR; i++) if (res_ptr[i] == r) return i;
  if (!make) return 0;
  for (int i = 1; i <= MAXR; i++) if (!res_ptr[i]) { res_ptr[i] = r; res_last_user[i] = 0; return i; }
  fprintf(stderr, "scratch table full\n"); _exit(3);
}
extern "C" gsl_rng* gsl_rng_alloc(const gsl_rng_type* T) {
  typedef gsl_rng* (*F)(const gsl_rng_type*);
  static F real = (F)dlsym(RTLD_NEXT, "gsl_rng_alloc");
  gsl_rng* r = real(T);
  if (tracing && my_tid > 0) { std::lock_guard<std::mutex> g(logm); logline("{\"e\":\"ResMake\",\"t\":%d,\"r\":%d}", my_tid, res_id(r, true)); }
  return r;
}
extern "C" void gsl_rng_free(gsl_rng* r) {
  typedef void (*F)(gsl_rng*);
  static F real = (F)dlsym(RTLD_NEXT, "gsl_rng_free");
  if (tracing && my_tid > 0) {
    std::lock_guard<std::mutex> g(logm);
    int id = res_id(r, false);
    if (id) { logline("{\"e\":\"ResDrop\",\"t\":%d,\"r\":%d}", my_tid, id); res_ptr[id] = nullptr; }
  }
  real(r);
}
extern "C" unsigned long int gsl_rng_uniform_int(const gsl_rng* r, unsigned long int n) {
  typedef unsigned long int (*F)(const gsl_rng*, unsigned long int);
  static F real = (F)dlsym(RTLD_NEXT, "gsl_rng_uniform_int");
  if (tracing && my_tid > 0) {
    std::lock_guard<std::mutex> g(logm);
    int id = res_id(r, false);
    // one event per change of user (a generator made before the workers started, or by main, has no id: id 0 is never a step)
    if (id == 0 || res_last_user[id] != my_tid) { logline("{\"e\":\"ResUse\",\"t\":%d,\"r\":%d}", my_tid, id); if (id) res_last_user[id] = my_tid; }
  }
  return real(r, n);
}

static void sink(const char* tag, const void* p0, const void* p1, long a, long b) {
  if (!tracing || my_tid <= 0) return;
  std::lock_guard<std::mutex> g(logm);
  int i = find_l(const_cast<void*>(p0)); int id = i < 0 ? 0 : ledger[i].id;
  if (!strcmp(tag, "heap.cached")) { logline("{\"e\":\"ReleaseCache\",\"t\":%d,\"b\":%d}", my_tid, id); if (id) cached_by[id] = my_tid; }
  else if (!strcmp(tag, "heap.hit")) { logline("{\"e\":\"AllocHit\",\"t\":%d,\"b\":%d}", my_tid, id); if (id) cached_by[id] = 0; }
  else if (!strcmp(tag, "heap.drained")) { if (id) cached_by[id] = 0; }
}

// ---- shared frozen solver
class FrozenSolver : public SQuIDS {
 public:
  FrozenSolver(unsigned nx, unsigned d) : SQuIDS(nx, d, 1, 0, 0.0) {
    Set_xrange(1.0, (double)nx, "linear");
    for (unsigned ei = 0; ei < nx; ei++)
      for (unsigned k = 0; k < d * d; k++) state[ei].rho[0][k] = 0.25 * ((ei * 7 + k * 3) % 5) - 0.5;
    Evolve(0.75);   // numerics off: only the clock moves; afterwards the object is only read
  }
  SU_vector H0(double x, unsigned int) const override {
    SU_vector h(nsun);
    for (unsigned l = 1; l < nsun; l++) h[nsun * l + l] = 0.3 * x * l;
    return h;
  }
};
static FrozenSolver* shared = nullptr;

// ---- hand-over queues
struct Queue { std::mutex m; std::condition_variable cv; std::deque<SU_vector> q; };
static std::vector<Queue*> queues;

static std::string hex(uint64_t x) { char b[32]; snprintf(b, sizeof b, "%016llx", (unsigned long long)x); return b; }
struct Results { std::vector<std::string> r; };

static void fill(SU_vector& v, unsigned seed) {
  for (unsigned k = 0; k < v.Size(); k++) v[k] = 0.125 * (double)((seed * 2654435761u + k * 40503u) % 17) - 1.0;
}
static int block_id_of(const SU_vector& v) {
  std::lock_guard<std::mutex> g(logm);
  const double* c = detail::verif_access::components(v);
  int i = find_l((void*)(c - detail::verif_access::ptr_offset(v)));
  return i < 0 ? 0 : ledger[i].id;
}

// every const query entry point of the shared, frozen solver (plain, averaging, explicit-buffer overloads)
static std::string query_all(const SU_vector& op, int t, int r, int first = -1) {
  double x = 1.0 + 0.37 * ((t + 2 * r) % 5);
  if (first >= 0) {   // let a chosen entry point be the thread's very first library activity
    std::vector<bool> av(3); double z = 0;
    switch (first % 9) {
      case 5: { gsl_matrix_complex* A = gsl_matrix_complex_calloc(3, 3); gsl_matrix_complex* E = gsl_matrix_complex_alloc(3, 3);
                gsl_matrix_complex_set(A, 0, 1, gsl_complex_rect(0.3, 0.1)); gsl_matrix_complex_set(A, 1, 0, gsl_complex_rect(-0.3, 0.1)); gsl_matrix_complex_set(A, 2, 0, gsl_complex_rect(0.2, 0));
                math_detail::matrix_exponential(E, A); z = GSL_REAL(gsl_matrix_complex_get(E, 0, 0)); gsl_matrix_complex_free(A); gsl_matrix_complex_free(E); } break;
      case 6: { SU_vector p = SU_vector::PosProjector(4, 2); z = p[0]; } break;
      case 7: { auto es = op.GetEigenSystem(true); z = gsl_vector_get(es.first.get(), 0); } break;
      case 8: { z = op * op; SU_vector c = iCommutator(op, op); z += c[1]; } break;
      case 0: z = shared->GetExpectationValueD(op, 0, x); break;
      case 1: z = shared->GetExpectationValueD(op, 0, x, 1e9, av); break;
      case 2: z = shared->GetExpectationValue(op, 0, 1); break;
      case 3: z = shared->GetExpectationValue(op, 0, 1, 1e9, av); break;
      case 4: { SU_vector m = shared->GetIntermediateState(0, x); z = m[0]; } break;
    }
    (void)z;
  }
  std::vector<bool> avr1(3), avr2(3), avr3(3);
  SQuIDS::expectationValueDBuffer buf(3);
  double e[7];
  e[0] = shared->GetExpectationValue(op, 0, (t + r) % shared->Get_nx());
  e[1] = shared->GetExpectationValue(op, 0, (t + r) % shared->Get_nx(), 1e9, avr1);
  e[2] = shared->GetExpectationValueD(op, 0, x);
  e[3] = shared->GetExpectationValueD(op, 0, x, 1e9, avr2);
  e[4] = shared->GetExpectationValueD(op, 0, x, buf);
  e[5] = shared->GetExpectationValueD(op, 0, x, buf, 0.05 + 0.1 * (r % 3), avr3);
  SU_vector mid = shared->GetIntermediateState(0, 1.5 + 0.25 * (r % 4));
  e[6] = (double)shared->Get_i(1.0 + 0.5 * ((t + r) % 9));
  return "exp " + hex(digest(e, 7)) + hex(digest(&mid[0], mid.Size()));
}

// Every other entry point of the vector library that keeps scratch space between calls or builds its result through
// internal temporaries, called by every thread in every round on the thread's own data: factories, matrix round trip,
// basis rotations by parameters and by matrices, both weighted rotations, the three unitary transformations (the one
// taking a generator goes through the matrix exponential - the scale walks through all Pade orders), eigen systems in
// every dimension, averaged / interval evolution tables and both filters.  The digest of all results is compared with
// the single-thread run; the ThreadSanitizer build sees every scratch object that is not per thread.
static void everything(int t, int r, unsigned seed, Results& res) {
  std::vector<double> acc;
  double e1 = 0, e2 = 0; long ne = 0;
  auto take = [&](const SU_vector& v) { for (unsigned k = 0; k < v.Size(); k++) acc.push_back(v[k]); };
  // results that go through the matrix exponential are compared to 1e-9 (its norm estimator draws random probe columns, so the
  // Pade order may differ from run to run at a band edge), everything else bit for bit
  auto take_exp = [&](const SU_vector& v) { for (unsigned k = 0; k < v.Size(); k++) { ne++; e1 += v[k] * (1 + (ne % 7)); e2 += v[k] * v[k]; } };
  for (unsigned d = 2; d <= 6; d++) {
    if ((d + t + r) % 2) continue;                       // half of the dimensions per round, alternating
    SU_vector a(d), w(d), hd(d), g(d);
    fill(a, seed + 13 * t + r + d); fill(w, seed + 7 * t + 3 * r + d);
    for (unsigned l = 1; l < d; l++) hd[d * l + l] = 0.3 * l + 0.05 * t;
    for (unsigned k = 1; k < d * d; k++) g[k] = 0.02 * ((k * 5 + t + r) % 7) - 0.05;
    take(SU_vector::Projector(d, (t + r) % d) + SU_vector::PosProjector(d, (t + 1) % d) + SU_vector::NegProjector(d, (r + 1) % d) + SU_vector::Identity(d) + SU_vector::Generator(d, (t * 3 + r) % (d * d)));
    auto m = a.GetGSLMatrix(); SU_vector back(m.get()); take(back);
    take(a.Real()); take(a.Imag()); { SU_vector tr = a; tr.Transpose(); take(tr); }
    Const par;
    for (unsigned j = 1; j < d; j++) for (unsigned i = 0; i < j; i++) { par.SetMixingAngle(i, j, 0.1 * (i + j + t % 3)); par.SetPhase(i, j, 0.05 * (j + r % 2)); }
    { SU_vector x = a; x.RotateToB1(par); take(x); x.RotateToB0(par); take(x); }
    auto U = par.GetTransformationMatrix(d);
    take(a.Rotate(U.get())); take(a.UTransform(U.get())); take(a.UDaggerTransform(U.get()));
    take(a.Rotate(0, d - 1, 0.3 + 0.1 * t, 0.2));
    { SU_vector x = a; x.WeightedRotation(par, w, par); take(x); SU_vector y = a; y.WeightedRotation(U.get(), w, U.get()); take(y); }
    // e^{-sG} a e^{sG}: the norm of s*G runs through the Pade bands (orders 3, 5, 7, 9, 13 with squaring) and the diagonal shortcut
    static const double scales[] = {0.01, 0.2, 0.9, 2.5, 9.0, 40.0};
    take_exp(a.UTransform(g, gsl_complex_rect(0, scales[(t + r + d) % 6])));
    take_exp(a.UTransform(g, gsl_complex_rect(0, 2.5)));      // the degree-9 band in every thread, every round
    take_exp(a.UTransform(hd, gsl_complex_rect(0, 0.7)));
    auto es = w.GetEigenSystem((t + r) % 2 == 0);
    for (unsigned k = 0; k < d; k++) acc.push_back(gsl_vector_get(es.first.get(), k));
    std::vector<double> buf(hd.GetEvolveBufferSize());
    std::vector<bool> avr(d * (d - 1) / 2 + 1);
    hd.PrepareEvolve(buf.data(), 1.7 + 0.1 * r); take(a.Evolve(buf.data()));
    hd.PrepareEvolve(buf.data(), 2.3, 0.4 + 0.1 * t, avr); take(a.Evolve(buf.data()));
    hd.PrepareEvolve(buf.data(), 0.5, 1.5 + 0.2 * r); take(a.Evolve(buf.data()));
    hd.LowPassFilter(buf.data(), 0.8, 0.3); take(a.Evolve(buf.data()));
    hd.AvgRampFilter(buf.data(), 1.1, 2.0, 0.5); take(a.Evolve(buf.data()));
    acc.push_back(a * w);
    // scalar products whose operands are unevaluated expressions (evaluated into temporaries inside the library)
    acc.push_back(iCommutator(a, w) * w); acc.push_back(iCommutator(a, w) * ACommutator(a, w)); acc.push_back((a + w) * (a - w));
    acc.push_back(w * ACommutator(a, w)); acc.push_back((a * 2.0) * (w * 0.5)); acc.push_back(a.Evolve(hd, 0.4) * w.Evolve(hd, 0.4));
    // fused statements whose target is an operand (evaluated through a temporary inside the library)
    { SU_vector x = a; x = iCommutator(x, w); take(x); x = ACommutator(w, x); take(x); x = x.Evolve(hd, 0.3); take(x);
      x += iCommutator(x, w); take(x); x -= ACommutator(x, w) * 0.0625; take(x); x = x.Evolve(buf.data()); take(x); }
  }
  // a digest of doubles rounded to 1e-9 relative would hide nothing here: these are bit-for-bit the same computations
  res.r.push_back("all " + hex(digest(acc.data(), acc.size())));
  char b[96]; snprintf(b, sizeof b, "exp %.12e %.12e", e1, e2);
  res.r.push_back(b);
}

// the worker threads enter everything() together (a race on shared scratch space needs the calls to overlap)
static std::atomic<int> bar_count{0}, bar_gen{0};
static int bar_n = 0;      // 0: single-thread reference run, no rendezvous
static int g_reps = 1;     // how often every thread runs everything() per round (argv[5])
static void rendezvous() {
  if (bar_n < 2) return;
  int g = bar_gen.load();
  if (bar_count.fetch_add(1) + 1 == bar_n) { bar_count.store(0); bar_gen.fetch_add(1); }
  else while (bar_gen.load() == g) std::this_thread::yield();
}

// phase A of round r on logical thread t: local algebra, matrix exponential, send
static void phase_a(int t, int r, int n, unsigned seed, std::vector<SU_vector>& pool, Results& res) {
  unsigned d = 2 + (t + r) % 5;
  pool.clear();
  for (int k = 0; k < 3; k++) { pool.emplace_back(d); fill(pool.back(), seed + 31 * t + 7 * r + k); }
  SU_vector h(d); for (unsigned l = 1; l < d; l++) h[d * l + l] = 0.2 * l;
  pool[0] = pool[1] + pool[2];
  pool[1] = iCommutator(pool[0], pool[2]);
  pool[2] += ACommutator(pool[0], pool[1]) * 0.125;
  SU_vector ev = pool[1].Evolve(h, 0.37 * (r + 1));
  pool[0] -= ev;
  res.r.push_back("alg " + hex(digest(&pool[0][0], pool[0].Size())) + hex(digest(&pool[2][0], pool[2].Size())));
  for (int rep = 0; rep < g_reps; rep++) { rendezvous(); everything(t, r + 11 * rep, seed, res); }
  // matrix exponential (dimension changes from round to round: thread-local scratch is resized)
  unsigned n2 = 2 + (t * 3 + r) % 5;
  gsl_matrix_complex* A = gsl_matrix_complex_alloc(n2, n2); gsl_matrix_complex* E = gsl_matrix_complex_alloc(n2, n2);
  for (unsigned i = 0; i < n2; i++) for (unsigned j = 0; j < n2; j++)
    gsl_matrix_complex_set(A, i, j, gsl_complex_rect(0.1 * ((i * 3 + j + t) % 4) - 0.1, i == j ? 0.0 : 0.05 * ((i + 2 * j + r) % 3)));
  if (n2 == 2) { gsl_matrix_complex_set(A, 0, 1, gsl_complex_rect(0, 0)); gsl_matrix_complex_set(A, 1, 0, gsl_complex_rect(0, 0)); }
  math_detail::matrix_exponential(E, A);
  char buf[96]; double sre = 0, sim = 0;
  for (unsigned i = 0; i < n2; i++) for (unsigned j = 0; j < n2; j++) { sre += GSL_REAL(gsl_matrix_complex_get(E, i, j)) * (1 + i + 2 * j); sim += GSL_IMAG(gsl_matrix_complex_get(E, i, j)) * (1 + 2 * i + j); }
  snprintf(buf, sizeof buf, "exp %.12e %.12e", sre, sim);
  res.r.push_back(buf);
  gsl_matrix_complex_free(A); gsl_matrix_complex_free(E);
  // hand a vector to the next thread
  SU_vector out = pool[0] + pool[2];
  int to = (t + 1) % n;
  int bid = tracing ? block_id_of(out) : 0;
  {
    std::lock_guard<std::mutex> g(queues[to]->m);
    if (tracing) { std::lock_guard<std::mutex> g2(logm); logline("{\"e\":\"Send\",\"t\":%d,\"b\":%d}", my_tid, bid); }
    queues[to]->q.push_back(std::move(out));
  }
  queues[to]->cv.notify_one();
}
// phase B: receive, combine (the received block is released on THIS thread), query the shared solver
static void phase_b(int t, int r, int n, std::vector<SU_vector>& pool, Results& res) {
  SU_vector in;
  {
    std::unique_lock<std::mutex> g(queues[t]->m);
    queues[t]->cv.wait(g, [&] { return !queues[t]->q.empty(); });
    in = std::move(queues[t]->q.front());
    queues[t]->q.pop_front();
    if (tracing) { int bid = block_id_of(in); std::lock_guard<std::mutex> g2(logm); logline("{\"e\":\"Recv\",\"t\":%d,\"b\":%d}", my_tid, bid); }
  }
  res.r.push_back("recv " + hex(digest(&in[0], in.Size())));
  if (in.Dim() == pool[1].Dim()) pool[1] += in;
  in = SU_vector();     // release the block allocated by the sender on this thread
  unsigned d = shared->GetParams().electron + 3;   // = 3 (just a const read of the shared object)
  SU_vector op = SU_vector::Projector(d, (t + r) % d);
  res.r.push_back(query_all(op, t, r));
  pool.clear();
}

// A producer / consumer pair: the consumer's ONLY library activity is to receive vectors built elsewhere, form scalar
// products (no allocation) and destroy them - every block it ever touches was allocated by another thread.
static const int NHAND = 12;
static SU_vector handover_vector(int k, unsigned seed) { SU_vector v(2 + k % 5); fill(v, seed + 977 * k); return v; }
static std::string consume(SU_vector& in) {
  double s = in * in;
  std::string r = "cons " + hex(digest(&s, 1)) + hex(digest(&in[0], in.Size()));
  in = SU_vector();          // the block allocated by the producer is released here
  return r;
}

int main(int argc, char** argv) {
  if (argc < 5) return 3;
  std::string mode = argv[1]; int n = atoi(argv[2]); int rounds = atoi(argv[3]); unsigned seed = atoi(argv[4]);
  if (argc > 5) g_reps = atoi(argv[5]);
  tracing = (mode == "trace");
  if (tracing) verif::event_sink() = sink;
  my_tid = -1;                      // allocations of the main thread before the workers start are not part of the model
  shared = new FrozenSolver(6, 3);
  for (int i = 0; i < n; i++) queues.push_back(new Queue());
  std::vector<Results> res(n);
  Results qres, cres;
  SU_vector* qop = new SU_vector(SU_vector::Projector(3, 1));
  if (mode == "ref") {
    for (int r = 0; r < rounds * 8; r++) qres.r.push_back(query_all(*qop, n, r));
    for (int k = 0; k < NHAND; k++) { SU_vector v = handover_vector(k, seed); cres.r.push_back(consume(v)); }
    std::vector<std::vector<SU_vector>> pools(n);
    for (int r = 0; r < rounds; r++) {
      for (int t = 0; t < n; t++) phase_a(t, r, n, seed, pools[t], res[t]);
      for (int t = 0; t < n; t++) phase_b(t, r, n, pools[t], res[t]);
    }
  } else {
    std::vector<std::thread> ths;
    bar_n = n;
    for (int t = 0; t < n; t++)
      ths.emplace_back([&, t] {
        my_tid = t + 1;
        std::vector<SU_vector> pool;
        for (int r = 0; r < rounds; r++) { phase_a(t, r, n, seed, pool, res[t]); phase_b(t, r, n, pool, res[t]); }
      });
    // one more worker whose ONLY library activity is const queries on the shared solver (operators built by main)
    for (int first = 0; first < 9; first++) {    // short-lived workers, each starting with a different entry point
      std::thread qonly([&, first] {
        my_tid = n + 1;
        for (int r = 0; r < rounds * 8; r++) { std::string q = query_all(*qop, n, r, r == 0 ? first : -1); if (first == 0) qres.r.push_back(q); }
      });
      qonly.join();
      if (first < 8 && tracing) {
        std::lock_guard<std::mutex> g(logm);
        std::string left;
        for (int id = 1; id <= MAXB; id++) if (used[id] && cached_by[id] == n + 1) left += (left.empty() ? "" : ",") + std::to_string(id);
        logv.push_back("{\"e\":\"Exit\",\"t\":" + std::to_string(n + 1) + ",\"left\":[" + left + "]}");
        logv.push_back("{\"e\":\"Respawn\",\"t\":" + std::to_string(n + 1) + "}");
      }
    }
    if (tracing) {
      std::lock_guard<std::mutex> g(logm);
      std::string left;
      for (int id = 1; id <= MAXB; id++) if (used[id] && cached_by[id] == n + 1) left += (left.empty() ? "" : ",") + std::to_string(id);
      logv.push_back("{\"e\":\"Exit\",\"t\":" + std::to_string(n + 1) + ",\"left\":[" + left + "]}");
    }
    {
      Queue hq;
      auto exit_event = [&](int tid) {
        if (!tracing) return;
        std::lock_guard<std::mutex> g(logm);
        std::string left;
        for (int id = 1; id <= MAXB; id++) if (used[id] && cached_by[id] == tid) left += (left.empty() ? "" : ",") + std::to_string(id);
        logv.push_back("{\"e\":\"Exit\",\"t\":" + std::to_string(tid) + ",\"left\":[" + left + "]}");
      };
      std::thread cons([&] {
        my_tid = n + 3;
        for (int k = 0; k < NHAND; k++) {
          SU_vector in;
          {
            std::unique_lock<std::mutex> g(hq.m);
            hq.cv.wait(g, [&] { return !hq.q.empty(); });
            in = std::move(hq.q.front()); hq.q.pop_front();
            if (tracing) { int bid = block_id_of(in); std::lock_guard<std::mutex> g2(logm); logline("{\"e\":\"Recv\",\"t\":%d,\"b\":%d}", my_tid, bid); }
          }
          cres.r.push_back(consume(in));
        }
      });
      std::thread prod([&] {
        my_tid = n + 2;
        for (int k = 0; k < NHAND; k++) {
          SU_vector out = handover_vector(k, seed);
          int bid = tracing ? block_id_of(out) : 0;
          {
            std::lock_guard<std::mutex> g(hq.m);
            if (tracing) { std::lock_guard<std::mutex> g2(logm); logline("{\"e\":\"Send\",\"t\":%d,\"b\":%d}", my_tid, bid); }
            hq.q.push_back(std::move(out));
          }
          hq.cv.notify_one();
        }
      });
      prod.join(); exit_event(n + 2);
      cons.join(); exit_event(n + 3);
    }
    for (int t = 0; t < n; t++) {
      ths[t].join();
      if (tracing) {
        std::lock_guard<std::mutex> g(logm);
        std::string left;
        for (int id = 1; id <= MAXB; id++) if (used[id] && cached_by[id] == t + 1) left += (left.empty() ? "" : ",") + std::to_string(id);
        logv.push_back("{\"e\":\"Exit\",\"t\":" + std::to_string(t + 1) + ",\"left\":[" + left + "]}");
      }
    }
  }
  for (auto& l : logv) puts(l.c_str());
  for (int t = 0; t < n; t++) for (size_t k = 0; k < res[t].r.size(); k++) printf("RES %d %zu %s\n", t, k, res[t].r[k].c_str());
  for (size_t k = 0; k < qres.r.size(); k++) printf("RES %d %zu %s\n", n, k, qres.r[k].c_str());
  for (size_t k = 0; k < cres.r.size(); k++) printf("RES %d %zu %s\n", n + 1, k, cres.r[k].c_str());
  puts("DONE");
  fflush(stdout);
  _exit(0);
}
