// Replayer for module ParamStore (C06, parameter store of Const): executes each exported call sequence on a fresh
// Const object and compares the COMPLETE read-back (every cell of the index window, including the cells whose access
// must be rejected) with the specification. stdin: one case per line
//   W  nacts  (kind i j v)*nacts  out  angle[(W+1)^2] phase[(W+1)^2] energy[W+1]      kind: 0 angle 1 phase 2 energy
// stdout: MISMATCH lines, then DONE n nmis
#include <SQuIDS/const.h>
#include <gsl/gsl_matrix.h>
#include <gsl/gsl_complex_math.h>
#include <cstdio>
#include <iostream>
#include <vector>
#include <cstring>
using namespace squids;
static double val(long v) { return v == 0 ? 0.0 : 0.1 * v + 0.01; }
int main() {
  long n = 0, nmis = 0; int W;
  while (std::cin >> W) {
    int na; std::cin >> na;
    Const c; bool threw = false;
    for (int a = 0; a < na; a++) {
      int k; long i, j, v; std::cin >> k >> i >> j >> v;
      threw = false;
      try { if (k == 0) c.SetMixingAngle(i, j, val(v)); else if (k == 1) c.SetPhase(i, j, val(v)); else c.SetEnergyDifference(i, val(v)); }
      catch (std::exception&) { threw = true; }
      // reads between the writes: the mixing matrix is a function of the stored parameters, asking for it changes nothing
      // (one dimension per case, the same one every time, so that whatever the store remembers about its last answer is in play)
      { auto U = c.GetTransformationMatrix(2 + n % 5); (void)U; }
    }
    {
      Const f;      // a fresh store given the final parameters only
      for (unsigned j = 1; j < 6; j++) for (unsigned i = 0; i < j; i++) { f.SetMixingAngle(i, j, c.GetMixingAngle(i, j)); f.SetPhase(i, j, c.GetPhase(i, j)); }
      for (unsigned q = 0; q < 5; q++) {
        unsigned d = 2 + (n + q) % 5;            // the dimension asked for between the writes first, then the others
        auto U = c.GetTransformationMatrix(d), V = f.GetTransformationMatrix(d);
        bool same = U->size1 == d && U->size2 == d;
        for (unsigned a = 0; a < d && same; a++) for (unsigned b = 0; b < d; b++) {
          gsl_complex x = gsl_matrix_complex_get(U.get(), a, b), y = gsl_matrix_complex_get(V.get(), a, b);
          if (GSL_REAL(x) != GSL_REAL(y) || GSL_IMAG(x) != GSL_IMAG(y)) { same = false; break; }
        }
        if (!same) { printf("MISMATCH %ld GetTransformationMatrix(%u) differs from the matrix of a fresh store holding the same parameters\n", n, d); nmis++; }
      }
    }
    std::string out; std::cin >> out;
    if (threw != (out == "rt")) { printf("MISMATCH %ld last-call-outcome threw=%d expected=%s\n", n, (int)threw, out.c_str()); nmis++; }
    for (int t = 0; t < 2; t++)
      for (int i = 0; i <= W; i++) for (int j = 0; j <= W; j++) {
        long e; std::cin >> e; bool th = false; double g = 0;
        try { g = t == 0 ? c.GetMixingAngle(i, j) : c.GetPhase(i, j); } catch (std::exception&) { th = true; }
        if (e < 0 ? !th : (th || std::memcmp(&g, (const void*)&(const double&)val(e), 0) != 0 || g != val(e))) {
          printf("MISMATCH %ld %s(%d,%d) expected=%ld got=%s%.17g\n", n, t == 0 ? "GetMixingAngle" : "GetPhase", i, j, e, th ? "throw " : "", g); nmis++; }
      }
    for (int k = 0; k <= W; k++) {
      long e; std::cin >> e; bool th = false; double g = 0;
      try { g = c.GetEnergyDifference(k); } catch (std::exception&) { th = true; }
      if (e < 0 ? !th : (th || g != val(e))) { printf("MISMATCH %ld GetEnergyDifference(%d) expected=%ld got=%s%.17g\n", n, k, e, th ? "throw " : "", g); nmis++; }
    }
    n++;
  }
  printf("DONE %ld %ld\n", n, nmis);
  return 0;
}
