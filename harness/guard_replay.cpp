// C14 binding for module Guards: executes every exported case on the real library (AddressSanitizer build).
// stdin:  idx entry k1 k2 d1 d2 r c must
// stdout: FAIL idx what   ...   DONE ncases nfail
// A case passes iff (an std::exception is raised) == must, and every operand is bit-identical afterwards.
#include <SQuIDS/SUNalg.h>
#include <SQuIDS/const.h>
#include <gsl/gsl_errno.h>
#include <gsl/gsl_matrix.h>
#include <gsl/gsl_complex_math.h>
#include <cstdio>
#include <cstring>
#include <iostream>
#include <string>
#include <vector>
using namespace squids;

static SU_vector mk(int d, int salt) {
  SU_vector v(d);
  for (int k = 0; k < d * d; k++) v[k] = 0.25 * ((k * 7 + salt * 3) % 11) - 1.0;
  return v;
}
static bool same(const SU_vector& a, const std::vector<double>& c) {
  if (a.Size() != c.size()) return false;
  for (unsigned k = 0; k < a.Size(); k++) if (std::memcmp(&a[k], &c[k], sizeof(double)) != 0) return false;
  return true;
}
static std::vector<double> snap(const SU_vector& a) { std::vector<double> c(a.Size()); for (unsigned k = 0; k < a.Size(); k++) c[k] = a[k]; return c; }

// run f on an expression of kind k over (a, a2): the expression object lives only inside this call
template <class F> static void with_expr(const std::string& k, const SU_vector& a, const SU_vector& a2, F f) {
  if (k == "smul") f(a * 2.0);
  else if (k == "add") f(a + a2);
  else if (k == "neg") f(-a);
  else if (k == "icomm") f(iCommutator(a, a2));
  else if (k == "acomm") f(ACommutator(a, a2));
  else throw std::logic_error("kind");
}

int main() {
  gsl_set_error_handler_off();
  long idx, n = 0, nfail = 0;
  std::string entry, k1, k2; int d1, d2, r, c, must;
  while (std::cin >> idx >> entry >> k1 >> k2 >> d1 >> d2 >> r >> c >> must) {
    n++;
    bool threw = false, logic = false; std::string note;
    try {
      if (entry == "Rotate(U)" || entry == "SU_vector(matrix)") {
        // every second case hands the r x c matrix over as a VIEW into a larger one (row stride != number of columns),
        // alternately a parent whose stride equals r (so that "rows = stride" cannot pass for "square")
        gsl_matrix_complex* parent = nullptr; gsl_matrix_complex_view vw;
        gsl_matrix_complex* U;
        if (idx % 2) {
          int pr = r + 2, pc = (idx % 4 == 1 && r > c) ? r : c + 3;
          parent = gsl_matrix_complex_calloc(pr, pc);
          for (int i = 0; i < pr; i++) for (int j = 0; j < pc; j++) gsl_matrix_complex_set(parent, i, j, gsl_complex_rect(0.01 * (i + 1), 0.02 * (j + 1)));
          vw = gsl_matrix_complex_submatrix(parent, 1, 0, r, c);
          U = &vw.matrix;
          for (int i = 0; i < r; i++) for (int j = 0; j < c; j++) gsl_matrix_complex_set(U, i, j, gsl_complex_rect(i == j ? 1 : 0, 0));
        } else {
          U = gsl_matrix_complex_calloc(r, c);
          for (int i = 0; i < r && i < c; i++) gsl_matrix_complex_set(U, i, i, gsl_complex_rect(1, 0));
        }
        if (entry == "Rotate(U)") {
          SU_vector a = mk(d1, 1); auto sa = snap(a);
          try { SU_vector res = a.Rotate(U); if ((int)res.Dim() != d1) note = "result-dim"; } catch (std::exception&) { threw = true; }
          if (!same(a, sa)) note = "operand-modified";
        } else {
          try { SU_vector res(U); if ((int)res.Dim() != r) note = "result-dim"; } catch (std::exception&) { threw = true; }
        }
        if (parent) gsl_matrix_complex_free(parent); else gsl_matrix_complex_free(U);
      } else if (k1 == "own" || k1 == "ext" || k1 == "shared") {
        // two plain vectors by where their components live (module Guards, VecEntries)
        alignas(32) double B1[40], B2[40];
        for (int k = 0; k < 40; k++) { B1[k] = 0.25 * ((k * 7 + 3) % 11) - 1.0; B2[k] = 0.25 * ((k * 7 + 9) % 11) - 1.0; }
        SU_vector u = (k1 == "own") ? mk(d1, 1) : SU_vector(d1, B1);
        SU_vector w = (k1 == "shared") ? SU_vector(d2, B1) : (k2 == "ext" ? SU_vector(d2, B2) : mk(d2, 3));
        auto su = snap(u), sw = snap(w);
        std::vector<double> s1(B1, B1 + 40), s2(B2, B2 + 40);
        try {
          if (entry == "u=v") u = w;
          else if (entry == "u=P") u = w * 2.0;
          else if (entry == "u+=v") u += w;
          else if (entry == "u-=v") u -= w;
          else if (entry == "u*v") { volatile double sp = u * w; (void)sp; }
          else if (entry == "u+v") { SU_vector res = u + w; (void)res; }
          else if (entry == "u-v") { SU_vector res = u - w; (void)res; }
          else if (entry == "iCommutator(u,v)") { SU_vector res = iCommutator(u, w); (void)res; }
          else if (entry == "ACommutator(u,v)") { SU_vector res = ACommutator(u, w); (void)res; }
          else if (entry == "u.Evolve(v)") { SU_vector res = u.Evolve(w, 0.7); (void)res; }
          else throw std::logic_error("entry");
        } catch (std::logic_error&) { logic = true; } catch (std::exception&) { threw = true; }
        bool assigns = (entry == "u=v" || entry == "u=P" || entry == "u+=v" || entry == "u-=v");
        if (threw || !assigns) {
          if (!same(u, su) || !same(w, sw)) note = "operand-modified";
          if (std::memcmp(B1, s1.data(), sizeof B1) != 0 || std::memcmp(B2, s2.data(), sizeof B2) != 0) note = "user-buffer-modified";
        } else {
          if (k1 != "shared" && !same(w, sw)) note = "source-modified";
          // nothing beyond the target's own components is written
          int used = (k1 == "own") ? 0 : d1 * d1;
          if (std::memcmp(B1 + used, s1.data() + used, sizeof(double) * (40 - used)) != 0 || std::memcmp(B2, s2.data(), sizeof B2) != 0) note = "written-outside-the-target";
        }
      } else if (entry.rfind("WeightedRotation", 0) == 0) {
        SU_vector a = mk(d1, 1), y = mk(d2, 2); auto sa = snap(a), sy = snap(y);
        Const par; par.SetMixingAngle(0, 1, 0.3);
        try {
          if (entry == "WeightedRotation(Const)") a.WeightedRotation(par, y, par);
          else { auto V = par.GetTransformationMatrix(d1); a.WeightedRotation(V.get(), y, V.get()); }
        } catch (std::exception&) { threw = true; }
        if (!same(y, sy)) note = "weight-modified";
        if (threw && !same(a, sa)) note = "target-modified-by-rejected-call";
      } else {
        SU_vector a = mk(d1, 1), a2 = mk(d1, 2), b = mk(d2, 3), b2 = mk(d2, 4);
        auto sa = snap(a), sa2 = snap(a2), sb = snap(b), sb2 = snap(b2);
        try {
          if (entry == "P+Q" || entry == "P-Q" || entry == "P*Q" || entry == "P.Evolve(Q)") {
            auto outer = [&](auto&& P) {
              auto inner = [&](auto&& Q) {
                if (entry == "P+Q") { SU_vector res = P + Q; (void)res; }
                else if (entry == "P-Q") { SU_vector res = P - Q; (void)res; }
                else if (entry == "P*Q") { volatile double s = P * Q; (void)s; }
                else { SU_vector res = P.Evolve(Q, 0.7); (void)res; }
              };
              with_expr(k2, b, b2, inner);
            };
            with_expr(k1, a, a2, outer);
          } else {
            auto f = [&](auto&& P) {
              if (entry == "P+v") { SU_vector res = P + b; (void)res; }
              else if (entry == "P-v") { SU_vector res = P - b; (void)res; }
              else if (entry == "v+P") { SU_vector res = b + P; (void)res; }
              else if (entry == "v-P") { SU_vector res = b - P; (void)res; }
              else if (entry == "P*v") { volatile double s = P * b; (void)s; }
              else if (entry == "v*P") { volatile double s = b * P; (void)s; }
              else if (entry == "P.Evolve(v)") { SU_vector res = P.Evolve(b, 0.7); (void)res; }
              else if (entry == "v.Evolve(P)") { SU_vector res = b.Evolve(P, 0.7); (void)res; }
              else if (entry == "iCommutator(P,v)") { SU_vector res = iCommutator(P, b); (void)res; }
              else if (entry == "ACommutator(v,P)") { SU_vector res = ACommutator(b, P); (void)res; }
              else if (entry == "v+=P") { b += P; }
              else if (entry == "v-=P") { b -= P; }
              else throw std::logic_error("entry");
            };
            with_expr(k1, a, a2, f);
          }
        } catch (std::logic_error&) { logic = true; } catch (std::exception&) { threw = true; }
        if (!same(a, sa) || !same(a2, sa2) || !same(b2, sb2)) note = "operand-modified";
        if (threw && !same(b, sb)) note = "operand-modified-by-rejected-call";
      }
    } catch (std::exception& e) { logic = true; }
    if (logic) { printf("BADINPUT %ld %s\n", idx, entry.c_str()); return 2; }
    if (threw != (must != 0)) { printf("FAIL %ld %s\n", idx, threw ? "raised-although-conforming" : "not-rejected"); nfail++; }
    else if (!note.empty()) { printf("FAIL %ld %s\n", idx, note.c_str()); nfail++; }
  }
  printf("DONE %ld %ld\n", n, nfail);
  return 0;
}
