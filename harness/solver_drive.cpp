// Driver for modules Solver / SolverFlow: executes a script on real SQuIDS objects derived with the exactly
// solvable term family and records (a) the protocol events (hooks in SQuIDS.cpp + the callbacks of the derived
// class) as ndjson for validation by TLC (spec/SolverTrace.tla), (b) state dumps for comparison with the exact flow.
//
// script commands (one per line):
//   NEW o nx nsun nrhos nsc t04 | INI o nx nsun nrhos nsc t04 | DESTROY o
//   SW o k b | ANY o b | STEPPER o name adaptive nsteps | TOL o rel abs | H o h hmin? (unused)
//   EVOLVE o dt4            (dt = dt4/4)
//   MOVECTOR dst src | MOVEASSIGN dst src
//   DUMP o tag              (prints "DUMP tag n v0 v1 ..." with hex floats + Get_t)
//   QUIET 0|1               (suppress Rhs events, keep counting)
#include <SQuIDS/SQuIDS.h>
#include <cstdio>
#include <cstring>
#include <iostream>
#include <sstream>
#include <map>
#include <new>
#include <unistd.h>
#include "exact.h"

using namespace squids;

static std::map<const void*, int> addr_ids;
static int next_addr = 1;
static int aid(const void* p) {
  if (!p) return 0;
  auto it = addr_ids.find(p);
  if (it != addr_ids.end()) return it->second;
  addr_ids[p] = next_addr;
  return next_addr++;
}

struct CallRec { const char* f; int ei, i; double t; };
static std::vector<CallRec> calls;
static bool quiet = false;

// integer parameter tables of the solvable family (the same formulas are in spec/SolverFlow.tla)
static int tab_h(int ei, int i, int j) { return (j * (ei + 1) + i) % 4; }
static int tab_g(int ei, int i, int j) { return 1 + ((j + ei + i) % 2); }
static int tab_s(int ei, int i, int j) { return ((j + 1) * (ei + 2) + i) % 3; }
static int tab_gs(int ei, int is) { return 1 + ((ei + is) % 2); }
static int tab_ss(int ei, int is) { return (ei + 2 * is + 1) % 3; }
static long patcoef(long s, long k) { long v = (s * 7 + k * k * 3 + k * (s + 1) + s * s) % 5; return v - 2; }

class TestSolver : public SQuIDS {
 public:
  int slot;
  bool tdep;     // time-dependent term family (see spec/SolverFlow.tla)
  TestSolver() : slot(-1), tdep(false) {}
  TestSolver(unsigned nx, unsigned nsun, unsigned nrhos, unsigned nsc, double ti) : SQuIDS(nx, nsun, nrhos, nsc, ti), slot(-1), tdep(false) {}   // the sizing constructor of the library
  TestSolver(TestSolver&& o) : SQuIDS(std::move(o)), slot(-1), tdep(o.tdep) {}
  TestSolver& operator=(TestSolver&& o) { tdep = o.tdep; SQuIDS::operator=(std::move(o)); return *this; }
  SU_vector diag(const std::vector<double>& dg) const {
    Mat M(nsun);
    for (unsigned j = 0; j < nsun; j++) M(j, j) = dg[j];
    std::vector<double> c = comps_from_matrix(M);
    SU_vector v(nsun);
    for (unsigned k = 0; k < nsun * nsun; k++) v[k] = c[k];
    return v;
  }
  SU_vector HI(unsigned int ei, unsigned int i, double t) const override {
    calls.push_back({"HI", (int)ei, (int)i, t});
    std::vector<double> dg(nsun);
    for (unsigned j = 0; j < nsun; j++) dg[j] = M_PI / 2 * tab_h(ei, i, j) * (tdep ? (1 + 2 * t) : 1.0);
    return diag(dg);
  }
  SU_vector GammaRho(unsigned int ei, unsigned int i, double t) const override {
    calls.push_back({"GammaRho", (int)ei, (int)i, t});
    std::vector<double> dg(nsun);
    for (unsigned j = 0; j < nsun; j++) dg[j] = M_LN2 * tab_g(ei, i, j) * (tdep ? 2 * t : 1.0);
    return diag(dg);
  }
  SU_vector InteractionsRho(unsigned int ei, unsigned int i, double t) const override {
    calls.push_back({"InteractionsRho", (int)ei, (int)i, t});
    std::vector<double> dg(nsun);
    for (unsigned j = 0; j < nsun; j++) dg[j] = 4 * M_LN2 * tab_s(ei, i, j);
    return diag(dg);
  }
  double GammaScalar(unsigned int ei, unsigned int is, double t) const override {
    calls.push_back({"GammaScalar", (int)ei, (int)is, t});
    return M_LN2 * tab_gs(ei, is) * (tdep ? 2 * t : 1.0);
  }
  double InteractionsScalar(unsigned int ei, unsigned int is, double t) const override {
    calls.push_back({"InteractionsScalar", (int)ei, (int)is, t});
    return M_LN2 * tab_ss(ei, is);
  }
  void PreDerive(double t) override { calls.push_back({"PreDerive", -1, -1, t}); }
  void set_mix(double th) { params.SetMixingAngle(0, 1, th); }
  // every query entry point once (node-indexed, by position, with and without caller-supplied buffers, averaged or not)
  double query_all() {
    SU_vector op(nsun);
    for (unsigned k = 0; k < nsun * nsun; k++) op[k] = 0.125 * (k % 5) - 0.25;
    std::vector<bool> avr(nsun * (nsun - 1) / 2 + 1);
    SQuIDS::expectationValueDBuffer buf(nsun);
    double x0 = Get_x(0), q = 0;
    q += GetExpectationValue(op, 0, 0); q += GetExpectationValue(op, 0, 0, 1e300, avr);
    q += GetExpectationValueD(op, 0, x0); q += GetExpectationValueD(op, 0, x0, 0.5, avr);
    q += GetExpectationValueD(op, 0, x0, buf); q += GetExpectationValueD(op, 0, x0, buf, 0.5, avr);
    SU_vector mid = GetIntermediateState(0, x0); q += mid[0];
    return q;
  }
  void fill_initial() {
    for (unsigned ei = 0; ei < nx; ei++) {
      for (unsigned i = 0; i < nrhos; i++) {
        unsigned d = nsun;
        for (unsigned k = 0; k < d * d; k++) {
          unsigned r = k / d, c = k % d;
          double f = (k == 0 || r != c) ? 1.0 : std::sqrt(r * (r + 1.0) / 2.0);
          state[ei].rho[i][k] = patcoef(1 + ei + 2 * i, k) * f;
        }
      }
      for (unsigned is = 0; is < nscalars; is++) state[ei].scalar[is] = 1 + ei + is;
    }
  }
  void scale_state(double f) {
    for (unsigned ei = 0; ei < nx; ei++) {
      for (unsigned i = 0; i < nrhos; i++) for (unsigned k = 0; k < nsun * nsun; k++) state[ei].rho[i][k] *= f;
      for (unsigned is = 0; is < nscalars; is++) state[ei].scalar[is] *= f;
    }
  }
  const double* estate_ptr() const { return (nx && nrhos) ? &(estate[0].rho[0][0]) : nullptr; }
  const double* state_ptr() const { return (nx && nrhos) ? &(state[0].rho[0][0]) : nullptr; }
  uint64_t state_digest() const { return (nx && nrhos) ? digest(&(state[0].rho[0][0]), (size_t)nx * (nsun * nsun * nrhos + nscalars)) : 0; }
  void dump(const char* tag) const {
    printf("DUMP %s %.17g %u %u %u %u", tag, Get_t(), nx, nsun, nrhos, nscalars);
    for (unsigned ei = 0; ei < nx; ei++) {
      for (unsigned i = 0; i < nrhos; i++)
        for (unsigned k = 0; k < nsun * nsun; k++) printf(" %.17g", state[ei].rho[i][k]);
      for (unsigned is = 0; is < nscalars; is++) printf(" %.17g", state[ei].scalar[is]);
    }
    printf("\n");
  }
};

static const int NS = 3;
alignas(64) static unsigned char slots[NS][sizeof(TestSolver) + 64];
static bool live[NS];
static TestSolver& S(int i) { return *reinterpret_cast<TestSolver*>(slots[i]); }
static int slot_of(const void* p) { for (int i = 0; i < NS; i++) if ((const void*)slots[i] == p) return i + 1; return 0; }

// state of the current right-hand-side evaluation, assembled from hook events
static struct { int o, sp, dp, eact, dact; bool open; double tder; long nrhs; bool first_at_sys; int sysid; } cur;
static long rhs_total = 0;
static bool ini_cache_clear = true;    // the last-pointer cache of set_system_pointers as ini() left it

static void flush_rhs() {
  if (!cur.open) return;
  cur.open = false;
  rhs_total++;
  bool tsame = true;
  for (auto& c : calls) if (c.t != cur.tder) tsame = false;
  if (!quiet) {
    std::ostringstream o;
    o << "{\"e\":\"Rhs\",\"o\":" << cur.o << ",\"sp\":" << cur.sp << ",\"dp\":" << cur.dp << ",\"eact\":" << cur.eact << ",\"dact\":" << cur.dact
      << ",\"tsame\":" << (tsame ? "true" : "false") << ",\"calls\":[";
    for (size_t k = 0; k < calls.size(); k++) o << (k ? "," : "") << "[\"" << calls[k].f << "\"," << calls[k].ei << "," << calls[k].i << "]";
    o << "]}";
    puts(o.str().c_str());
  }
  calls.clear();
}

static void sink(const char* tag, const void* p0, const void* p1, long a, long b) {
  int o = slot_of(p0);
  if (!strcmp(tag, "sq.bind")) { flush_rhs(); cur.open = true; cur.o = o; cur.sp = aid(p1); calls.clear();
    if (cur.nrhs == 0) cur.first_at_sys = (cur.sp == cur.sysid); cur.nrhs++; }
  else if (!strcmp(tag, "sq.bind.e")) cur.eact = aid(p1);
  else if (!strcmp(tag, "sq.bind.d")) cur.dact = aid(p1);
  else if (!strcmp(tag, "sq.bind.dp")) cur.dp = aid(p1);
  else if (!strcmp(tag, "sq.derive")) cur.tder = *(const double*)p1;
  else if (!strcmp(tag, "sq.ini")) { /* reported by the command handler */ }
  else if (!strcmp(tag, "sq.ini.cache")) { ini_cache_clear = (p1 == nullptr && a == 0); }
  else if (!strcmp(tag, "sq.evolve.start")) { cur.nrhs = 0; cur.first_at_sys = true; cur.sysid = aid(p1);
    printf("{\"e\":\"EvolveStart\",\"o\":%d,\"sys\":%d,\"num\":%ld,\"paramsok\":%s}\n", o, aid(p1), a, b ? "true" : "false"); calls.clear(); }
  else if (!strcmp(tag, "sq.evolve.driverfreed")) { flush_rhs(); }
}

static gsl_odeiv2_step_type const* stepper(const std::string& n) {
  if (n == "rk2") return gsl_odeiv2_step_rk2;
  if (n == "rk4") return gsl_odeiv2_step_rk4;
  if (n == "rkf45") return gsl_odeiv2_step_rkf45;
  if (n == "rkck") return gsl_odeiv2_step_rkck;
  if (n == "rk8pd") return gsl_odeiv2_step_rk8pd;
  if (n == "msadams") return gsl_odeiv2_step_msadams;
  return nullptr;
}

int main() {
  verif::event_sink() = sink;
  gsl_set_error_handler_off();
  std::string line;
  while (std::getline(std::cin, line)) {
    if (line.empty() || line[0] == '#') continue;
    std::istringstream in(line);
    std::string cmd; in >> cmd;
    int o = 0;
    try {
      if (cmd == "NEW" || cmd == "INI" || cmd == "NEWC") {
        unsigned nx, nsun, nrhos, nsc; long t04;
        in >> o >> nx >> nsun >> nrhos >> nsc >> t04;
        if (cmd == "NEW") { new (slots[o - 1]) TestSolver(); live[o - 1] = true; S(o - 1).slot = o;
          S(o - 1).Set_rel_error(1e-10); S(o - 1).Set_abs_error(1e-10); S(o - 1).Set_h(1e-3); }
        ini_cache_clear = false;                 // set by the hook inside ini()
        if (cmd == "NEWC") {     // the same through SQuIDS(nx,dim,nrho,nscalar,ti) instead of default construction + ini()
          new (slots[o - 1]) TestSolver(nx, nsun, nrhos, nsc, t04 / 4.0); live[o - 1] = true; S(o - 1).slot = o;
          S(o - 1).Set_rel_error(1e-10); S(o - 1).Set_abs_error(1e-10); S(o - 1).Set_h(1e-3); }
        TestSolver& s = S(o - 1);
        if (cmd != "NEWC") s.ini(nx, nsun, nrhos, nsc, t04 / 4.0);
        s.fill_initial();
        printf("{\"e\":\"Ini\",\"o\":%d,\"sys\":%d,\"eact\":%d,\"nx\":%u,\"nrhos\":%u,\"nsc\":%u,\"t4\":%ld,\"fresh\":%s,\"cacheclear\":%s}\n", o, aid(s.state_ptr()), aid(s.estate_ptr()), nx, nrhos, nsc, t04, cmd != "INI" ? "true" : "false", ini_cache_clear ? "true" : "false");
      } else if (cmd == "DESTROY") { in >> o; S(o - 1).~TestSolver(); live[o - 1] = false; printf("{\"e\":\"Destroy\",\"o\":%d}\n", o);
      } else if (cmd == "SW") { int k, b; in >> o >> k >> b; TestSolver& s = S(o - 1);
        switch (k) { case 1: s.Set_CoherentRhoTerms(b); break; case 2: s.Set_NonCoherentRhoTerms(b); break; case 3: s.Set_OtherRhoTerms(b); break;
                     case 4: s.Set_GammaScalarTerms(b); break; case 5: s.Set_OtherScalarTerms(b); break; }
        printf("{\"e\":\"Switch\",\"o\":%d,\"k\":%d,\"b\":%s}\n", o, k, b ? "true" : "false");
      } else if (cmd == "ANY") { int b; in >> o >> b; S(o - 1).Set_AnyNumerics(b); printf("{\"e\":\"SetAny\",\"o\":%d,\"b\":%s}\n", o, b ? "true" : "false");
      } else if (cmd == "STEPPER") { std::string n; int ad; unsigned ns; in >> o >> n >> ad >> ns; S(o - 1).Set_GSL_step(stepper(n)); S(o - 1).Set_AdaptiveStep(ad); S(o - 1).Set_NumSteps(ns);
      } else if (cmd == "TOL") { double r, a; in >> o >> r >> a; S(o - 1).Set_rel_error(r); S(o - 1).Set_abs_error(a);
      } else if (cmd == "STEPCTL") {   // STEPCTL o n (kind value)*n : apply the setters, print the read-back; clock and state must be untouched
        int n; in >> o >> n; TestSolver& s = S(o - 1);
        s.Set_h_max(1e6); s.Set_h_min(0); s.Set_h(1);      // the initial state of module StepCtl (no re-centring on the way)
        double t0 = s.Get_t(); uint64_t d0 = s.state_digest();
        for (int k = 0; k < n; k++) { std::string kind; double v; in >> kind >> v; if (kind == "h") s.Set_h(v); else if (kind == "hmin") s.Set_h_min(v); else s.Set_h_max(v); }
        printf("STEPCTL %.17g %.17g %.17g %d\n", s.Get_h(), s.Get_h_min(), s.Get_h_max(), (s.Get_t() == t0 && s.state_digest() == d0) ? 1 : 0);
      } else if (cmd == "CTL") {       // CTL o kind value : one step-size setter (module StepCtl with Evolve)
        std::string kind; double v; in >> o >> kind >> v; TestSolver& s = S(o - 1);
        if (kind == "h") s.Set_h(v); else if (kind == "hmin") s.Set_h_min(v); else if (kind == "hmax") s.Set_h_max(v); else throw std::runtime_error("bad kind");
      } else if (cmd == "EVOLVEX") {   // EVOLVEX o dt : Evolve over a (dyadic) fraction of a tick; reports whether GSL refused
        double dt; in >> o >> dt; TestSolver& s = S(o - 1);
        bool threw = false;
        try { s.Evolve(dt); } catch (std::exception& e) { threw = true; }
        flush_rhs(); calls.clear();
        printf("EVOLVEX %d\n", threw ? 1 : 0);
      } else if (cmd == "GETCTL") { in >> o; TestSolver& s = S(o - 1);
        printf("GETCTL %.17g %.17g %.17g %.17g\n", s.Get_h(), s.Get_h_min(), s.Get_h_max(), s.Get_t());
      } else if (cmd == "CFG") {       // CFG o field code : one configuration setter of module SolverCfg (codes -> concrete values here)
        std::string f; int c; in >> o >> f >> c; TestSolver& s = S(o - 1);
        auto pick = [&](double d0, double v1, double v2, double v9) { return c == 0 ? d0 : c == 1 ? v1 : c == 2 ? v2 : v9; };
        if (f == "h") s.Set_h(pick(1e-3, std::ldexp(1.0, -4), std::ldexp(1.0, -6), std::ldexp(1.0, -8)));
        else if (f == "hmin") { if (c) s.Set_h_min(pick(0, std::ldexp(1.0, -30), std::ldexp(1.0, -40), std::ldexp(1.0, -50))); }
        else if (f == "hmax") { if (c) s.Set_h_max(pick(0, 8, 16, 32)); }
        else if (f == "rel") s.Set_rel_error(pick(1e-10, 1e-8, 1e-9, 1e-7));
        else if (f == "abs") s.Set_abs_error(pick(1e-10, 1e-8, 1e-9, 1e-7));
        else if (f == "nsteps") s.Set_NumSteps((unsigned)pick(1000, 64, 80, 96));
        else if (f == "adaptive") s.Set_AdaptiveStep(c != 0);
        else if (f == "stepper") s.Set_GSL_step(c == 0 ? gsl_odeiv2_step_rkf45 : c == 1 ? gsl_odeiv2_step_rk4 : c == 2 ? gsl_odeiv2_step_rk8pd : gsl_odeiv2_step_rkck);
        else if (f == "sw1") s.Set_CoherentRhoTerms(c != 0);
        else if (f == "sw2") s.Set_NonCoherentRhoTerms(c != 0);
        else if (f == "sw3") s.Set_OtherRhoTerms(c != 0);
        else if (f == "sw4") s.Set_GammaScalarTerms(c != 0);
        else if (f == "sw5") s.Set_OtherScalarTerms(c != 0);
        else if (f == "any") s.Set_AnyNumerics(c != 0);
        else if (f == "mix") s.set_mix(pick(0, 0.3, 0.5, 0.7));
        else if (f == "grid") { if (c == 1) s.Set_xrange(1, 2, "lin"); else if (c == 2) s.Set_xrange(1, 4, "log"); else if (c == 9) s.Set_xrange(3, 7, "lin"); }
        else throw std::runtime_error("bad field");
      } else if (cmd == "GETCFG") { in >> o; TestSolver& s = S(o - 1);
        printf("GETCFG %.17g %.17g %.17g %.17g %.17g %.17g %u %u %u %.17g %.17g %.17g", s.Get_h(), s.Get_h_min(), s.Get_h_max(), s.Get_rel_error(), s.Get_abs_error(),
               (double)s.Get_NumSteps(), s.Get_nx(), s.Get_nrhos(), s.Get_nscalars(), s.Get_t(), s.Get_t_initial(), s.GetParams().GetMixingAngle(0, 1));
        for (double xv : s.Get_xrange()) printf(" %.17g", xv);
        printf("\n");
      } else if (cmd == "EVOLVEN") {   // EVOLVEN o dt4 : Evolve, report refusal and the number of right-hand sides
        long dt4; in >> o >> dt4; TestSolver& s = S(o - 1);
        calls.clear(); cur.open = false; cur.nrhs = 0; cur.first_at_sys = true;
        bool threw = false;
        try { s.Evolve(dt4 / 4.0); } catch (std::exception& e) { threw = true; }
        flush_rhs(); calls.clear();
        printf("EVOLVEN %d %ld %.17g\n", threw ? 1 : 0, cur.nrhs, s.Get_t());
      } else if (cmd == "QUERY") { in >> o; double q = S(o - 1).query_all(); printf("QUERY %.17g\n", q);
      } else if (cmd == "MARK") { puts("MARK");
      } else if (cmd == "TDEP") { int b; in >> o >> b; S(o - 1).tdep = b;
      } else if (cmd == "HMIN") { double x; in >> o >> x; S(o - 1).Set_h_min(x);
      } else if (cmd == "SCALE") { int e2; in >> o >> e2; S(o - 1).scale_state(std::ldexp(1.0, e2));
      } else if (cmd == "QUIET") { int q; in >> q; quiet = q;
      } else if (cmd == "EVOLVE") {
        long dt4; in >> o >> dt4; TestSolver& s = S(o - 1);
        uint64_t d0 = s.state_digest();
        calls.clear(); cur.open = false; cur.nrhs = 0; cur.first_at_sys = true;
        bool threw = false; std::string what;
        try { s.Evolve(dt4 / 4.0); } catch (std::exception& e) { threw = true; what = e.what(); }
        flush_rhs();
        // callbacks made outside any right-hand side (the no-numerics path calls PreDerive directly)
        std::ostringstream pc; pc << "[";
        for (size_t k = 0; k < calls.size(); k++) pc << (k ? "," : "") << "[\"" << calls[k].f << "\"," << calls[k].ei << "," << calls[k].i << "]";
        pc << "]";
        bool prett = true; for (auto& c : calls) if (c.t != s.Get_t()) prett = false;
        calls.clear();
        double t4 = s.Get_t() * 4; long t4r = (long)std::floor(t4 + 0.5);
        printf("{\"e\":\"EvolveEnd\",\"o\":%d,\"dt4\":%ld,\"eact\":%d,\"sys\":%d,\"t4\":%ld,\"t4exact\":%s,\"t4dev\":%.3g,\"same\":%s,\"threw\":%s,\"nrhs\":%ld,\"contract\":%s,\"direct\":%s,\"directt\":%s}\n",
               o, dt4, aid(s.estate_ptr()), aid(s.state_ptr()), t4r, (std::fabs(t4 - t4r) <= 1e-9) ? "true" : "false", std::fabs(t4 - t4r), (s.state_digest() == d0) ? "true" : "false",
               threw ? "true" : "false", cur.nrhs, cur.first_at_sys ? "true" : "false", pc.str().c_str(), prett ? "true" : "false");
      } else if (cmd == "MOVECTOR") { int src; in >> o >> src; new (slots[o - 1]) TestSolver(std::move(S(src - 1))); live[o - 1] = true; S(o - 1).slot = o;
        printf("{\"e\":\"Move\",\"dst\":%d,\"src\":%d,\"ctor\":true,\"sys\":%d,\"eact\":%d}\n", o, src, aid(S(o - 1).state_ptr()), aid(S(o - 1).estate_ptr()));
      } else if (cmd == "MOVEASSIGN") { int src; in >> o >> src; S(o - 1) = std::move(S(src - 1));
        printf("{\"e\":\"Move\",\"dst\":%d,\"src\":%d,\"ctor\":false,\"sys\":%d,\"eact\":%d}\n", o, src, aid(S(o - 1).state_ptr()), aid(S(o - 1).estate_ptr()));
      } else if (cmd == "DUMP") { std::string tag; in >> o >> tag; S(o - 1).dump(tag.c_str());
      } else { fprintf(stderr, "unknown command %s\n", cmd.c_str()); return 3; }
    } catch (std::exception& e) {
      printf("{\"e\":\"Exception\",\"cmd\":\"%s\",\"o\":%d}\n", cmd.c_str(), o);
    }
    fflush(stdout);
  }
  for (int i = 0; i < NS; i++) if (live[i]) S(i).~TestSolver();
  puts("{\"e\":\"End\"}");
  fflush(stdout);
  return 0;
}
