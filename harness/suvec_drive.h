#ifndef VERIF_SUVEC_DRIVE_H
#define VERIF_SUVEC_DRIVE_H
#include <stdexcept>
#include <string>
namespace squids { class SU_vector; }
struct DriverError : public std::logic_error { explicit DriverError(const std::string& s) : std::logic_error(s) {} };
enum { W_ASSIGN = 0, W_INC = 1, W_DEC = 2, W_CTOR = 3 };
#define OP_ADD 0
#define OP_SUB 1
#define OP_NEG 2
#define OP_SMUL 3
#define OP_ICOMM 4
#define OP_ACOMM 5
#define OP_EVOLVE 6
#define OP_FASTEVOLVE 7
#define OP_ELEMENTWISE 8
#define DECL_EXPR(name) void name(int w, void* tslot, squids::SU_vector& A, squids::SU_vector& B, bool arv, bool brv, double k, const double* fastbuf, int flags)
DECL_EXPR(expr_add); DECL_EXPR(expr_sub); DECL_EXPR(expr_neg); DECL_EXPR(expr_smul); DECL_EXPR(expr_icomm);
DECL_EXPR(expr_acomm); DECL_EXPR(expr_evolve); DECL_EXPR(expr_fastevolve); DECL_EXPR(expr_elementwise);
#endif
