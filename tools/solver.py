"""Shared driver for the Solver-based checks (C10, C04): scripts for harness/solver_drive, trace validation by
spec/SolverTrace.tla, exact-flow comparison with spec/SolverFlow.tla."""
import sys, json, os, random, subprocess
import vlib
from vlib import Infra

MODES = [("rk2", 1), ("rk4", 1), ("rkf45", 1), ("rkck", 1), ("rk8pd", 1), ("msadams", 1),
         ("rk2", 0), ("rk4", 0), ("rkf45", 0), ("rkck", 0), ("rk8pd", 0)]


def build(flavor="plain"):
    return vlib.build_harness("solver_drive", flavor)


def mode_cmds(o, mode, loose=False, ticks=1):
    name, adaptive = mode
    # fixed-step runs still go through GSL's error control: enough steps per unit of time that the step error stays below the tolerance
    cmds = ["STEPPER %d %s %d %d" % (o, name, adaptive, (4000 if name in ("rk2",) else 400) * max(1, ticks))]
    if loose:
        cmds.append("TOL %d 1e-5 1e-5" % o)
    else:
        cmds.append("TOL %d %s %s" % (o, "1e-8" if name == "rk2" else "1e-10", "1e-8" if name == "rk2" else "1e-10"))
    return cmds


def random_history(rng, nev=10):
    """one protocol history on up to 3 object slots: returns script lines.  Several objects may be initialised at the same
    time: the source of a move stays alive, may be re-initialised and used again next to the object that took its state."""
    cmds = []
    shape = lambda: (rng.choice([1, 2, 3]), rng.choice([2, 3, 4]), rng.choice([1, 2]), rng.choice([0, 1, 2]))
    live = {1: True}
    inited = [1]
    cmds.append("NEW 1 %d %d %d %d %d" % (shape() + (rng.choice([0, -10, 4000]),)))
    cmds += mode_cmds(1, rng.choice(MODES), loose=True)
    for k in range(1, 6):
        if rng.random() < 0.5:
            cmds.append("SW 1 %d 1" % k)
    for _ in range(nev):
        r = rng.random()
        idle = [o for o in live if o not in inited]
        if idle and (not inited or rng.random() < 0.35):
            o = rng.choice(idle)                       # a moved-from object is given a new problem
            cmds.append("INI %d %d %d %d %d %d" % ((o,) + shape() + (rng.choice([0, 8]),)))
            cmds += mode_cmds(o, rng.choice(MODES), loose=True)
            inited.append(o)
            continue
        cur = rng.choice(inited)
        if r < 0.45:
            cmds.append("EVOLVE %d %d" % (cur, rng.choice([0, 1, 2, 4])))
        elif r < 0.65:
            cmds.append("SW %d %d %d" % (cur, rng.randrange(1, 6), rng.randrange(2)))
        elif r < 0.70:
            cmds.append("ANY %d %d" % (cur, rng.randrange(2)))
        elif r < 0.78:
            cmds += mode_cmds(cur, rng.choice(MODES), loose=True)
        elif r < 0.90:
            dst = rng.choice([x for x in (1, 2, 3) if x != cur])
            if live.get(dst):
                cmds.append("MOVEASSIGN %d %d" % (dst, cur))
            else:
                cmds.append("MOVECTOR %d %d" % (dst, cur)); live[dst] = True
            inited.remove(cur)
            if dst not in inited:
                inited.append(dst)
        else:
            cmds.append("INI %d %d %d %d %d %d" % ((cur,) + shape() + (rng.choice([0, 8]),)))
    for o in sorted(live):
        cmds.append("DESTROY %d" % o)
    return cmds


def run_script(exe, cmds, timeout=600):
    try:
        p = vlib.sh([exe], stdin="\n".join(cmds) + "\n", timeout=timeout)
    except vlib.Infra as ex:
        if "timeout" in str(ex):
            return "timeout", [], str(ex)
        raise
    lines = p.stdout.splitlines()
    return p.returncode, lines, p.stderr


def died(rc):
    """the driver was killed by a signal (the library crashed) or did not return: never seen on a sound tree"""
    return rc == "timeout" or (isinstance(rc, int) and rc < 0)


def crash_violation(v, what, rc, cmds, err):
    last = [c for c in cmds if not c.startswith(("QUIET", "DUMP"))][-12:]
    v.violation("%s/%s" % (what, "no-return" if rc == "timeout" else "crash"),
                "the solver driver %s while executing a history of the specification's alphabet; last commands: %s %s" % (
                    "did not return" if rc == "timeout" else "died with signal %s" % (-rc), last, err[-300:]), {"script": cmds[-400:]})


def trace_cfg(name):
    p = os.path.join(vlib.cfgdir(), name + ".cfg")
    with open(p, "w") as f:
        f.write("SPECIFICATION TSpec\nCONSTANTS\n  Objs = {1,2,3}\n  Addrs = {%s}\n  MaxSteps = 0\n  FirstAtSys = TRUE\n"
                "INVARIANTS BindOK AfterEvolve SysUnique\nPOSTCONDITION Accepted\nCHECK_DEADLOCK FALSE\n" % ",".join(str(i) for i in range(0, 600)))
    return p


def validate_trace(lines, tag, timeout=900):
    """lines: ndjson event lines of one execution. returns (ok, matched, first unmatched event or None, tlc result)"""
    path = os.path.join(vlib.BUILD, "soltrace_%s_%d.ndjson" % (tag, os.getpid()))
    with open(path, "w") as f:
        f.write("\n".join(lines) + "\n")
    r = vlib.tlc("SolverTrace", trace_cfg("SolverTrace_" + tag), workers=1, timeout=timeout, env={"TRACE": path}, coverage=False, xmx="4g")
    os.remove(path)
    if "Postcondition Accepted" in r.out and "is false" in r.out:
        k = max(0, r.depth - 1)
        return False, k, (json.loads(lines[k]) if k < len(lines) else None), r
    if r.violated or r.error:
        k = max(0, r.depth - 1)
        return False, k, (json.loads(lines[k]) if k < len(lines) else None), r
    return True, len(lines), None, r


# ----------------------------------------------------------------------------------------------
# exact flow (SolverFlow.tla)
# ----------------------------------------------------------------------------------------------
import math

SQ12 = math.sqrt(0.5)


def sc_re(x):   # exact scalar <<a,b,c,d,n>> -> (re, im)
    a, b, c, d, n = x
    return ((a + (b - d) * SQ12) / n, (c + (b + d) * SQ12) / n)


def comps_from_flat(flat, d):
    """components of the Hermitian matrix given row-major as exact scalars (same formula as harness/exact.h)"""
    M = [[sc_re(flat[r * d + c]) for c in range(d)] for r in range(d)]
    comp = [0.0] * (d * d)
    comp[0] = sum(M[i][i][0] for i in range(d)) / d
    for i in range(d):
        for j in range(i + 1, d):
            comp[d * i + j] = M[i][j][0]
            comp[d * j + i] = -M[i][j][1]
    for l in range(1, d):
        s = sum(M[m][m][0] for m in range(l)) - l * M[l][l][0]
        comp[d * l + l] = 0.5 * math.sqrt(2.0 / (l * (l + 1.0))) * s
    return comp


def expected_vector(e):
    """expected flat state (doubles) of an exported SolverFlow edge, in the order of DUMP"""
    nx, nsun, nrhos, nsc = e["cfg"]
    out = []
    for ei in range(nx):
        for i in range(nrhos):
            ca = comps_from_flat(e["rhoA"][ei][i], nsun)
            cb = comps_from_flat(e["rhoB"][ei][i], nsun)
            out += [a + math.log(2.0) * b for a, b in zip(ca, cb)]
        for k in range(nsc):
            a = sc_re(e["scA"][ei][k])[0]; b = sc_re(e["scB"][ei][k])[0]
            out.append(a + math.log(2.0) * b)
    return out


def flow_cfg(name, ncfg, maxseg, ticks, first, later, tdep=(0, 1)):
    p = os.path.join(vlib.cfgdir(), name + ".cfg")
    with open(p, "w") as f:
        f.write("SPECIFICATION Spec\nCONSTANTS\n  NCfg = %d\n  MaxSeg = %d\n  Ticks = {%s}\n  FirstSw = {%s}\n  LaterSw = {%s}\n  TDep = {%s}\n"
                "INVARIANTS Semigroup SemigroupT ZeroIsIdentity Hermitian AllOffFrame\nACTION_CONSTRAINT Emit\nCHECK_DEADLOCK FALSE\n" % (
                    ncfg, maxseg, ",".join(map(str, ticks)), ",".join(map(str, first)), ",".join(map(str, later)), ",".join(map(str, tdep))))
    return p


def flow_script(hist, cfg, mode, t04, move_kind, order_seed=0, scale_e2=0, coarse=0):
    """script executing a history of segments (sw, n) on slot 1 (moving to slot 2 between segments if asked).
    The five switches reach their values through a seeded order of setter calls, with decoy calls first (the final
    setting must not depend on the order in which the setters were called); scale_e2 != 0 multiplies the initial
    state by 2^scale_e2 and asks for a purely relative tolerance (only for switch sets without source terms)."""
    import random as _r
    rng = _r.Random(order_seed)
    nx, nsun, nrhos, nsc = cfg
    # every second history builds its object through the sizing constructor SQuIDS(nx,dim,nrho,nscalar,ti) instead of ini()
    cmds = ["QUIET 1", "%s 1 %d %d %d %d %d" % ("NEWC" if order_seed % 2 else "NEW", nx, nsun, nrhos, nsc, t04)] + mode_cmds(1, mode, ticks=max([1] + [h[1] * (3 if h[2] else 1) for h in hist]))
    if coarse:
        # deliberately too few fixed steps for the tolerance: GSL's error control must refuse (Evolve throws) - if Evolve
        # returns normally instead, the clock and the state are judged like any other run
        cmds.append("STEPPER 1 %s 0 %d" % (mode[0], coarse))
    if hist and hist[0][2]:
        cmds.append("TDEP 1 1")
    if scale_e2:
        cmds += ["SCALE 1 %d" % scale_e2, "TOL 1 %s 1e-300" % ("1e-8" if mode[0] == "rk2" else "1e-10")]
    cur = 1
    prev = None
    for si, (sw, n, _td) in enumerate(hist):
        if si > 0 and move_kind:
            if move_kind == 1:
                cmds.append("MOVECTOR 2 1")
            else:
                cmds += ["NEW 2 1 2 1 0 0", "MOVEASSIGN 2 1"]
            cur = 2
            move_kind = 0
        bits = [(k, (sw >> (k - 1)) & 1) for k in range(1, 6)]
        if prev is None:
            decoy = list(bits); rng.shuffle(decoy)
            for k, b in decoy[:rng.randrange(0, 6)]:
                cmds.append("SW %d %d %d" % (cur, k, 1 - b))           # decoy: the opposite value first
            order = list(bits); rng.shuffle(order)
            for k, b in order:
                cmds.append("SW %d %d %d" % (cur, k, b))
        else:
            changed = [(k, b) for k, b in bits if b != ((prev >> (k - 1)) & 1)]
            rng.shuffle(changed)
            for k, b in changed:
                cmds.append("SW %d %d %d" % (cur, k, b))
        # re-assert one switch that is already at its value (a setter call that changes nothing must change nothing)
        k, b = bits[rng.randrange(5)]
        cmds.append("SW %d %d %d" % (cur, k, b))
        prev = sw
        cmds.append("EVOLVE %d %d" % (cur, 4 * n))
        cmds.append("DUMP %d seg%d" % (cur, si))
    cmds.append("DESTROY %d" % cur)
    if cur == 2:
        cmds.append("DESTROY 1")
    return cmds


def parse_dumps(lines):
    out = []
    for l in lines:
        if l.startswith("DUMP "):
            p = l.split()
            out.append((p[1], float(p[2]), [float(x) for x in p[7:]]))
    return out


def flow_replay(exe, cases, jobs=14, timeout=900):
    """cases: list of dict(edge=final edge of the history, edges=[edge after each segment], mode, t04, move).
    Runs every history on the real solver; returns list of (case index, seg index, max abs err, scale, t_err) and failures."""
    import concurrent.futures
    chunks = [[] for _ in range(jobs)]
    for i, c in enumerate(cases):
        chunks[i % jobs].append((i, c))

    def work(chunk):
        cmds = []
        for i, c in chunk:
            sc = flow_script(c["edges"][-1]["hist"], c["edges"][-1]["cfg"], c["mode"], c["t04"], c["move"], order_seed=c.get("order", i), scale_e2=c.get("scale", 0), coarse=c.get("coarse", 0))
            sc = [x.replace("DUMP 1 seg", "DUMP 1 c%d_" % i).replace("DUMP 2 seg", "DUMP 2 c%d_" % i) for x in sc]
            cmds += sc
        rc, lines, err = run_script(exe, cmds, timeout=timeout)
        return rc, lines, err
    res = []
    fails = []
    with concurrent.futures.ThreadPoolExecutor(max_workers=jobs) as ex:
        for (rc, lines, err), chunk in zip(ex.map(work, [c for c in chunks if c]), [c for c in chunks if c]):
            if died(rc):
                fails.append("CRASH: solver_drive rc=%s while replaying flow histories %s: %s" % (rc, [i for i, _ in chunk][:40], err[-600:]))
                continue
            if rc != 0:
                fails.append("solver_drive rc=%s: %s" % (rc, err[-1000:]))
                continue
            dumps = {tag: (t, vals) for tag, t, vals in parse_dumps(lines)}
            exc = [l for l in lines if '"e":"Exception"' in l]
            if exc:
                fails.append("a driver command raised an exception: %s" % exc[:2])
                continue
            threw = {}
            last = False
            for l in lines:
                if l.startswith('{"e":"EvolveEnd"'):
                    last = '"threw":true' in l
                elif l.startswith("DUMP "):
                    threw[l.split()[1]] = last
                    last = False
            for i, c in chunk:
                tt = c["t04"] / 4.0
                for si, e in enumerate(c["edges"]):
                    tag = "c%d_%d" % (i, si)
                    tt += e["hist"][si][1]
                    if tag not in dumps:
                        res.append((i, si, float("inf"), 1.0, float("inf")))
                        continue
                    t, vals = dumps[tag]
                    if threw.get(tag) and c.get("coarse"):
                        res.append((i, si, None, 1.0, None))       # refused, as it should be: nothing to judge
                        break
                    if threw.get(tag) and not c["mode"][1]:
                        # GSL refused a fixed step for error control: a matter of the run's configuration, not of SQuIDS
                        fails.append("GSL reported a step failure in fixed-step mode %s for hist=%s" % (c["mode"], e["hist"]))
                        break
                    exp = expected_vector(e)
                    if c.get("scale"):
                        exp = [x * 2.0 ** c["scale"] for x in exp]
                    if len(vals) != len(exp):
                        res.append((i, si, float("inf"), 1.0, abs(t - tt)))
                        continue
                    scale = max([1.0 if not c.get("scale") else 2.0 ** c["scale"]] + [abs(x) for x in exp])
                    err_ = max([abs(a - b) for a, b in zip(vals, exp)] or [0.0])
                    if any(x != x for x in vals):
                        err_ = float("inf")
                    res.append((i, si, err_, scale, abs(t - tt)))
    return res, fails


def stepctl_replay(exe, edges, one, cfgs, modes, jobs=14, timeout=900):
    """Replay histories of module StepCtl that contain Evolve actions (values in units of 2^-10 of a tick).
    one: {(cfg, (sw, n, td)): SolverFlow edge} for the exact state after n whole ticks with all terms on.
    Returns (results, fails): results = list of (edge index, verdict dict)."""
    import concurrent.futures
    U = 2.0 ** -10
    chunks = [[] for _ in range(jobs)]
    for i, e in enumerate(edges):
        chunks[i % jobs].append((i, e))

    def script(i, e):
        cfg = cfgs[i % len(cfgs)]; mode = modes[(i // len(cfgs)) % len(modes)]
        c = ["NEW 2 %d %d %d %d 0" % tuple(cfg)] + mode_cmds(2, mode, ticks=1) + ["SW 2 %d 1" % k for k in range(1, 6)]
        c += ["CTL 2 hmax %r" % (1e6 * U), "CTL 2 hmin 0", "CTL 2 h %r" % U]
        for kind, x in e["hist"]:
            c.append(("EVOLVEX 2 %r" % (x * U)) if kind == "ev" else ("CTL 2 %s %r" % (kind, x * U)))
        c += ["GETCTL 2", "DUMP 2 s%d" % i, "DESTROY 2"]
        return c, cfg, mode

    def work(chunk):
        cmds = ["QUIET 1"]
        meta = []
        for i, e in chunk:
            c, cfg, mode = script(i, e)
            cmds += c; meta.append((i, e, cfg, mode))
        rc, lines, err = run_script(exe, cmds, timeout=timeout)
        return rc, lines, err, meta
    results = []; fails = []
    with concurrent.futures.ThreadPoolExecutor(max_workers=jobs) as ex:
        for rc, lines, err, meta in ex.map(work, [c for c in chunks if c]):
            if died(rc):
                fails.append("CRASH: solver_drive rc=%s while replaying step-control histories: %s" % (rc, err[-600:]))
                continue
            if rc != 0 or any('"e":"Exception"' in l for l in lines):
                fails.append("solver_drive rc=%s %s %s" % (rc, [l for l in lines if "Exception" in l][:1], err[-400:]))
                continue
            dumps = {tag: (t, vals) for tag, t, vals in parse_dumps(lines)}
            seq = [l for l in lines if l.startswith("EVOLVEX ") or l.startswith("GETCTL ")]
            pos = 0
            for i, e, cfg, mode in meta:
                nev = sum(1 for k, _ in e["hist"] if k == "ev")
                part = seq[pos:pos + nev + 1]; pos += nev + 1
                if len(part) != nev + 1 or not part[-1].startswith("GETCTL"):
                    fails.append("step-control replay out of step at history %d" % i); break
                refused = any(l.split()[1] == "1" for l in part[:-1])
                g = [float(x) for x in part[-1].split()[1:]]
                r = dict(refused=refused, mode=mode, cfg=cfg, ctl_ok=None, clock_ok=None, err=None, scale=None)
                r["got_ctl"] = [g[0] / U, g[1] / U, g[2] / U]
                r["ctl_ok"] = (g[0] * 2 / U == e["h2"] and g[1] * 2 / U == e["hmin2"] and g[2] * 2 / U == e["hmax2"])
                if not refused:
                    r["clock_ok"] = (abs(g[3] - e["el"] * U) <= 1e-9); r["t"] = g[3]     # "up to rounding": fixed-step runs add the steps up
                    if e["el"] % 1024 == 0 and e["el"] > 0:
                        ref = one[(tuple(cfg), (31, e["el"] // 1024, 0))]
                        exp = expected_vector(ref)
                        t, vals = dumps["s%d" % i]
                        r["scale"] = max([1.0] + [abs(x) for x in exp])
                        r["err"] = max([abs(a - b) for a, b in zip(vals, exp)]) if len(vals) == len(exp) and not any(x != x for x in vals) else float("inf")
                results.append((i, r))
    return results, fails


EXAMPLES = {"RabiOscilations": ["rabi.cpp", "main.cpp"], "VacuumNeutrinoOscillations": ["vacuum.cpp", "main.cpp"],
            "CollectiveNeutrinoOscillations": ["collective.cpp", "main.cpp"]}


def example_traces(v, names, maxev, tlimit=240):
    """The programs under examples/ rebuilt with the hooks (sources untouched) as trace sources: the first maxev
    solver-protocol events of each run are validated against Solver by SolverHookTrace."""
    import tempfile, json as _j
    ntr = nev = 0
    for name in names:
        d = os.path.join(vlib.REPO, "examples", name)
        if not os.path.isdir(d):
            raise vlib.Infra("example %s is missing from the tree" % name)
        srcs = [os.path.join(d, f) for f in EXAMPLES[name]] + ["example_sink.cpp"]
        exe = vlib.build_harness("example_" + name, "plain", sources=srcs, extra_flags=["-I" + d])
        work = tempfile.mkdtemp(prefix="ex_", dir=vlib.BUILD)
        trace = os.path.join(work, "trace.ndjson")
        try:
            try:
                p = vlib.sh([exe], cwd=work, stdin="no\n", timeout=tlimit, env={"SQUIDS_VERIF_TRACE": trace, "SQUIDS_VERIF_MAXEV": str(maxev)})
                rc = p.returncode
            except vlib.Infra:
                rc = "timeout"
            lines = [l for l in open(trace).read().splitlines() if l.startswith("{")] if os.path.exists(trace) else []
            if isinstance(rc, int) and rc < 0:
                v.violation("examples/%s/crash" % name, "examples/%s died with signal %s after %d protocol events" % (name, -rc, len(lines)), None)
                continue
            if rc == "timeout" or not lines or not lines[-1].startswith('{"e":"End"'):
                # not finished within the limit: validate the complete prefix written so far (flushed at every Evolve end)
                while lines and '"e":"EvolveEnd"' not in lines[-1]:
                    lines.pop()
                lines.append('{"e":"End"}')
            if len(lines) < 3:
                raise vlib.Infra("examples/%s produced no protocol events (rc=%s)" % (name, rc))
            if any('"contract":false' in l for l in lines):
                raise vlib.Infra("environment outside assumption in examples/%s: GSL evaluated the first right-hand side of a run away from the caller's array" % name)
            with open(trace, "w") as f:
                f.write("\n".join(lines) + "\n")
            cfg = os.path.join(vlib.cfgdir(), "SolverHookTrace_run.cfg")
            with open(cfg, "w") as f:
                f.write("SPECIFICATION TSpec\nCONSTANTS\n  Objs = {1,2,3,4,5,6,7,8}\n  Addrs = {%s}\n  MaxSteps = 0\n  FirstAtSys = TRUE\n"
                        "INVARIANTS BindOK AfterEvolve SysUnique\nPOSTCONDITION Accepted\nCHECK_DEADLOCK FALSE\n" % ",".join(str(i) for i in range(0, 600)))
            r = vlib.tlc("SolverHookTrace", cfg, workers=1, timeout=900, env={"TRACE": trace}, coverage=False, xmx="4g")
            ok = not (("Postcondition Accepted" in r.out and "is false" in r.out) or r.violated or r.error)
            if ok:
                ntr += 1; nev += len(lines)
            else:
                k = max(0, r.depth - (2 if r.violated else 1))
                e = _j.loads(lines[k]) if k < len(lines) else {}
                v.violation("examples/%s/%s" % (name, e.get("e", "?")), "examples/%s: protocol event %d of %d not explained by Solver: %s (%s)" % (
                    name, k, len(lines), lines[k][:300] if k < len(lines) else "?", r.violated or r.error or "no matching step"), {"example": name, "event": e, "context": lines[max(0, k - 4):k + 1]})
            v.cov.setdefault("example_programs_as_trace_sources", {})[name] = {"events_validated": len(lines), "accepted": ok,
                                                                                "rhs_events": sum(1 for l in lines if '"e":"Rhs"' in l), "evolve_calls": sum(1 for l in lines if '"e":"EvolveEnd"' in l)}
        finally:
            import shutil
            shutil.rmtree(work, ignore_errors=True)
    return ntr, nev


CFG_FIELDS = ["h", "hmin", "hmax", "rel", "abs", "nsteps", "adaptive", "stepper", "sw1", "sw2", "sw3", "sw4", "sw5", "any", "mix", "grid"]     # "any" after the switches: their setters recompute it


def cfg_replay(exe, edges, jobs=14, timeout=900):
    """Replay histories of module SolverCfg: the object holding the lineage is compared, getter by getter and by a fixed
    Evolve, with a twin configured from the specification's record by plain setters and never moved.
    Returns (list of (edge index, what, detail), fails)."""
    import concurrent.futures
    chunks = [[] for _ in range(jobs)]
    for i, e in enumerate(edges):
        chunks[i % jobs].append((i, e))

    def script(i, e):
        c = ["NEW 1 2 2 1 1 2"]
        alive = {1}
        if e["decoy"]:
            c += ["NEW 2 2 2 1 1 8", "SW 2 1 1", "EVOLVEN 2 4"]
            for f in CFG_FIELDS:
                c.append("CFG 2 %s %d" % (f, 0 if f in ("adaptive", "sw2", "sw3", "sw4", "sw5") else 1 if f in ("sw1", "any") else 9))
            alive.add(2)
        cur = 1
        for kind, f, val in e["hist"]:
            if kind == "set":
                c.append("CFG %d %s %d" % (cur, f, val))
            else:
                c.append("%s %d %d" % ("MOVECTOR" if kind == "movector" else "MOVEASSIGN", 3 - cur, cur))
                cur = 3 - cur; alive.add(cur)
        c += ["GETCFG %d" % cur, "NEW 3 2 2 1 1 2"]
        for f in CFG_FIELDS:
            c.append("CFG 3 %s %d" % (f, e["cfg"][f]))
        c += ["GETCFG 3", "EVOLVEN %d 4" % cur, "EVOLVEN 3 4", "DUMP %d L%d" % (cur, i), "DUMP 3 T%d" % i]
        c += ["DESTROY %d" % o for o in sorted(alive | {3})]
        return c

    def work(chunk):
        cmds = ["QUIET 1"]
        for i, e in chunk:
            cmds += script(i, e)
        rc, lines, err = run_script(exe, cmds, timeout=timeout)
        return rc, lines, err, chunk
    out = []; fails = []
    with concurrent.futures.ThreadPoolExecutor(max_workers=jobs) as ex:
        for rc, lines, err, chunk in ex.map(work, [c for c in chunks if c]):
            if died(rc):
                fails.append("CRASH: solver_drive rc=%s while replaying configuration histories: %s" % (rc, err[-500:]))
                continue
            if rc != 0 or any('"e":"Exception"' in l for l in lines):
                fails.append("solver_drive rc=%s %s %s" % (rc, [l for l in lines if "Exception" in l][:1], err[-300:]))
                continue
            dumps = {tag: (t, vals) for tag, t, vals in parse_dumps(lines)}
            seq = [l.split() for l in lines if l.startswith("GETCFG ") or l.startswith("EVOLVEN ")]
            pos = 0
            for i, e in chunk:
                if e["decoy"]:
                    pos += 1                      # the decoy's own Evolve
                if pos + 4 > len(seq) or seq[pos][0] != "GETCFG" or seq[pos + 1][0] != "GETCFG" or seq[pos + 2][0] != "EVOLVEN" or seq[pos + 3][0] != "EVOLVEN":
                    fails.append("configuration replay out of step at history %d" % i); break
                gl, gt, el, et = seq[pos][1:], seq[pos + 1][1:], seq[pos + 2][1:], seq[pos + 3][1:]
                pos += 4
                names = ["Get_h", "Get_h_min", "Get_h_max", "Get_rel_error", "Get_abs_error", "Get_NumSteps", "Get_nx", "Get_nrhos", "Get_nscalars", "Get_t", "Get_t_initial", "mixing angle"]
                for k, (a, b) in enumerate(zip(gl, gt)):
                    if a != b:
                        out.append((i, "getter/" + (names[k] if k < len(names) else "Get_xrange"), "%s: moved/configured object %s, twin built from the record %s" % (names[k] if k < len(names) else "x[%d]" % (k - len(names)), a, b)))
                        break
                else:
                    if len(gl) != len(gt):
                        out.append((i, "getter/Get_xrange", "grid sizes %d vs %d" % (len(gl), len(gt))))
                if el[0] != et[0] or el[1] != et[1]:
                    out.append((i, "evolve/right-hand-sides", "a fixed Evolve made %s right-hand sides (refused=%s) on the object, %s (refused=%s) on the twin: a field without a getter (stepper, adaptive flag, switches) differs" % (el[1], el[0], et[1], et[0])))
                elif el[2] != et[2]:
                    out.append((i, "evolve/clock", "Get_t after Evolve %s vs twin %s" % (el[2], et[2])))
                else:
                    (t1, v1), (t2, v2) = dumps.get("L%d" % i, (None, [])), dumps.get("T%d" % i, (None, []))
                    sc = max([1.0] + [abs(x) for x in v2])
                    if len(v1) != len(v2) or any(not (abs(a - b) <= 1e-12 * sc) for a, b in zip(v1, v2)):
                        out.append((i, "evolve/state", "state after a fixed Evolve differs from the twin's by %.3g" % max([abs(a - b) for a, b in zip(v1, v2)] or [float("inf")])))
    return out, fails


def seq_replay(exe, edges, jobs=14, timeout=600):
    """Replay behaviours of module SolverSeq (those that end with an Evolve).  Returns (violations, nscripts, nevolves):
    violations = list of (key, text, hist)."""
    import concurrent.futures, json as _j
    hs = [e for e in edges if e["hist"] and e["hist"][-1][0] == "evolve"]
    SH = {1: "1 2 1 0", 2: "3 3 2 1"}

    def script(e):
        c = ["NEW 1 %s 0" % SH[1], "STEPPER 1 rkf45 1 400", "TOL 1 1e-5 1e-5"]
        alive = {1}
        for kind, a, b in e["hist"]:
            if kind == "new":
                c += ["NEW %d %s 0" % (a, SH[1]), "STEPPER %d rkf45 1 400" % a, "TOL %d 1e-5 1e-5" % a]; alive.add(a)
            elif kind == "ini":
                c.append("INI %d %s 8" % (a, SH[b]))
            elif kind == "any":
                c.append("ANY %d %d" % (a, b))
            elif kind == "evolve":
                c.append("EVOLVE %d 4" % a)
            elif kind == "movector":
                c.append("MOVECTOR %d %d" % (a, b)); alive.add(a)
            else:
                c.append("MOVEASSIGN %d %d" % (a, b))
        c += ["DESTROY %d" % o for o in sorted(alive)] + ["MARK"]
        return c

    def expected(e):
        """per Evolve of the history: (object, AnyNumerics, clock after)"""
        any_ = {1: False, 2: False}; t4 = {1: 0, 2: 0}; out = []
        for kind, a, b in e["hist"]:
            if kind == "new": any_[a] = False; t4[a] = 0
            elif kind == "ini": t4[a] = 8
            elif kind == "any": any_[a] = bool(b)
            elif kind == "evolve": t4[a] += 4; out.append((a, any_[a], t4[a]))
            else: any_[a] = any_[b]; t4[a] = t4[b]
        return out

    def judge(e, lines):
        bad = []
        ev = [_j.loads(l) for l in lines if l.startswith('{"e":"Evolve')]
        exp = expected(e)
        starts = [x for x in ev if x["e"] == "EvolveStart"]; ends = [x for x in ev if x["e"] == "EvolveEnd"]
        if len(starts) != len(exp) or len(ends) != len(exp):
            return [("evolve-count", "recorded %d starts / %d ends for %d Evolve calls" % (len(starts), len(ends), len(exp)))]
        for k, (o, an, t4) in enumerate(exp):
            s_, e_ = starts[k], ends[k]
            if not s_["paramsok"]: bad.append(("paramsok", "Evolve #%d on object %d: the system handed to GSL does not point back at this object" % (k, o)))
            if (s_["num"] == 1) != an: bad.append(("numerics-flag", "Evolve #%d on object %d: stepper %s although AnyNumerics is %s" % (k, o, "ran" if s_["num"] else "did not run", an)))
            if e_["threw"]: bad.append(("threw", "Evolve #%d on object %d reported a GSL failure" % (k, o)))
            elif e_["t4"] != t4 or not e_["t4exact"]: bad.append(("clock", "Evolve #%d on object %d: clock %s quarter ticks, specification %d" % (k, o, e_["t4"], t4)))
            if e_["eact"] != e_["sys"]: bad.append(("after-evolve", "Evolve #%d on object %d: the in-step view does not coincide with the stored state" % (k, o)))
            if not e_.get("contract", True): return [("contract", "GSL evaluated the first right-hand side away from the caller's array")]
        return bad

    def run_many(idx):
        cmds = ["QUIET 1"]
        for i in idx:
            cmds += script(hs[i])
        return run_script(exe, cmds, timeout=timeout)

    def split(lines):
        out = [[]]
        for l in lines:
            if l.startswith("MARK"):
                out.append([])
            else:
                out[-1].append(l)
        return out

    chunks = [list(range(j, len(hs), jobs)) for j in range(jobs)]
    viol = []; nev = 0
    with concurrent.futures.ThreadPoolExecutor(max_workers=jobs) as ex:
        for idx, (rc, lines, err) in zip(chunks, ex.map(run_many, chunks)):
            parts = split(lines)
            done = len(parts) - 1
            for k in range(done):
                for what, text in judge(hs[idx[k]], parts[k]):
                    viol.append(("lifetime/" + what, text, hs[idx[k]]["hist"]))
                nev += sum(1 for h in hs[idx[k]]["hist"] if h[0] == "evolve")
            if died(rc) or done < len(idx):
                # the driver died (or stopped) in script number `done` of this chunk: judge it alone, then go on one by one
                for k in range(done, len(idx)):
                    rc1, l1, e1 = run_many([idx[k]])
                    if died(rc1):
                        viol.append(("lifetime/%s" % ("no-return" if rc1 == "timeout" else "crash"),
                                     "the driver %s (rc=%s) %s" % ("did not return" if rc1 == "timeout" else "died", rc1, e1[-200:]), hs[idx[k]]["hist"]))
                        if sum(1 for v_ in viol if v_[0].endswith("crash") or v_[0].endswith("no-return")) >= 6:
                            break
                    else:
                        for what, text in judge(hs[idx[k]], split(l1)[0]):
                            viol.append(("lifetime/" + what, text, hs[idx[k]]["hist"]))
    return viol, len(hs), nev


def long_evolve(v, exe):
    """one Evolve needing more than 10^7 accepted steps against the same interval cut into 26 segments"""
    import concurrent.futures as _cf, json
    from vlib import Infra
    solver = sys.modules[__name__]
    # ---- one long Evolve (more than 10^7 accepted steps) against the same interval in 26 segments: neither may fail, clocks and
    #      states agree (the property quantifies over all dt >= 0; a cap on the steps of one call would make the result depend on
    #      how the interval is cut)
    base = ["QUIET 1", "NEW 1 1 2 1 0 0", "STEPPER 1 rk2 1 400", "TOL 1 1e-9 1e-9", "SW 1 1 1"]
    longs = [base + ["EVOLVE 1 52000", "DUMP 1 L", "DESTROY 1"], base + ["EVOLVE 1 2000"] * 26 + ["DUMP 1 L", "DESTROY 1"]]
    with _cf.ThreadPoolExecutor(max_workers=2) as ex_:
        lres = list(ex_.map(lambda c_: solver.run_script(exe, c_, timeout=900), longs))
    ldump = []
    for (rc_, lines_, err_), what_ in zip(lres, ("one call", "26 segments")):
        if solver.died(rc_):
            solver.crash_violation(v, "long-evolve", rc_, longs[0][:6], err_)
        elif rc_ != 0:
            raise Infra("long Evolve run failed: rc=%s %s" % (rc_, err_[-300:]))
        ends_ = [json.loads(l) for l in lines_ if l.startswith('{"e":"EvolveEnd"')]
        if any(e_["threw"] for e_ in ends_):
            v.violation("long-evolve/refused", "Evolve over 13000 time units (%s; rk2, tolerance 1e-9, about 1.3e7 steps in all) reported a GSL failure after %d right-hand sides" % (
                what_, sum(e_["nrhs"] for e_ in ends_)), {"script": longs[0][:6]})
        ldump.append(solver.parse_dumps(lines_))
    if len(ldump) == 2 and ldump[0] and ldump[1] and not any(str(x[0]).startswith("long-evolve") for x in v.violations):
        (_, t1_, v1_), (_, t2_, v2_) = ldump[0][0], ldump[1][0]
        if abs(t1_ - t2_) > 1e-6 or abs(t1_ - 13000.0) > 1e-6:
            v.violation("long-evolve/clock", "Get_t after one Evolve(13000) = %r, after 26 x Evolve(500) = %r" % (t1_, t2_), None)
        elif max(abs(a_ - b_) for a_, b_ in zip(v1_, v2_)) > 1e-3:
            v.violation("long-evolve/state", "state after one Evolve(13000) differs from 26 x Evolve(500) by %.3g" % max(abs(a_ - b_) for a_, b_ in zip(v1_, v2_)), None)
    v.cov["long_evolve"] = "one Evolve over 13000 units (rk2, 1e-9: ~1.3e7 steps) vs 26 segments"
