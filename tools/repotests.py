"""The repository's own test programs as trace sources (binding B on executions nobody scripted here): every
test/*.test.cpp is rebuilt from /repo's current tree with -DSQUIDS_VERIF and harness/verif_sink.cpp, run, its output
compared with the reference output shipped with the test, and its heap events validated by TLC against spec/HeapTrace."""
import glob, os, subprocess, concurrent.futures
import vlib
from vlib import Infra


def build_and_run(test_cpp, libobjs, outdir):
    name = os.path.basename(test_cpp)[:-len(".test.cpp")]
    exe = os.path.join(outdir, name)
    cmd = ["g++", "-std=c++11", "-O1", "-w", "-D" + vlib.GUARD, "-I" + os.path.join(vlib.REPO, "include"), "-I" + os.path.join(vlib.REPO, "test"),
           test_cpp, os.path.join(vlib.HARNESS, "verif_sink.cpp")] + libobjs + ["-o", exe] + vlib.LIBS
    p = vlib.sh(cmd, timeout=600)
    if p.returncode != 0:
        return name, "build", p.stderr[-800:], None, None
    trace = os.path.join(outdir, name + ".ndjson")
    r = vlib.sh([exe], timeout=600, env={"SQUIDS_VERIF_TRACE": trace}, cwd=os.path.join(vlib.REPO, "test"))
    return name, "ok" if r.returncode == 0 else "rc=%d" % r.returncode, r.stderr[-500:], r.stdout, trace


def run(v, max_events=30000):
    tests = sorted(glob.glob(os.path.join(vlib.REPO, "test", "*.test.cpp")))
    if len(tests) < 20:
        raise Infra("repository tests not found")
    libobjs = vlib.build_lib("plain")
    outdir = os.path.join(vlib.BUILD, "repotests_%s_%d" % (vlib.repo_hash(), os.getpid()))      # per process: concurrent runs must not share trace files
    os.makedirs(outdir, exist_ok=True)
    results = []
    with concurrent.futures.ThreadPoolExecutor(max_workers=12) as ex:
        for r in ex.map(lambda t: build_and_run(t, libobjs, outdir), tests):
            results.append(r)
    nev = 0; nval = 0

    def check_one(item):
        return item, _validate(item, max_events)
    for name, status, err, out, trace in results:
        pass
    with concurrent.futures.ThreadPoolExecutor(max_workers=8) as ex:
        outs = list(ex.map(lambda it: _validate(v, it, max_events), results))
    for o in outs:
        if o:
            nval += 1; nev += o
    v.cov["repository_tests_validated"] = nval
    v.cov["repository_test_heap_events"] = nev
    import shutil
    shutil.rmtree(outdir, ignore_errors=True)
    return nval, nev


def _validate(v, item, max_events):
    name, status, err, out, trace = item
    nev = 0; nval = 0
    for _ in (0,):
        if status == "build":
            raise Infra("test program %s does not build with hooks on: %s" % (name, err))
        if status != "ok":
            v.violation("repotest/%s/crash" % name, "test program %s with hooks on: %s %s" % (name, status, err), None)
            return 0
        # (outputs are not compared: several tests print allocation counts, which the recording sink itself changes;
        #  the unmodified outputs are the business of the repository's own `make test`)
        if not trace or not os.path.exists(trace):
            raise Infra("no heap trace written by %s" % name)
        n = sum(1 for _ in open(trace))
        if max_events and n > max_events:      # a prefix of a behaviour is a behaviour: validate the first max_events events
            head = open(trace).read().splitlines()[:max_events]
            with open(trace, "w") as f:
                f.write("\n".join(head) + "\n")
            n = max_events
        r = vlib.tlc("HeapTrace", "HeapTrace.cfg", workers=1, timeout=600, env={"TRACE": trace}, coverage=False, xmx="3g")
        if r.error and not r.violated and not ("Postcondition Accepted" in r.out and "is false" in r.out):
            r = vlib.tlc("HeapTrace", "HeapTrace.cfg", workers=1, timeout=600, env={"TRACE": trace}, coverage=False, xmx="3g")   # a JVM-level failure (I/O under load): once more
        if r.error and not r.violated and not ("Postcondition Accepted" in r.out and "is false" in r.out):
            raise Infra("TLC failed while validating the heap trace of %s: %s" % (name, (r.error or "")[:300]))
        if ("Postcondition Accepted" in r.out and "is false" in r.out) or r.violated:
            k = max(0, r.depth - 1)
            lines = open(trace).read().splitlines()
            v.violation("repotest/%s/heap" % name, "heap event %d of test %s not explained by HeapTrace: %s (%s)" % (k, name, lines[k] if k < len(lines) else "?", r.violated or (r.error or "")[:200] or "no matching step"),
                        {"test": name, "event_index": k})
        else:
            return n
    return 0
