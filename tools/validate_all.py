#!/usr/bin/env python3
"""Validates MANIFEST.json and every evidence file against the schemas (run with python3-vt, which has jsonschema) and
checks that each evidence level equals the level claimed in the manifest."""
import json, sys, os
import jsonschema
V = os.path.dirname(os.path.dirname(os.path.abspath(__file__)))
m = json.load(open(V + "/MANIFEST.json"))
jsonschema.validate(m, json.load(open("/root/.vp/MANIFEST.schema.json")))
es = json.load(open("/root/.vp/EVIDENCE.schema.json"))
bad = 0
for c in m["checks"]:
    p = os.path.join(V, c["evidence_file"])
    try:
        e = json.load(open(p))
        jsonschema.validate(e, es)
        if e["level"] != c["level_claimed"]["category"]:
            print("LEVEL MISMATCH", c["property_id"], e["level"], c["level_claimed"]["category"]); bad += 1
        if e.get("violations"):
            print("VIOLATIONS RECORDED", c["property_id"]); bad += 1
        print(c["property_id"], e["tier"], e["level"], "wall", e["wall_s"], {k: e["coverage"].get(k) for k in ("states", "transitions", "traces_validated_against_impl", "evaluations", "distinct_nontrivial") if k in e["coverage"]})
    except Exception as ex:
        print("INVALID", c["property_id"], str(ex)[:200]); bad += 1
sys.exit(1 if bad else 0)
