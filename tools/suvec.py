"""Shared driver for the SUVec-based checks (C08 C09 C14 C15 C16).

  spec/SUVec.tla  --TLC BFS (Policy "code")-->  invariants/action properties + exported transitions
  transitions     --path cover-->               scripts of public calls
  scripts         --harness/suvec_drive-->      ndjson traces of the real implementation
  traces          --TLC on spec/SUVecTrace-->   accepted / rejected at event i
plus seeded random histories generated interactively from the recorded implementation state.
"""
import json, os, random, subprocess, time, threading
import vlib
from vlib import Infra

EXPR_OPS = ["add", "sub", "neg", "smul", "icomm", "acomm", "evolve", "fastevolve", "elementwise"]
ELEMENTWISE = {"add", "sub", "neg", "smul", "elementwise"}
ARITY1 = {"neg", "smul", "fastevolve"}
DRIVER_SRCS = ["suvec_drive.cpp"] + ["suvec_expr_%s.cpp" % o for o in EXPR_OPS]
K = 6       # pool slots in the driver
NE = 4


def build_driver(flavor="plain"):
    return vlib.build_harness("suvec_drive", flavor, sources=DRIVER_SRCS, extra_flags=["-std=c++14"])


# ----------------------------------------------------------------------------------------------
# TLC exploration of SUVec
# ----------------------------------------------------------------------------------------------
def bfs_cfg(name, vecs=3, dims=(2, 3), exts=(1,), nblk=6, cap=2, maxops=3, ops=("add", "icomm"), faults=False,
            steal_empties=True, emit=True, policy="code",
            invs=("TypeOK", "UniqueOwner", "MovedFromSafe", "ExternalExact", "HeapSound", "NoLeak", "ValuesOK"),
            props=("WriteFrame", "ExternalStable", "FailureFrame", "CopyIndependent"), next_op=None):
    os.makedirs(vlib.BUILD, exist_ok=True)
    p = os.path.join(vlib.cfgdir(), name + ".cfg")
    with open(p, "w") as f:
        f.write("SPECIFICATION %s\nCONSTANTS\n" % ("Spec" if not next_op else next_op))
        f.write("  Vecs = {%s}\n" % ",".join("v%d" % (i + 1) for i in range(vecs)))
        f.write("  Dims = {%s}\n  Exts = {%s}\n  NBlk = %d\n  CacheCap = %d\n  MaxOps = %d\n" % (
            ",".join(map(str, dims)), ",".join(map(str, exts)), nblk, cap, maxops))
        f.write('  Policy = "%s"\n  StealEmpties = %s\n  OpsOn = {%s}\n  Faults = %s\n  NoVec = none\n' % (
            policy, "TRUE" if steal_empties else "FALSE", ",".join('"%s"' % o for o in ops), "TRUE" if faults else "FALSE"))
        if not next_op:
            f.write("SYMMETRY Sym\n")
        f.write("INVARIANTS %s\n" % " ".join(invs))
        if props:
            f.write("PROPERTIES %s\n" % " ".join(props))
        if emit:
            f.write("ACTION_CONSTRAINT %s\n" % ("Emit" if not next_op else "EmitShape"))
        f.write("CHECK_DEADLOCK FALSE\n")
    return p


def vidx(x):
    if isinstance(x, int):
        return x
    if x in ("none", "", None):
        return -1
    return int(str(x)[1:]) - 1


def act_to_cmd(a):
    """specification action record -> driver command line"""
    n = a["name"]
    t, x, y = vidx(a["t"]), vidx(a["a"]), vidx(a["b"])
    if n == "NewEmpty": return "NewEmpty %d" % t
    if n in ("NewSized", "MakeAligned"): return "%s %d %d %d" % (n, t, a["d"], a["fail"])
    if n == "NewFromList": return "NewFromList %d %d %d %d" % (t, a["d"], a["c"], a["fail"])
    if n == "NewExt": return "NewExt %d %d %d" % (t, a["d"], a["e"])
    if n == "NewCopy": return "NewCopy %d %d %d" % (t, x, a["fail"])
    if n == "NewMove": return "NewMove %d %d" % (t, x)
    if n == "Destroy": return "Destroy %d" % t
    if n == "ClearCache": return "ClearCache"
    if n == "Write": return "Write %d %d" % (t, a["c"])
    if n == "SetBackingStore": return "SetBackingStore %d %d" % (t, a["e"])
    if n == "CopyAssign": return "CopyAssign %d %d %d" % (t, x, a["fail"])
    if n == "MoveAssign": return "MoveAssign %d %d" % (t, x)
    if n == "CompoundVec": return "CompoundVec %d %s %d" % (t, a["w"], x)
    if n == "CompoundScalar": return "CompoundScalar %d %s" % (t, a["w"])
    if n == "Probe": return "Probe %d %s" % (t, a["op"])
    if n == "BinaryRead": return "BinaryRead %s %d %d" % (a["op"], x, y)
    if n == "Factory": return "Factory %d %s %d %d %d" % (t, a["op"], a["d"], a["c"], a.get("fail", 0))
    if n == "Burst": return "Burst %d %d" % (a["d"], a["c"])
    if n == "AssignExpr":
        return "AssignExpr %d %s %s %d %d %d %d %d %d %d" % (t, a["w"], a["op"], x, y, 1 if a["arv"] else 0, 1 if a["brv"] else 0,
                                                            a["c"], a["fail"], a.get("flags", 0))
    raise Infra("unknown action in exported transition: %s" % n)


def path_cover(edges):
    """edges: exported transitions. Returns list of command-lists covering every (state, action) pair."""
    def key(proj, c, e, vd):
        return json.dumps([proj, c, e, vd], sort_keys=True)
    succ = {}
    init = None
    for e in edges:
        u = key(e["from"], e["fc"], e["fe"], e["fd"])
        v = key(e["to"], e["tc"], e["te"], e["td"])
        a = json.dumps(e["act"], sort_keys=True)
        succ.setdefault(u, {})
        if a not in succ[u]:
            succ[u][a] = v
        if e["n"] == 0:
            init = u
    if init is None:
        raise Infra("no initial transition exported")
    # BFS tree
    parent = {init: None}
    order = [init]
    i = 0
    while i < len(order):
        u = order[i]; i += 1
        for a, v in succ.get(u, {}).items():
            if v not in parent:
                parent[v] = (u, a)
                order.append(v)

    def tree_path(u):
        out = []
        while parent[u] is not None:
            pu, a = parent[u]
            out.append(a)
            u = pu
        out.reverse()
        return out
    paths = []
    npairs = 0
    for u in order:
        tp = None
        for a, v in succ.get(u, {}).items():
            npairs += 1
            # a tree edge whose target has successors is covered by the longer paths through it
            if parent.get(v) == (u, a) and succ.get(v):
                continue
            if tp is None:
                tp = tree_path(u)
            paths.append(tp + [a])
    return [[act_to_cmd(json.loads(a)) for a in p] for p in paths], npairs, len(order)


# ----------------------------------------------------------------------------------------------
# the real implementation, driven interactively
# ----------------------------------------------------------------------------------------------
class Driver:
    def __init__(self, exe, env=None):
        e = dict(os.environ)
        e["ASAN_OPTIONS"] = "detect_leaks=0:abort_on_error=0:exitcode=77:allocator_may_return_null=1"
        e["UBSAN_OPTIONS"] = "halt_on_error=1:exitcode=78:print_stacktrace=1"
        if env:
            e.update(env)
        self.p = subprocess.Popen([exe], stdin=subprocess.PIPE, stdout=subprocess.PIPE, stderr=subprocess.PIPE, text=True, env=e, bufsize=1)
        self.err = []
        self.t = threading.Thread(target=self._drain, daemon=True)
        self.t.start()
        self.dead = False

    def _drain(self):
        for l in self.p.stderr:
            self.err.append(l)
            if len(self.err) > 400:
                del self.err[:200]

    def send(self, cmd):
        """returns list of (raw line, parsed event); [] if the process died"""
        if self.dead:
            return []
        try:
            self.p.stdin.write(cmd + "\n")
            self.p.stdin.flush()
        except (BrokenPipeError, OSError):
            self.dead = True
            return []
        out = []
        while True:
            l = self.p.stdout.readline()
            if not l:
                self.dead = True
                return out
            ev = json.loads(l)
            out.append((l.rstrip("\n"), ev))
            if cmd == "RESET":
                if ev["e"] == "Reset":
                    return out
            else:
                return out

    def close(self):
        try:
            self.p.stdin.close()
            self.p.wait(timeout=10)
        except Exception:
            self.p.kill()
        return self.p.returncode, "".join(self.err)


DEAD = {"live": False, "dim": 0, "lk": "null", "id": 0, "owns": False, "ext": False, "val": [], "ni": False}


class State:
    """what the script generator needs, taken from the implementation's own record"""
    def __init__(self):
        self.post = [dict(DEAD) for _ in range(K)]
        self.ebuf = [{"dim": 0} for _ in range(NE)]

    def update(self, ev):
        if ev["e"] == "Reset":
            self.__init__()
        elif "post" in ev:
            self.post = ev["post"]
            self.ebuf = ev["ebuf"]

    def live(self, i): return 0 <= i < K and self.post[i]["live"]
    def store(self, i): return self.live(i) and (self.post[i]["owns"] or self.post[i]["ext"]) and 2 <= self.post[i]["dim"] <= 6 and not self.post[i]["ni"]
    def dim(self, i): return self.post[i]["dim"]
    def mag(self, i): return max([max(abs(x[0]), abs(x[1])) for x in self.post[i]["val"]] or [0])

    def diag(self, i):
        d = self.dim(i); v = self.post[i]["val"]
        if len(v) != d * d: return False
        return all((r == c) or (v[r * d + c] == [0, 0]) for r in range(d) for c in range(d)) and all(v[r * d + r][1] == 0 for r in range(d))


def enabled(st, cmd, maglimit=3000):
    """is the call within the alphabet of the specification in the implementation's current state?
    (preconditions of the documentation: operands have storage, evolution operator diagonal, values stay exact)"""
    p = cmd.split()
    n = p[0]
    I = lambda k: int(p[k])
    if n in ("NewEmpty", "NewSized", "MakeAligned", "NewFromList"):
        return not st.live(I(1))
    if n == "Factory":
        # the normalised diagonal generators l >= 2 have irrational entries (outside the exact value lattice; C13 covers them)
        d, i = I(3), I(4)
        if p[2] == "generator" and 2 <= d <= 6 and i < d * d and i // d == i % d and i // d >= 2:
            return False
        return not st.live(I(1))
    if n == "NewExt":
        d, e = I(2), I(3)
        return not st.live(I(1)) and (not (2 <= d <= 6) or st.ebuf[e - 1]["dim"] in (0, d))
    if n in ("NewCopy", "NewMove"):
        return not st.live(I(1)) and st.live(I(2)) and I(1) != I(2)
    if n == "Destroy": return st.live(I(1))
    if n == "ClearCache": return True
    if n == "Burst": return True
    if n == "Write": return st.store(I(1))
    if n == "SetBackingStore":
        t, e = I(1), I(2)
        return st.live(t) and 2 <= st.dim(t) <= 6 and st.ebuf[e - 1]["dim"] in (0, st.dim(t))
    if n in ("CopyAssign", "MoveAssign"):
        return st.live(I(1)) and st.live(I(2))
    if n == "CompoundVec":
        t, s = I(1), I(3)
        return st.live(t) and st.live(s) and (st.dim(t) != st.dim(s) or (st.store(t) and st.store(s) and st.mag(t) + st.mag(s) < 10 ** 8))
    if n == "CompoundScalar": return st.store(I(1)) and st.mag(I(1)) < 10 ** 8
    if n == "Probe": return st.store(I(1))
    if n == "BinaryRead": return st.store(I(2)) and st.store(I(3))
    if n == "AssignExpr":
        t, w, op, a, b, arv, brv = I(1), p[2], p[3], I(4), I(5), I(6), I(7)
        if not st.store(a): return False
        if op not in ARITY1 and not st.store(b): return False
        if op in ARITY1 and (a != b or brv): return False
        if arv and op not in ELEMENTWISE: return False
        if brv and op not in ("add", "elementwise"): return False
        if arv and brv and a == b: return False
        if w == "ctor":
            if st.live(t) or t == a or t == b: return False
        elif not st.live(t): return False
        if (arv and t == a) or (brv and t == b): return False
        if op == "evolve" and st.dim(a) == st.dim(b) and not st.diag(a): return False
        m = max(st.mag(a), st.mag(b) if op not in ARITY1 else 0, st.mag(t) if (w in ("+=", "-=") and st.store(t)) else 0)
        if op in ("icomm", "acomm"):
            if m > maglimit: return False
        elif m > 10 ** 7: return False
        return True
    return False


def run_paths(exe, paths, maxpaths=None):
    """execute each path from a fresh state; returns (segments, stats). A segment is a list of raw event lines ending with Reset."""
    drv = Driver(exe)
    segs = []
    skipped = 0
    crashed = None
    st = State()
    for pi, path in enumerate(paths if maxpaths is None else paths[:maxpaths]):
        seg = []
        for cmd in path:
            if not enabled(st, cmd):
                skipped += 1
                break
            evs = drv.send(cmd)
            if drv.dead:
                crashed = (cmd, seg)
                break
            for raw, ev in evs:
                seg.append(raw)
                st.update(ev)
        if crashed:
            break
        evs = drv.send("RESET")
        if drv.dead:
            crashed = ("RESET", seg)
            break
        for raw, ev in evs:
            seg.append(raw)
            st.update(ev)
        segs.append(seg)
    rc, err = drv.close()
    return segs, dict(skipped=skipped, crashed=crashed, rc=rc, stderr=err[-3000:])


def random_cmd(rng, st, dims, faults, ops, guards=False):
    """propose a random call (not necessarily enabled)"""
    v = lambda: rng.randrange(K)
    r = rng.random()
    fail = 1 if (faults and rng.random() < 0.3) else 0
    d = rng.choice(dims)
    if guards and rng.random() < 0.15:
        d = rng.choice([1, 7, 8])
    if r < 0.07: return "NewEmpty %d" % v()
    if r < 0.17: return "%s %d %d %d" % (rng.choice(["NewSized", "MakeAligned"]), v(), d, fail)
    if r < 0.21:
        ln = d * d if rng.random() < 0.8 or not guards else rng.choice([1, 2, 3, 5, 8, 15, 35, 49, 64])
        return "NewFromList %d %d %d %d" % (v(), ln, rng.choice([1, 2, 3, 4]), fail)
    if r < 0.26: return "NewExt %d %d %d" % (v(), d, rng.randrange(1, NE + 1))
    if r < 0.31: return "NewCopy %d %d %d" % (v(), v(), fail)
    if r < 0.35: return "NewMove %d %d" % (v(), v())
    if r < 0.40: return "Destroy %d" % v()
    if r < 0.41: return "ClearCache"
    if r < 0.42: return "Burst %d %d" % (rng.choice(dims), rng.choice([3, 33, 40]))
    if r < 0.50: return "Write %d %d" % (v(), rng.choice([1, 2, 3, 4, 5]))
    if r < 0.53: return "SetBackingStore %d %d" % (v(), rng.randrange(1, NE + 1))
    if r < 0.60: return "CopyAssign %d %d %d" % (v(), v(), fail)
    if r < 0.66: return "MoveAssign %d %d" % (v(), v())
    if r < 0.69: return "CompoundVec %d %s %d" % (v(), rng.choice(["+=", "-="]), v())
    if r < 0.71: return "CompoundScalar %d %s" % (v(), rng.choice(["*=", "/="]))
    if r < 0.74: return "Probe %d %s" % (v(), rng.choice(["rotate", "real", "matrix"]))
    if r < 0.76: return "BinaryRead %s %d %d" % (rng.choice(["dot", "rotateU", "eq"]), v(), v())
    if r < 0.78:
        kind = rng.choice(["projector", "identity", "generator", "posproj", "negproj"])
        i = rng.randrange(0, d) if kind != "generator" else rng.randrange(0, max(1, d * d))
        if guards and rng.random() < 0.3:
            i = d * d + rng.randrange(0, 3) if kind == "generator" else d + 1 + rng.randrange(0, 2)
        return "Factory %d %s %d %d %d" % (v(), kind, d, i, fail)
    op = rng.choice(ops)
    a = v(); b = a if op in ARITY1 else v()
    arv = 1 if (op in ELEMENTWISE and rng.random() < 0.35) else 0
    brv = 1 if (op in ("add", "elementwise") and rng.random() < 0.3) else 0
    w = rng.choice(["=", "=", "+=", "-=", "ctor"])
    k = rng.choice([1, 2, 3, -1])
    flags = rng.choice([0, 0, 1, 2, 3, 4, 5, 7])
    return "AssignExpr %d %s %s %d %d %d %d %d %d %d" % (v(), w, op, a, b, arv, brv, k, fail, flags)


def random_segments(exe, seed, nseg, length, dims=(2, 3, 4, 5, 6), faults=False, ops=EXPR_OPS, guards=False, env=None):
    rng = random.Random(seed)
    drv = Driver(exe, env=env)
    st = State()
    segs = []
    crashed = None
    ncalls = 0
    for si in range(nseg):
        seg = []
        n = 0
        tries = 0
        while n < length and tries < length * 40:
            tries += 1
            cmd = random_cmd(rng, st, dims, faults, ops, guards)
            if not enabled(st, cmd):
                continue
            evs = drv.send(cmd)
            if drv.dead:
                crashed = (cmd, seg)
                break
            for raw, ev in evs:
                seg.append(raw); st.update(ev)
            n += 1
        if crashed: break
        evs = drv.send("RESET")
        if drv.dead:
            crashed = ("RESET", seg); break
        for raw, ev in evs:
            seg.append(raw); st.update(ev)
        segs.append(seg)
        ncalls += n
    rc, err = drv.close()
    return segs, dict(crashed=crashed, rc=rc, stderr=err[-4000:], calls=ncalls)


# ----------------------------------------------------------------------------------------------
# trace validation
# ----------------------------------------------------------------------------------------------
def trace_cfg(name, faults=True, nblk=40, cap=32):
    if nblk > 12:
        nblk = 256            # random histories: up to 32 cached blocks per class plus a Burst of 70 temporaries
        cap = 256             # no assumption about the capacity of a cache class (not part of any property): caching is allowed whenever it happens
    p = os.path.join(vlib.cfgdir(), name + ".cfg")
    with open(p, "w") as f:
        f.write("""SPECIFICATION TSpec
CONSTANTS
  Vecs = {0,1,2,3,4,5}
  Dims = {2,3,4,5,6}
  Exts = {1,2,3,4}
  NBlk = %d
  CacheCap = %d
  MaxOps = 100000000
  Policy = "any"
  StealEmpties = TRUE
  OpsOn = {"add"}
  Faults = TRUE
  NoVec = 99
INVARIANTS TypeOK UniqueOwner MovedFromSafe ExternalExact HeapSound ValuesOK
PROPERTIES WriteFrame ExternalStable FailureFrame CopyIndependent
POSTCONDITION Accepted
CHECK_DEADLOCK FALSE
""" % (nblk, cap))
    return p


def _validate_batch(segs, tag, timeout, nblk=40):
    """returns (accepted?, n_matched_events, tlc result)"""
    os.makedirs(vlib.BUILD, exist_ok=True)
    path = os.path.join(vlib.BUILD, "trace_%s_%d.ndjson" % (tag, os.getpid()))
    n = 0
    with open(path, "w") as f:
        for s in segs:
            for l in s:
                f.write(l + "\n"); n += 1
    cfg = trace_cfg("SUVecTrace_" + tag, nblk=nblk)
    r = vlib.tlc("SUVecTrace", cfg, workers=1, timeout=timeout, env={"TRACE": path}, coverage=False, xmx="6g")
    try:
        os.remove(path)
    except OSError:
        pass
    if "Postcondition Accepted" in r.out and "is false" in r.out:
        r.error = None
        return False, max(0, r.depth - 1), r
    if r.violated:
        return False, max(0, r.depth - 1), r
    if r.error:
        # an evaluation error while matching an event also means "not explained"; report with the text
        return False, max(0, r.depth - 1), r
    return True, n, r


def validate(segs, tag="t", max_rej=12, batch=400, timeout=1800, jobs=8, nblk=40):
    """validate segments; returns (events_matched, segments_accepted, rejections)
    rejection = dict(seg=index, at=event index in segment, event=parsed, prev=parsed or None, why=text)"""
    rejections = []
    matched = 0
    accepted = 0
    lock = threading.Lock()
    batches = [(i, segs[i:i + batch]) for i in range(0, len(segs), batch)]

    def work(bi, base, bs):
        nonlocal matched, accepted
        cur = list(bs)
        off = base
        while cur:
            ok, nm, r = _validate_batch(cur, "%s_%d" % (tag, bi), timeout, nblk)
            with lock:
                matched += nm
            if ok:
                with lock:
                    accepted += len(cur)
                return
            # locate the segment holding event nm (0-based index of first unmatched event)
            k = 0; cnt = 0
            while k < len(cur) and cnt + len(cur[k]) <= nm:
                cnt += len(cur[k]); k += 1
            if k >= len(cur):
                raise Infra("trace validation failed without locating the event:\n" + (r.error or r.out[-2000:]))
            at = nm - cnt
            ev = json.loads(cur[k][at])
            prev = json.loads(cur[k][at - 1]) if at > 0 else None
            why = r.violated or ("evaluation error: " + (r.error or "")[:400] if r.error else "no behaviour of the specification explains this event")
            with lock:
                accepted += k
                rejections.append(dict(seg=off + k, at=at, event=ev, prev=prev, why=why, segment=cur[k][:at + 1]))
                if len(rejections) >= max_rej:
                    return
            off += k + 1
            cur = cur[k + 1:]

    ths = []
    sem = threading.Semaphore(jobs)

    def run(bi, base, bs):
        with sem:
            work(bi, base, bs)
    errs = []

    def safe(bi, base, bs):
        try:
            run(bi, base, bs)
        except Exception as ex:
            errs.append(ex)
    for bi, (base, bs) in enumerate(batches):
        t = threading.Thread(target=safe, args=(bi, base, bs))
        t.start(); ths.append(t)
    for t in ths:
        t.join()
    if errs:
        raise errs[0]
    return matched, accepted, rejections


def kind_of(p):
    if not p["live"]: return "dead"
    if p["owns"]: return "own"
    if p["ext"]: return "ext"
    return "empty" if p["dim"] == 0 else "dangling"


def event_class(rej):
    """stable key of a rejected event: call, its shape, and the storage kinds involved before the call"""
    ev = rej["event"]; prev = rej["prev"]
    pre = prev["post"] if prev and "post" in prev else [dict(DEAD) for _ in range(K)]
    n = ev["e"]
    def kd(i): return kind_of(pre[i]) if 0 <= i < K else "-"
    if n == "Reset":
        return "Reset/leaked=%s" % ("0" if ev.get("leaked", 0) == 0 else "n")
    parts = [n]
    if n == "AssignExpr":
        parts += [ev["op"], ev["w"], "rv%d%d" % (ev["arv"], ev["brv"]), "t=" + kd(ev["t"]), "a=" + kd(ev["a"]), "b=" + kd(ev["b"])]
        if ev["t"] == ev["a"] or ev["t"] == ev["b"]: parts.append("alias")
        if 0 <= ev["t"] < K and pre[ev["t"]]["dim"] != pre[ev["a"]]["dim"] and pre[ev["t"]]["live"]: parts.append("resize")
        if pre[ev["a"]]["dim"] != pre[ev["b"]]["dim"]: parts.append("mismatch")
    elif n in ("CopyAssign", "MoveAssign", "NewCopy", "NewMove", "CompoundVec"):
        parts += ["t=" + kd(ev["t"]), "a=" + kd(ev["a"])]
        if pre[ev["t"]]["dim"] != pre[ev["a"]]["dim"] and pre[ev["t"]]["live"]: parts.append("resize")
    elif n in ("NewSized", "MakeAligned", "NewExt"):
        parts += ["d=%d" % ev["d"]]
    elif n == "NewFromList":
        parts += ["len=%d" % ev["d"]]
    elif n == "Factory":
        parts += [ev["op"], "d=%d" % ev["d"], "i=%d" % ev["c"]]
    elif n in ("Probe", "BinaryRead"):
        parts += [ev["op"]]
        if n == "BinaryRead" and pre[ev["a"]]["dim"] != pre[ev["b"]]["dim"]: parts.append("mismatch")
    else:
        if 0 <= ev.get("t", -1) < K: parts += ["t=" + kd(ev["t"])]
    if ev.get("fail"): parts.append("fail=%d" % ev["fail"])
    parts.append("out=" + ev.get("out", "?"))
    return "/".join(str(x) for x in parts)


def report_rejections(v, rejections, prefix=""):
    for r in rejections:
        key = prefix + event_class(r)
        ev = dict(r["event"]); ev.pop("post", None); ev.pop("ebuf", None)
        v.violation(key, "event %d of segment %d not explained by SUVec (%s): %s" % (r["at"], r["seg"], r["why"], json.dumps(ev)),
                    {"segment": r["segment"], "why": r["why"]})


def crash_violation(v, info, prefix=""):
    """the driver died (sanitizer report, signal): the last command is the culprit"""
    if not info.get("crashed"):
        return False
    cmd, seg = info["crashed"]
    err = info.get("stderr", "")
    kind = "crash"
    for pat, name in (("heap-buffer-overflow", "heap-buffer-overflow"), ("global-buffer-overflow", "global-buffer-overflow"),
                      ("heap-use-after-free", "use-after-free"), ("attempting double-free", "double-free"), ("stack-buffer-overflow", "stack-buffer-overflow"),
                      ("runtime error:", "undefined-behaviour"), ("SEGV", "segv"), ("alloc-dealloc-mismatch", "alloc-dealloc-mismatch")):
        if pat in err:
            kind = name
            break
    p = cmd.split()
    key = prefix + "%s/%s" % (p[0], kind)
    v.violation(key, "driver died executing '%s' (rc=%s): %s" % (cmd, info.get("rc"), err[-1500:]), {"segment": seg, "cmd": cmd, "stderr": err[-3000:]})
    return True


def setup_cmds(kinds, ds, dl, robbed=False):
    """driver commands building the prepared pool of SUVec!Setup(kinds) with small/large dimensions ds/dl.
    robbed: the empty vectors of the pool are not default-constructed but vectors whose storage was taken over by an
    expression statement (t = move(v) + w into an empty target) - the same abstract state, reached through the library's
    theft path; the helper vectors live in slots 4 and 5 and are destroyed again."""
    cmds = []
    for i, k in enumerate(kinds):
        if k == "empty" and robbed:
            cmds += ["NewSized %d %d 0" % (i, ds), "Write %d 5" % i, "NewSized 4 %d 0" % ds, "Write 4 3", "NewEmpty 5",
                     "AssignExpr 5 = add %d 4 1 0 1 0 0" % i, "Destroy 5", "Destroy 4"]
        elif k == "empty": cmds.append("NewEmpty %d" % i)
        elif k == "ownS": cmds.append("NewSized %d %d 0" % (i, ds))
        elif k == "ownL": cmds.append("NewSized %d %d 0" % (i, dl))
        elif k == "extS": cmds.append("NewExt %d %d 1" % (i, ds))
        elif k == "extL": cmds.append("NewExt %d %d 2" % (i, dl))
    for i, k in enumerate(kinds):
        if k in ("ownS", "ownL", "extS", "extL"):
            cmds.append("Write %d %d" % (i, 2 if i == 0 else 2 * (i + 1) + 1))
    return cmds


def shape_scripts(edges, ds, dl, keep=lambda i, e: True, flags_of=lambda i, e: 0, robbed=False):
    out = []
    for i, e in enumerate(edges):
        if not keep(i, e):
            continue
        a = dict(e["act"])
        if "ord" in e:     # kinds are listed in the specification's enumeration order of the pool
            pos = {name: i for i, name in enumerate(e["ord"])}
            for fld in ("t", "a", "b"):
                if a[fld] in pos:
                    a[fld] = pos[a[fld]]
        # dimensions in the exported calls refer to the small/large dimension of the exploration (2/3)
        if a["name"] in ("NewSized", "MakeAligned", "NewExt", "Factory") and a["d"] in (2, 3):
            a = dict(a); dd = a["d"]; a["d"] = ds if dd == 2 else dl
            if a["name"] == "Factory":   # indices were chosen relative to the dimension
                if a["op"] == "generator": a["c"] = a["d"] * a["d"] + (a["c"] - dd * dd)
                else: a["c"] = a["d"] + (a["c"] - dd)
        a["flags"] = flags_of(i, e)
        out.append(setup_cmds(e["kinds"], ds, dl, robbed) + [act_to_cmd(a)])
    return out


# ----------------------------------------------------------------------------------------------
# replay of a stored violation (check.py <ID> --replay file)
# ----------------------------------------------------------------------------------------------
def event_to_cmd(ev):
    """inverse of the driver's logging: recorded event -> driver command"""
    n = ev["e"]
    a = {"name": n, "t": ev.get("t", -1), "a": ev.get("a", -1), "b": ev.get("b", -1), "op": ev.get("op", ""), "w": ev.get("w", ""),
         "d": ev.get("d", 0), "e": ev.get("ee", 0), "c": ev.get("c", 0), "arv": ev.get("arv", False), "brv": ev.get("brv", False),
         "fail": ev.get("fail", 0), "flags": ev.get("flags", 0)}
    if n in ("Reset", "End"):
        return None
    return act_to_cmd(a)


def replay(v, path, flavor="plain"):
    """re-execute the call sequences stored in a replay file on the current tree and validate them again"""
    with open(path) as f:
        rp = json.load(f)
    exe = build_driver(flavor)
    scripts = []
    for x in rp.get("violations", []):
        r = x.get("replay") or {}
        seg = r.get("segment")
        if not seg:
            continue
        cmds = []
        for raw in seg:
            ev = json.loads(raw) if isinstance(raw, str) else raw
            c = event_to_cmd(ev)
            if c:
                cmds.append(c)
        if r.get("cmd") and r["cmd"] != "RESET":
            cmds.append(r["cmd"])
        scripts.append(cmds)
    if not scripts:
        raise Infra("replay file holds no call sequence")
    allsegs = []
    for sc in scripts:
        segs, info = run_paths(exe, [sc])
        crash_violation(v, info)
        allsegs += segs
    m, a, rej = validate(allsegs, "replay", nblk=48, batch=50)
    report_rejections(v, rej)
    v.add("states", max(1, m)); v.add("transitions", max(1, m)); v.add("traces_validated_against_impl", a)
    v.sample({"replayed_scripts": scripts[:3]})
    return "model_checking"
