#!/usr/bin/env python3
"""Regenerates DESIGN.md section 16 (seeded changes and which checks catch them) from seeded/*/meta.json."""
import json, glob, os, re
V = os.path.dirname(os.path.dirname(os.path.abspath(__file__)))
rows = []
for d in sorted(glob.glob(V + "/seeded/*/meta.json")):
    m = json.load(open(d)); sid = d.split("/")[-2]
    ch = m.get("checks_run_quick_tier", {})
    caught = [c for c, r in ch.items() if r["verdict"] == "VIOLATION"]
    held = [c for c, r in ch.items() if r["verdict"] == "held"]
    key = ""
    for c in caught[:1]:
        k = ch[c]["keys"][0] if ch[c]["keys"] else ""
        mm = re.search(r"violation \[([^\]]+)\]", k)
        key = mm.group(1) if mm else ""
    summ = m["summary"].split(". ")[0][:150].replace("|", "/")
    need = m["needs_to_manifest"].split(". ")[0][:140].replace("|", "/")
    rows.append("| %s | %s | %s | %s | %s | `%s` |" % (sid, summ, need, ", ".join(caught) or "-", ", ".join(held) or "-", key[:70]))
hdr = "| id | change (first sentence of the author's summary) | needs | caught by (quick tier) | run, not caught | first violation key |\n|---|---|---|---|---|---|\n"
text = hdr + "\n".join(rows) + "\n"
p = V + "/DESIGN.md"; s = open(p).read()
a = s.index("<!-- SEEDED-TABLE-BEGIN -->") + len("<!-- SEEDED-TABLE-BEGIN -->\n"); b = s.index("<!-- SEEDED-TABLE-END -->")
open(p, "w").write(s[:a] + text + s[b:])
print(len(rows), "rows")
