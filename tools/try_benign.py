#!/usr/bin/env python3
"""False-alarm drill: changes to the library that keep every property (and the 24 tests) must be HELD by the checks.
   try_benign.py [name ...]      patches are /verif/benign/<name>.diff; the checks to run for each are listed below.
Scratch worktree of /repo HEAD under /tmp/try, removed afterwards; results in /verif/benign/results.json."""
import json, os, subprocess, sys, tempfile, shutil, time
PLAN = {
    "cache_capacity_64": ["C15", "C08", "C19", "C18"],
    "local_expectation_buffer": ["C05", "C11", "C18"],
    "log_grid_ratio_first": ["C17", "C05"],
    "interpolate_by_difference": ["C05", "C18"],
    "eigen_always_gsl": ["C12", "C18"],
    "equality_by_std_equal": ["C01"],
    "copy_assign_same_storage_shortcut": ["C14", "C08"],
    "ini_assign_nodes": ["C17", "C10"],
}
def main():
    names = sys.argv[1:] or sorted(PLAN)
    out = {}
    resf = "/verif/benign/results.json"
    if os.path.exists(resf):
        out = json.load(open(resf))
    for n in names:
        w = tempfile.mkdtemp(prefix="bn_", dir="/tmp/try"); os.rmdir(w)
        subprocess.run(["git", "-C", "/repo", "worktree", "add", "-q", w, "HEAD"], check=True)
        try:
            shutil.copy("/repo/include/SQuIDS/version.h", w + "/include/SQuIDS/version.h")
            r = subprocess.run(["git", "-C", w, "apply", "/verif/benign/%s.diff" % n], capture_output=True, text=True)
            if r.returncode != 0:
                out[n] = {"error": "patch does not apply"}; continue
            env = dict(os.environ, VERIF_REPO=w, VERIF_NO_EVIDENCE="1")
            res = {}
            for c in PLAN[n]:
                t0 = time.time()
                p = subprocess.run(["python3", "/verif/tools/check.py", c, "--tier", "quick"], capture_output=True, text=True, env=env, cwd="/verif")
                res[c] = {"verdict": {0: "held", 1: "VIOLATION", 2: "infra-error"}.get(p.returncode, str(p.returncode)), "wall_s": round(time.time() - t0, 1),
                          "first": [l.strip()[:300] for l in p.stderr.splitlines() if l.strip().startswith("violation [") or "INFRASTRUCTURE" in l][:2]}
                print(n, c, res[c]["verdict"], res[c]["first"], flush=True)
            out[n] = res
        finally:
            subprocess.run(["git", "-C", "/repo", "worktree", "remove", "--force", w], capture_output=True)
            subprocess.run(["git", "-C", "/repo", "worktree", "prune"])
            json.dump(out, open(resf, "w"), indent=1)
if __name__ == "__main__":
    main()
