"""Machinery of the C19 check (shared block cache): TLC configurations for spec/LFCache.tla,
spec/LFCacheTrace.tla and spec/SeqCache.tla, transition graph + path cover, harness input/output.

A specification state travels as the nested integer tuple StVec of LFCache.tla, as compact JSON text:
  [[freeH.c,freeH.i,dataH.c,dataH.i], nxt[N], dat[N], [[pc,op,lst,orig.c,orig.i,nx,entry,val,res,done] per thread],
   ins, failed, fetched, dupl]
The text is the node key of the transition graph; it is decoded only where needed."""
import json, os, re, collections
import vlib
from vlib import Infra

PCS = ["idle", "popLoad", "popNext", "popCas", "insWrite", "pushLoad", "pushLink", "pushCas", "getRead", "ret"]
PC = {n: i for i, n in enumerate(PCS)}
OPS = ["none", "ins", "get"]
OPC = {"none": 0, "ins": 1, "get": 2}
LSTC = {"none": 0, "free": 1, "data": 2}
ACTION_OF_PC = ["Start", "PopLoad", "PopReadNext", "PopCas", "InsWrite", "PushLoad", "PushLink", "PushCas", "GetRead", "Return"]
ACTIONS = ["AStart", "APopLoad", "APopReadNext", "APopCas", "AInsWrite", "APushLoad", "APushLink", "APushCas",
           "AGetRead", "AReturn"]
INVS = ["TypeOK", "AtMostOnce", "OnlyInserted", "FailedInsertKeeps", "Drain"]
# every action, and every branch of the actions that have branches, must occur in the replayed graphs
REQUIRED_CLASSES = ["Start", "PopLoad.empty", "PopLoad.nonempty", "PopReadNext", "PopCas.ok", "PopCas.spurious",
                    "PopCas.fail", "PopCas.fail-empty", "InsWrite", "PushLoad", "PushLink", "PushCas.ok",
                    "PushCas.spurious", "PushCas.fail", "GetRead", "Return.res0", "Return.value"]

CFG_T = """SPECIFICATION {spec}
CONSTANTS
  N = {n}
  Threads = {threads}
  OpsPerThread = {ops}
  GetReadsAfterPush = {grap}
  Spurious = {spur}
  RecordPath = {rec}
{view}INVARIANTS {invs}
{extra}CHECK_DEADLOCK FALSE
"""


def B(x):
    return "TRUE" if x else "FALSE"


def write_cfg(name, n, nt, ops, grap=False, spur=True, rec=False, emit=None, invs=INVS, view=True, trace=False):
    os.makedirs(vlib.BUILD, exist_ok=True)
    p = os.path.join(vlib.cfgdir(), name + ".cfg")
    extra = ""
    if emit:
        extra += "ACTION_CONSTRAINT %s\n" % emit
    if trace:
        extra += "POSTCONDITION Accepted\n"
    with open(p + ".%d.tmp" % os.getpid(), "w") as f:   # atomic replace: concurrent runs write identical content
        f.write(CFG_T.format(spec="TraceSpec" if trace else "Spec", n=n,
                             threads="{" + ",".join(str(i) for i in range(1, nt + 1)) + "}", ops=ops,
                             grap=B(grap), spur=B(spur), rec=B(rec), view="VIEW View\n" if (view and not trace) else "",
                             invs=" ".join(invs), extra=extra))
    os.replace(p + ".%d.tmp" % os.getpid(), p)
    return p


COV_RE = re.compile(r"^<(\w+) line \d+, col \d+ to line \d+, col \d+ of module LFCache(?: \([\d ]+\))?>: (\d+):(\d+)", re.M)


def action_coverage(out):
    """per-action (distinct, generated) from TLC's -coverage output (vlib's parser does not know the
    '(l c l c)' suffix TLC appends to named sub-actions)"""
    cov = {}
    for m in COV_RE.finditer(out):
        a, b = int(m.group(2)), int(m.group(3))
        o = cov.get(m.group(1), (0, 0))
        cov[m.group(1)] = (max(a, o[0]), max(b, o[1]))
    return cov


# ----------------------------------------------------------------------------------------------
# states
# ----------------------------------------------------------------------------------------------
def dec(key):
    return json.loads(key)


def enc(st):
    return json.dumps(st, separators=(",", ":"))


def vec(st):
    """integer vector for the harness: heads, nxt, dat, thread records (ghost sets are not sent)"""
    v = list(st[0]) + list(st[1]) + list(st[2])
    for t in st[3]:
        v += t
    return v


def from_dump(d):
    """state of a -dumpTrace json counterexample (variables as records) -> StVec form"""
    n = len(d["nxt"])

    def arr(x):
        return list(x) if isinstance(x, list) else [x[str(i)] for i in range(n)]
    th = d["th"]
    if isinstance(th, dict):
        th = [th[k] for k in sorted(th, key=int)]
    return [[d["freeH"]["c"], d["freeH"]["i"], d["dataH"]["c"], d["dataH"]["i"]], arr(d["nxt"]), arr(d["dat"]),
            [[PC[t["pc"]], OPC[t["op"]], LSTC[t["lst"]], t["orig"]["c"], t["orig"]["i"], t["nx"], t["entry"], t["val"],
              t["res"], t["done"]] for t in th],
            sorted(d["ins"]), sorted(d["failed"]), sorted(d["fetched"]), sorted(d["dupl"])]


def head_of(st, lst):
    return st[0][0:2] if lst == 1 else st[0][2:4]


def edge_class(fr, t, to):
    """name the specification action (and its branch) that takes thread t (1-based) from fr to to"""
    a, b = fr[3][t - 1], to[3][t - 1]
    act = ACTION_OF_PC[a[0]]
    op = OPS[a[1] if a[1] else b[1]]
    br = ""
    if act in ("PopCas", "PushCas"):
        h = head_of(fr, a[2])
        if h == a[3:5]:
            br = ".ok" if head_of(to, a[2]) != h else ".spurious"
        else:
            br = ".fail-empty" if b[0] == PC["ret"] else ".fail"
    elif act == "PopLoad":
        br = ".empty" if b[0] == PC["ret"] else ".nonempty"
    elif act == "Return":
        br = ".res0" if a[8] == 0 else ".value"
    return op, act + br


def mover(a, b):
    m = [i + 1 for i in range(len(a[3])) if a[3][i] != b[3][i]]
    if len(m) != 1:
        raise Infra("cannot identify the moving thread between two specification states")
    return m[0]


def is_init(st):
    n = len(st[1])
    return (st[0] == [0, n - 1, 0, n] and all(t[0] == 0 and t[9] == 0 for t in st[3])
            and not st[4] and not st[5] and not st[6])


# ----------------------------------------------------------------------------------------------
# transition graph and path cover
# ----------------------------------------------------------------------------------------------
class Graph:
    def __init__(self, n, nt):
        self.n, self.nt = n, nt
        self.ids = {}
        self.keys = []       # id -> key text
        self.edges = []      # (from, t, spur, to, op, cls)
        self.out = collections.defaultdict(list)
        self.init = None
        self.classes = collections.Counter()

    def sid(self, k):
        i = self.ids.get(k)
        if i is None:
            i = len(self.keys)
            self.ids[k] = i
            self.keys.append(k)
        return i


def parse_edges(out, n, nt):
    """rebuild the transition graph from the lines  "EDGE <t> <from> <to>"  printed by LFCache!Emit"""
    g = Graph(n, nt)
    seen = set()
    for line in out.splitlines():
        if not line.startswith('"EDGE '):
            continue
        try:
            _, t, fk, tk = line.rstrip()[1:-1].split(" ")
            t = int(t)
        except ValueError:
            raise Infra("cannot parse exported transition: %s" % line[:200])
        k = (fk, t, tk)
        if k in seen:
            continue
        seen.add(k)
        u, w = g.sid(fk), g.sid(tk)
        op, cls = edge_class(dec(fk), t, dec(tk))
        g.out[u].append(len(g.edges))
        g.edges.append((u, t, 1 if cls.endswith(".spurious") else 0, w, op, cls))
        g.classes[cls] += 1
    if not g.edges:
        raise Infra("TLC exported no transitions")
    inits = [i for i, k in enumerate(g.keys) if is_init(dec(k))]
    if len(inits) != 1:
        raise Infra("expected exactly one initial state in the exported graph, found %d" % len(inits))
    g.init = inits[0]
    return g


def parse_paths(out):
    """behaviours printed by LFCache!EmitPath in simulation mode: list of [(t, state), ...]"""
    paths = []
    for line in out.splitlines():
        if line.startswith('"PATH '):
            paths.append(json.loads(line.rstrip()[6:-1]))
    return paths


def path_cover(g):
    """paths from the initial state that together contain every edge of g: shortest path to the edge's
    source + the edge, then extended greedily along edges not yet covered"""
    dist = {g.init: 0}
    par = {}
    q = collections.deque([g.init])
    while q:
        u = q.popleft()
        for ei in g.out[u]:
            w = g.edges[ei][3]
            if w not in dist:
                dist[w] = dist[u] + 1
                par[w] = ei
                q.append(w)
    unreachable = [e for e in g.edges if e[0] not in dist]
    if unreachable:
        raise Infra("exported graph has %d edges not reachable from the initial state" % len(unreachable))
    covered = [False] * len(g.edges)
    order = sorted(range(len(g.edges)), key=lambda ei: -dist[g.edges[ei][0]])
    paths = []
    for ei in order:
        if covered[ei]:
            continue
        pre = []
        u = g.edges[ei][0]
        while u != g.init:
            pe = par[u]
            pre.append(pe)
            u = g.edges[pe][0]
        pre.reverse()
        p = pre + [ei]
        for x in p:
            covered[x] = True
        u = g.edges[ei][3]
        while True:
            nx = [x for x in g.out[u] if not covered[x]]
            if not nx:
                break
            x = nx[0]
            covered[x] = True
            p.append(x)
            u = g.edges[x][3]
        paths.append(p)
    if not all(covered):
        raise Infra("path cover incomplete")
    return paths


def harness_text(n, nt, states, paths):
    """states: dict id -> decoded state; paths: list of (pid, init_id, [(t, spur, to_id), ...])"""
    L = ["CFG %d %d" % (n, nt)]
    for i, st in states.items():
        L.append("S %d %s" % (i, " ".join(str(x) for x in vec(st))))
    for pid, init, steps in paths:
        L.append("P %d %d %d %s" % (pid, init, len(steps), " ".join("%d %d %d" % s for s in steps)))
    return "\n".join(L) + "\n"


def graph_paths_text(g, paths):
    used = set([g.init])
    P = []
    for pid, p in enumerate(paths):
        steps = []
        for ei in p:
            u, t, spur, w, op, cls = g.edges[ei]
            steps.append((t, spur, w))
            used.add(w)
        P.append((pid, g.init, steps))
    return harness_text(g.n, g.nt, {i: dec(g.keys[i]) for i in sorted(used)}, P)


def states_to_path(sts):
    """consecutive decoded specification states -> (state table, steps, [(t, op, class)])"""
    tab = {i: s for i, s in enumerate(sts)}
    steps, classes = [], []
    for i in range(1, len(sts)):
        t = mover(sts[i - 1], sts[i])
        op, cls = edge_class(sts[i - 1], t, sts[i])
        steps.append((t, 1 if cls.endswith(".spurious") else 0, i))
        classes.append((t, op, cls))
    return tab, steps, classes


class ReplayResult:
    def __init__(self):
        self.ok = 0
        self.steps = 0
        self.mism = []    # (pid, step, thread, pc_before, field, exp, got)
        self.crashed = None
        self.hist = collections.defaultdict(list)   # pid -> [(t, op, val, res)]


def harness(name="lfcache_replay", defs=()):
    """(re)build on demand and freshen the build directory: vlib's build cache evicts the oldest directories,
    which during a long run of this check can be ours (other checks build concurrently)"""
    exe = vlib.build_harness(name, "plain", link_lib=False, extra_defs=defs)
    try:
        os.utime(os.path.dirname(exe), None)
    except OSError:
        pass
    return exe


def run_replay(exe, text, hist=False, timeout=900):
    exe = harness()
    rc, lines, err = vlib.run_lines(exe, text, args=["replay"] + (["hist"] if hist else []), timeout=timeout)
    r = ReplayResult()
    done = None
    for l in lines:
        p = l.split()
        if not p:
            continue
        if p[0] == "OK":
            r.ok += 1
        elif p[0] == "MISMATCH":
            # MISMATCH pid step thread pc-before  <thread|0> field exp got
            r.mism.append((int(p[1]), int(p[2]), int(p[3]), p[4], p[6], p[7], p[8]))
        elif p[0] == "HIST":
            r.hist[int(p[1])].append((int(p[2]), p[3], int(p[4]), int(p[5])))
        elif p[0] == "DONE":
            done = p
    if isinstance(rc, int) and rc < 0:
        r.crashed = (rc, err[-600:], len(lines))       # the real code died while replaying specification behaviours
        r.steps = 0
        return r
    if rc != 0 or done is None:
        raise Infra("lfcache_replay failed rc=%s: %s %s" % (rc, "\n".join(lines[-5:]), err[-2000:]))
    r.steps = int(done[2])
    if int(done[1]) != r.ok + len(r.mism):
        raise Infra("lfcache_replay: path accounting does not add up: %s" % done)
    return r


def load_counterexample(path):
    with open(path) as f:
        d = json.load(f)
    return [from_dump(s[1]) for s in d["counterexample"]["state"]]


def show(st):
    """readable rendering of a decoded state for samples / messages"""
    return {"free": st[0][0:2], "data": st[0][2:4], "nxt": st[1], "dat": st[2],
            "threads": [{"pc": PCS[t[0]], "op": OPS[t[1]], "orig": t[3:5], "nx": t[5], "entry": t[6], "val": t[7],
                         "res": t[8], "done": t[9]} for t in st[3]],
            "ins": st[4], "failed": st[5], "fetched": st[6], "dupl": st[7]}
