#!/usr/bin/env python3
"""Development aid: run checks against a seeded change without touching /repo.
   try_seeded.py <patch.diff> <ID> [<ID> ...] [--tier quick]   -> prints which checks report a VIOLATION
A scratch worktree of /repo's HEAD is created under /tmp/try, the patch applied, the checks run with VERIF_REPO pointing
at it (evidence files are not overwritten), and the worktree removed."""
import os, subprocess, sys, tempfile, shutil

def main():
    args = [a for a in sys.argv[1:] if not a.startswith("--")]
    tier = "quick"
    if "--tier" in sys.argv:
        tier = sys.argv[sys.argv.index("--tier") + 1]
        args = [a for a in args if a != tier]
    patch = os.path.abspath(args[0]); ids = args[1:]
    os.makedirs("/tmp/try", exist_ok=True)
    d = tempfile.mkdtemp(prefix="wt_", dir="/tmp/try")
    os.rmdir(d)
    subprocess.run(["git", "-C", "/repo", "worktree", "add", "-q", d, "HEAD"], check=True)
    try:
        shutil.copy("/repo/include/SQuIDS/version.h", d + "/include/SQuIDS/version.h")
        r = subprocess.run(["git", "-C", d, "apply", patch], capture_output=True, text=True)
        if r.returncode != 0:
            print("PATCH DOES NOT APPLY:", r.stderr); return 2
        env = dict(os.environ, VERIF_REPO=d, VERIF_NO_EVIDENCE="1")
        out = {}
        for pid in ids:
            p = subprocess.run(["python3", "/verif/tools/check.py", pid, "--tier", tier], capture_output=True, text=True, env=env, cwd="/verif")
            verdict = {0: "held", 1: "VIOLATION", 2: "infra-error"}.get(p.returncode, str(p.returncode))
            keys = [l.strip() for l in p.stderr.splitlines() if l.strip().startswith("violation [")][:4]
            out[pid] = verdict
            print(pid, verdict, keys[:3] if verdict == "VIOLATION" else (p.stderr[-400:] if verdict == "infra-error" else ""))
        return 0
    finally:
        subprocess.run(["git", "-C", "/repo", "worktree", "remove", "--force", d])
        subprocess.run(["git", "-C", "/repo", "worktree", "prune"])

sys.exit(main())
