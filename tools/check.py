#!/usr/bin/env python3
"""Entry point:  python3 tools/check.py <ID> --tier quick|thorough [--replay <file>]

Dispatches to tools/props/<id>.py : run(v, tier, seed, replay) -> level string.
Exit 0 = held (known findings listed), 1 = VIOLATION line printed, 2 = infrastructure error.
"""
import argparse, importlib, os, sys, traceback

sys.path.insert(0, os.path.dirname(os.path.abspath(__file__)))
import vlib


def main():
    ap = argparse.ArgumentParser()
    ap.add_argument("pid")
    ap.add_argument("--tier", default=os.environ.get("VERIF_TIER", "quick"), choices=["quick", "thorough"])
    ap.add_argument("--replay", default=None)
    a = ap.parse_args()
    seed = int(os.environ.get("VERIF_SEED", "20261002") or 20261002)
    pid = a.pid.upper()
    os.chdir(vlib.VERIF)
    try:
        mod = importlib.import_module("props." + pid.lower())
    except ImportError as ex:
        print("no check for %s: %s" % (pid, ex), file=sys.stderr)
        sys.exit(2)
    tier = a.tier
    replay = a.replay
    if replay and not getattr(mod, "REPLAYS_CASES", True) is False and pid in ("C04", "C10", "C18"):
        # these checks re-run the recorded configuration (seed and tier of the failing run) instead of single cases
        import json as _j
        with open(replay) as f:
            rp = _j.load(f)
        seed = int(rp.get("seed", seed)); tier = rp.get("tier", tier); replay = None
    v = vlib.Verdict(pid, tier, seed)
    v.write_evidence = a.replay is None      # a replay run does not replace the evidence of the last full run
    try:
        level = mod.run(v, tier, seed, replay)
    except vlib.Infra as ex:
        print("INFRASTRUCTURE ERROR (%s): %s" % (pid, ex), file=sys.stderr)
        sys.exit(2)
    except Exception:
        traceback.print_exc()
        print("INFRASTRUCTURE ERROR (%s): unexpected exception in the check driver" % pid, file=sys.stderr)
        sys.exit(2)
    rc = v.finish(level)
    print("%s %s tier=%s wall=%.1fs violations=%d known=%d" % (
        pid, "HELD" if rc == 0 else "VIOLATED", tier, __import__("time").time() - v.t0, len(v.violations), len(v.known_hit)))
    sys.exit(rc)


if __name__ == "__main__":
    main()
