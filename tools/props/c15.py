"""C15 no operation history leaks, double-frees or touches memory it does not own.

The heap model is module SUVec (HeapSound, NoLeak, UniqueOwner on every reachable state of the exhaustive exploration).
Binding: the explored (state, call) pairs and seeded random histories - including calls that end in a library
exception (unsupported sizes, mismatches, resize of user storage) - are executed on the real library built with
AddressSanitizer + UBSan (alignment incl. assume_aligned, bounds, unreachable, null, ...); the new[]/delete[] ledger
and the cache hooks are recorded per call and validated by TLC against the specification's heap (every block released
exactly once; nothing left at quiescence); a sanitizer report is a violation."""
import json
import vlib, suvec
from vlib import Infra


def run(v, tier, seed, replay):
    if replay:
        return suvec.replay(v, replay, "asan")
    exe = suvec.build_driver("asan")
    ops = ("add", "neg", "icomm")
    cfg = suvec.bfs_cfg("C15_bfs", vecs=3, dims=(2, 3), exts=(1,), maxops=3 if tier == "quick" else 4, ops=ops, nblk=7)
    r = vlib.tlc("SUVec", cfg, timeout=3000)
    vlib.tlc_ok(r, "C15 exploration")
    if r.violated:
        raise Infra("SUVec violates %s (model defect):\n%s" % (r.violated, r.out[-3000:]))
    v.add("states", r.distinct)
    v.add("transitions", r.generated)
    paths, npairs, nstates = suvec.path_cover(r.edges)
    v.cov["state_call_pairs"] = npairs
    segs, info = suvec.run_paths(exe, paths)
    suvec.crash_violation(v, info)
    nseg, ln = (30, 150) if tier == "quick" else (200, 300)
    allr = []
    calls = 0
    for part in range(4):
        rsegs, rinfo = suvec.random_segments(exe, seed * 7 + part, nseg // 4 + 1, ln, guards=True)
        # a sanitizer report ends that driver; the other parts still run
        suvec.crash_violation(v, rinfo, "random/")
        allr += rsegs
        calls += rinfo["calls"]
    v.cov["random_calls"] = calls
    m, a, rej = suvec.validate(segs, "c15p", nblk=12, batch=max(100, len(segs) // 16 + 1), jobs=12)
    m2, a2, rej2 = suvec.validate(allr, "c15r", nblk=48, batch=max(2, len(allr) // 12 + 1), jobs=12)
    suvec.report_rejections(v, rej)
    suvec.report_rejections(v, rej2, "random/")
    v.add("traces_validated_against_impl", a + a2)
    v.add("events_validated", m + m2)
    # expression statements that take over an rvalue operand's storage (steal paths), from prepared pools, under ASan
    import hashlib
    cfgs = suvec.bfs_cfg("C15_shape", vecs=3, dims=(2, 3), exts=(1, 2), maxops=2, ops=("add", "neg", "elementwise", "smul"), next_op="SpecShape",
                         props=("WriteFrame", "ExternalStable", "FailureFrame"))
    rs = vlib.tlc("SUVec", cfgs, timeout=2400)
    vlib.tlc_ok(rs, "C15 shape exploration")
    if rs.violated:
        raise Infra("SUVec violates %s in the shape exploration (model defect)" % rs.violated)
    rv = [e for e in rs.edges if e["act"]["arv"] or e["act"]["brv"]]
    shsegs = []
    for (ds, dl), mod in ([((2, 3), 6), ((2, 4), 12), ((3, 5), 12), ((4, 5), 16)] if tier == "quick" else [((2, 3), 1), ((2, 4), 2), ((3, 5), 2), ((4, 6), 3), ((4, 5), 3)]):
        keep = lambda i, e: int(hashlib.md5(("%d|%d|%d|%s" % (seed, ds, dl, json.dumps(e["act"], sort_keys=True) + json.dumps(e["kinds"]))).encode()).hexdigest()[:6], 16) % mod == 0
        scripts = suvec.shape_scripts(rv, ds, dl, keep)
        sg, inf = suvec.run_paths(exe, scripts)
        guard = 0
        while inf.get("crashed") and guard < 20:
            guard += 1
            suvec.crash_violation(v, inf, "shape/d%d%d/" % (ds, dl))
            shsegs += sg
            scripts = scripts[len(sg) + 1:]
            sg, inf = suvec.run_paths(exe, scripts)
        shsegs += sg
    m3, a3, rej3 = suvec.validate(shsegs, "c15s", nblk=12, batch=max(100, len(shsegs) // 16 + 1), jobs=12)
    suvec.report_rejections(v, rej3, "shape/")
    v.add("traces_validated_against_impl", a3)
    v.add("events_validated", m3)
    v.cov["rvalue_statements_under_asan"] = len(shsegs)
    # solver objects: random histories (construct, re-initialise, evolve in all stepper modes, toggle, move-construct,
    # move-assign, destroy) under ASan + LeakSanitizer; the protocol itself is validated by C10
    import random as _r, solver
    sexe = vlib.build_harness("solver_drive", "asan")
    rng = _r.Random(seed + 5)
    nsolver = 12 if tier == "quick" else 80
    for hi in range(nsolver):
        cmds = ["QUIET 1"] + solver.random_history(rng, 12)
        cmds = [("STEPPER %s %s 0 60" % tuple(c.split()[1:3])) if (c.startswith("STEPPER") and c.split()[3] == "0") else c for c in cmds]
        cmds = [("TOL %s 1e-2 1e-2" % c.split()[1]) if c.startswith("TOL") else c for c in cmds]
        p = vlib.sh([sexe], stdin="\n".join(cmds) + "\n", timeout=600, env={"ASAN_OPTIONS": "detect_leaks=1:exitcode=77", "UBSAN_OPTIONS": "halt_on_error=1:exitcode=78:print_stacktrace=1"})
        if p.returncode != 0 or "ERROR: AddressSanitizer" in p.stderr or "ERROR: LeakSanitizer" in p.stderr or "runtime error:" in p.stderr:
            kind = "leak" if "LeakSanitizer" in p.stderr else ("undefined-behaviour" if "runtime error:" in p.stderr else "memory-error")
            v.violation("solver/%s" % kind, "solver history under ASan rc=%s: %s" % (p.returncode, p.stderr[-1200:]), {"script": cmds})
    # solver objects of every dimension in one process, smallest first and largest first, each evolved and queried through every
    # query overload (scratch space sized on first use, per process or per thread, must fit whoever comes later)
    for order in ([2, 3, 4, 5, 6], [6, 5, 4, 3, 2], [2, 6, 3, 5, 4]):
        cmds = ["QUIET 1"]
        for d_ in order:
            cmds += ["NEW 1 2 %d 2 1 0" % d_, "CFG 1 grid 1", "STEPPER 1 rkf45 1 400", "TOL 1 1e-3 1e-3", "SW 1 1 1", "QUERY 1", "EVOLVE 1 2", "QUERY 1",
                     "INI 1 3 %d 1 2 8" % (8 - d_), "CFG 1 grid 2", "QUERY 1", "DESTROY 1"]
        p = vlib.sh([sexe], stdin="\n".join(cmds) + "\n", timeout=600, env={"ASAN_OPTIONS": "detect_leaks=1:exitcode=77", "UBSAN_OPTIONS": "halt_on_error=1:exitcode=78:print_stacktrace=1"})
        if p.returncode != 0 or "ERROR: AddressSanitizer" in p.stderr or "ERROR: LeakSanitizer" in p.stderr or "runtime error:" in p.stderr:
            kind = "leak" if "LeakSanitizer" in p.stderr else ("undefined-behaviour" if "runtime error:" in p.stderr else "memory-error")
            first = [l.strip() for l in p.stderr.splitlines() if "ERROR:" in l or "runtime error" in l][:1]
            v.violation("solver/queries/%s" % kind, "solver objects of dimensions %s evolved and queried in one process under ASan: rc=%s %s %s" % (order, p.returncode, first, p.stderr[-700:]), {"script": cmds})
    v.cov["solver_histories_under_asan"] = nsolver
    # executions nobody scripted here: the repository's own 24 test programs rebuilt with hooks, heap events validated by TLC (HeapTrace)
    import repotests
    nval, nev = repotests.run(v, max_events=8000 if tier == "quick" else 150000)
    v.add("traces_validated_against_impl", nval)
    v.add("events_validated", nev)
    # programs whose threads END: "when every object has been destroyed and the block cache emptied" includes the cache of a worker
    # thread, which only the end of that thread empties (module Threads, DrainOnExit).  One recorded run of real threads using vectors,
    # thread-local scratch objects of the library and solver queries; heap / hand-over / exit events validated by ThreadsTrace.
    from props import c18 as _c18
    tev = ttr = 0
    for n_, rounds_ in ([(2, 3)] if tier == "quick" else [(2, 4), (4, 4)]):
        e_, t_ = _c18.thread_lifetime_accounting(v, n_, rounds_, seed)
        tev += e_; ttr += t_
    v.add("traces_validated_against_impl", ttr)
    v.add("events_validated", tev)
    v.cov["thread_lifetime_events_validated"] = tev
    thrown = sum(1 for s in allr for y in s if '"out":"rt"' in y)
    v.cov["calls_ending_in_library_exception"] = thrown
    if thrown < 10:
        raise Infra("vacuity: almost no throwing call in the random histories (%d)" % thrown)
    for s in allr[:1]:
        v.sample({"calls": [{k: x for k, x in json.loads(y).items() if k in ("e", "t", "a", "b", "op", "w", "d", "c", "arv", "brv", "out", "hev")} for y in s][:25]})
    v.cov["rule"] = "path cover of all histories <= %d calls (3 vectors) + %d random histories x %d calls (6 vectors, dims 2..6, bad arguments mixed in), ASan+UBSan build, ledger/cache events validated by TLC, quiescence = empty ledger" % (3 if tier == "quick" else 4, len(allr), ln)
    v.assumptions.append("solver object histories run under ASan+LeakSanitizer (sanitizer-observed); their protocol is validated against Solver.tla by C10")
    v.assumptions.append("operations whose documented precondition is violated (operator[] out of range, false guarantee flags, undersized user buffers, arithmetic on empty operands) are outside the alphabet")
    return "model_checking"
