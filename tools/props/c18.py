"""C18 independent use from several threads is race free and gives sequential results.

(1) Design: TLC explores module Threads (per-thread caches, shared heap, hand-over channel, thread exit) for all
    interleavings of 2-3 threads: RaceFree, HeapSoundT, NoBlockInDeadCache; with DrainOnExit = FALSE (the cache without
    a drain at thread end, as the code was written) TLC exhibits blocks left in a dead thread's cache.
(2) Binding B: real threads (vector algebra, matrix exponentials, cross-thread hand-over through a locked queue, const
    queries on one shared frozen solver): the linearised heap/hand-over/exit events are validated by TLC
    (ThreadsTrace); every result is compared with the single-thread execution of the same per-thread programs
    (bit-identical for algebra and expectation values, 1e-9 for matrix exponentials); the same programs built with
    ThreadSanitizer and without any recording must run silently."""
import json, os
import vlib
from vlib import Infra


def tcfg(name, nblk=2400):
    p = os.path.join(vlib.cfgdir(), name + ".cfg")
    with open(p, "w") as f:
        f.write("SPECIFICATION TSpec\nCONSTANTS\n  Threads = {1,2,3,4,5,6,7,8,9,10,11,12}\n  NBlk = %d\n" % nblk + "  Cap = 224\n  MaxOps = 0\n  NRes = 16\n  SharedScratch = FALSE\n  DrainOnExit = TRUE\n"
                "INVARIANTS RaceFree HeapSoundT\nPOSTCONDITION Accepted\nCHECK_DEADLOCK FALSE\n")
    return p


def thread_lifetime_accounting(v, n, rounds, sd, prefix="threads-end"):
    """one recorded run of real threads that end (plain build): the heap / hand-over / exit events are validated against module
    Threads with DrainOnExit - a block left in the cache of a thread that has ended is never released.  Used by C15 as well.
    Returns (events validated, 1 if accepted else 0)."""
    exe = vlib.build_harness("threads_drive", "plain")
    args = [str(n), str(rounds), str(sd % 100000)]
    p = vlib.sh([exe, "trace"] + args, timeout=300)
    lines = p.stdout.splitlines()
    if p.returncode == 3:
        raise Infra("thread driver ran out of its own resources: %s" % p.stderr[-300:])
    if p.returncode != 0 or "DONE" not in lines:
        v.violation("%s/crash/n=%d" % (prefix, n), "threaded run died rc=%s: %s" % (p.returncode, p.stderr[-800:]), {"args": args})
        return 0, 0
    ev = [l for l in lines if l.startswith("{")]
    path = os.path.join(vlib.BUILD, "thtrace_lt_%d_%d_%d.ndjson" % (n, sd % 100000, os.getpid()))
    with open(path, "w") as f:
        f.write("\n".join(ev) + "\n")
    maxb = max([json.loads(x).get("b", 0) for x in ev if '"b":' in x] + [8])
    r = vlib.tlc("ThreadsTrace", tcfg("ThreadsTrace_lt_%d" % os.getpid(), maxb + 2), workers=1, timeout=900, env={"TRACE": path}, coverage=False, xmx="4g")
    os.remove(path)
    if not (("Postcondition Accepted" in r.out and "is false" in r.out) or r.violated or r.error):
        return len(ev), 1
    k = max(0, r.depth - (2 if r.violated else 1))
    e = json.loads(ev[k]) if k < len(ev) else {}
    key = ("%s/exit/left-in-cache" % prefix if e.get("e") == "Exit" else "%s/heap/%s" % (prefix, e.get("e", "?")))
    v.violation(key, "n=%d seed=%d event %d not explained by Threads: %s (%s)" % (n, sd, k, json.dumps(e)[:300], r.violated or "no matching step"), {"args": args, "event": e})
    return 0, 0


def run(v, tier, seed, replay):
    for cfg in (["Threads_bfs.cfg"] if tier == "quick" else ["Threads_bfs.cfg", "Threads_bfs3.cfg"]):
        r = vlib.tlc("Threads", cfg, timeout=1800)
        vlib.tlc_ok(r, cfg)
        if r.violated:
            raise Infra("Threads violates %s (model defect)" % r.violated)
        v.add("states", r.distinct); v.add("transitions", r.generated)
    for cfg in ["Threads_scratch.cfg"]:
        r = vlib.tlc("Threads", cfg, timeout=900)
        vlib.tlc_ok(r, cfg)
        if r.violated:
            raise Infra("Threads (scratch objects) violates %s (model defect)" % r.violated)
        v.add("states", r.distinct); v.add("transitions", r.generated)
    rs = vlib.tlc("Threads", "Threads_sharedscratch.cfg", timeout=600)
    vlib.tlc_ok(rs, "Threads with one shared scratch object")
    if rs.violated != "RaceFree":
        raise Infra("vacuity: a scratch object shared by all threads no longer violates RaceFree in the specification")
    v.cov["design_counterexample_shared_scratch_object"] = "TLC: RaceFree violated at depth %d" % rs.depth
    r0 = vlib.tlc("Threads", "Threads_ascoded.cfg", timeout=600)
    vlib.tlc_ok(r0, "Threads as coded")
    v.cov["design_counterexample_without_drain_at_thread_exit"] = ("TLC: %s violated at depth %d" % (r0.violated, r0.depth)) if r0.violated else "NOT FOUND"
    if not r0.violated:
        raise Infra("vacuity: the specification without draining no longer violates NoBlockInDeadCache")
    if tier == "thorough":
        # unbounded: the conjunction of the requirements (with an auxiliary clause) is an inductive invariant of the typed
        # transcription ThreadsInd (Apalache; 3 threads, 4 blocks, cache capacity 2, 3 scratch objects, any number of steps)
        vlib.apalache_inductive("ThreadsInd")
    v.cov["inductive_invariant_apalache"] = "Init => IndInv and IndInv /\\ Next => IndInv' (ThreadsInd.tla: RaceFree, HeapSoundT, NoBlockInDeadCache, ScratchPerThread + Aux), unbounded in the number of steps"
    exe = vlib.build_harness("threads_drive", "plain")
    exe_tsan = vlib.build_harness("threads_drive", "tsan", extra_flags=["-DVERIF_NO_LEDGER"])
    plans = [(2, 4), (4, 4)] if tier == "quick" else [(2, 6), (3, 6), (4, 6), (6, 5), (8, 5)]
    seeds = [seed] if tier == "quick" else [seed + k for k in range(4)]
    ntr = 0; nev = 0; nres = 0
    for n, rounds in plans:
        for sd in seeds:
            args = [str(n), str(rounds), str(sd % 100000)]
            pr = vlib.sh([exe, "ref"] + args, timeout=300)
            ref = sorted(l for l in pr.stdout.splitlines() if l.startswith("RES"))
            if pr.returncode != 0 or not ref:
                raise Infra("reference run failed: " + pr.stderr[-500:])

            def one_run():
                p = vlib.sh([exe, "trace"] + args, timeout=300)
                lines = p.stdout.splitlines()
                if p.returncode != 0 or "DONE" not in lines:
                    return None, None, p
                return [l for l in lines if l.startswith("{")], sorted(l for l in lines if l.startswith("RES")), p
            ev, res, p = one_run()
            if ev is None and p.returncode == 3:
                raise Infra("thread driver ran out of its own resources: %s" % p.stderr[-300:])
            if ev is None:
                v.violation("threads/crash/n=%d" % n, "threaded run died rc=%s: %s" % (p.returncode, p.stderr[-800:]), {"args": args})
                continue
            # results: sequential equivalence
            bad = []
            for a, b in zip(res, ref):
                if a == b:
                    continue
                pa, pb = a.split(), b.split()
                if pa[:4] == pb[:4] and pa[3] == "exp" and len(pa) == 6:
                    if all(abs(float(x) - float(y)) <= 1e-9 * max(1.0, abs(float(y))) for x, y in zip(pa[4:], pb[4:])):
                        continue
                bad.append((a, b))
            nres += len(res)
            if bad or len(res) != len(ref):
                # a rejection must repeat
                ev2, res2, p2 = one_run()
                if res2 is not None and any(a != b for a, b in zip(res2, ref)):
                    kind = bad[0][0].split()[3] if bad else "count"
                    v.violation("threads/result/%s" % kind, "n=%d seed=%d: threaded result differs from the single-thread run: %s" % (n, sd, bad[:2]), {"args": args, "diff": bad[:10]})
            # the same programs with no recording at all (nothing serialises the threads), the all-entry-points block repeated:
            # every result must equal the single-thread run's (scratch space shared between threads shows as wrong values)
            reps = "4" if tier == "quick" else "12"
            pr3 = vlib.sh([exe, "ref"] + args + [reps], timeout=600)
            ref3 = sorted(l for l in pr3.stdout.splitlines() if l.startswith("RES"))
            for attempt in range(2 if tier == "quick" else 4):
                pf = vlib.sh([exe, "race"] + args + [reps], timeout=600)
                got3 = sorted(l for l in pf.stdout.splitlines() if l.startswith("RES"))
                if pf.returncode != 0 or "DONE" not in pf.stdout:
                    v.violation("threads/crash/free-running/n=%d" % n, "free-running threaded run died rc=%s: %s" % (pf.returncode, pf.stderr[-600:]), {"args": args + [reps]})
                    break
                bad3 = []
                for a, b in zip(got3, ref3):
                    if a == b:
                        continue
                    pa, pb = a.split(), b.split()
                    if pa[:4] == pb[:4] and pa[3] == "exp" and len(pa) == 6 and all(abs(float(x) - float(y)) <= 1e-9 * max(1.0, abs(float(y))) for x, y in zip(pa[4:], pb[4:])):
                        continue
                    bad3.append((a, b))
                nres += len(got3)
                if bad3 or len(got3) != len(ref3):
                    kind = bad3[0][0].split()[3] if bad3 else "count"
                    v.violation("threads/result/free-running/%s" % kind, "n=%d seed=%d: %d results of the free-running threaded run differ from the single-thread run: %s" % (n, sd, len(bad3), bad3[:2]), {"args": args + [reps], "diff": bad3[:10]})
                    break
            # trace validation
            path = os.path.join(vlib.BUILD, "thtrace_%d_%d_%d.ndjson" % (n, sd % 100000, os.getpid()))
            with open(path, "w") as f:
                f.write("\n".join(ev) + "\n")
            maxb = max([json.loads(x).get("b", 0) for x in ev if '"b":' in x] + [8])      # block ids are handed out smallest-free-first
            r = vlib.tlc("ThreadsTrace", tcfg("ThreadsTrace_run_%d" % os.getpid(), maxb + 2), workers=1, timeout=900, env={"TRACE": path}, coverage=False, xmx="4g")
            os.remove(path)
            ok = not (("Postcondition Accepted" in r.out and "is false" in r.out) or r.violated or r.error)
            if ok:
                ntr += 1; nev += len(ev)
            else:
                k = max(0, r.depth - (2 if r.violated else 1))      # an invariant fails in the state AFTER the event; a missing step AT the event
                e = json.loads(ev[k]) if k < len(ev) else {}
                key = ("threads/exit/left-in-cache" if e.get("e") == "Exit" else
                       "threads/race/%s" % e.get("e", "?") if r.violated == "RaceFree" else "threads/heap/%s" % e.get("e", "?"))
                v.violation(key, "n=%d seed=%d event %d not explained by Threads: %s (%s)" % (n, sd, k, json.dumps(e)[:300], r.violated or "no matching step"), {"args": args, "event": e})
            if len(v.cov["samples"]) < 2:
                v.sample({"threads": n, "rounds": rounds, "events": len(ev), "first_events": [json.loads(x) for x in ev[:6]], "results": res[:3]})
            # ThreadSanitizer, no recording
            pt = vlib.sh([exe_tsan, "race"] + args, timeout=600, env={"TSAN_OPTIONS": "halt_on_error=0:exitcode=66:report_signal_unsafe=0"})
            if "WARNING: ThreadSanitizer" in pt.stderr or pt.returncode == 66:
                # must repeat
                pt2 = vlib.sh([exe_tsan, "race"] + args, timeout=600, env={"TSAN_OPTIONS": "halt_on_error=0:exitcode=66:report_signal_unsafe=0"})
                if "WARNING: ThreadSanitizer" in pt2.stderr or pt2.returncode == 66:
                    first = [l for l in pt.stderr.splitlines() if "WARNING: ThreadSanitizer" in l][:1]
                    where = [l.strip() for l in pt.stderr.splitlines() if l.strip().startswith("#0") or l.strip().startswith("#1")][:4]
                    v.violation("threads/tsan/%s" % (first[0].split("ThreadSanitizer:")[1].split("(")[0].strip().replace(" ", "-") if first else "report"),
                                "n=%d seed=%d ThreadSanitizer: %s %s" % (n, sd, first, where), {"args": args, "stderr": pt.stderr[-3000:]})
            elif pt.returncode != 0:
                raise Infra("TSan run failed rc=%s: %s" % (pt.returncode, pt.stderr[-500:]))
    v.add("traces_validated_against_impl", ntr)
    v.cov["events_validated"] = nev
    v.cov["results_compared_with_single_thread_run"] = nres
    v.cov["rule"] = "TLC: all interleavings of 2 (thorough: 3) threads up to the bound; real runs: %s (threads, rounds) x %d seed(s), each: trace validated, results vs single-thread reference, TSan build silent" % (plans, len(seeds))
    v.assumptions.append("the trace run serialises its own event log with a mutex (a valid linearisation because caches are thread-local and hand-over is ordered by the queue lock); races are judged by the separate TSan run that records nothing")
    v.assumptions.append("libgsl itself is not TSan-instrumented")
    return "model_checking"
