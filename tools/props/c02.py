"""C02 commutator / anticommutator / scalar product: all ordered generator pairs + integer patterns, exact results."""
import algebra


def run(v, tier, seed, replay):
    if replay:
        return algebra.replay(v, replay, 512)
    ops = ["icom", "acom", "trace"]
    npat = 3 if tier == "quick" else 8
    algebra.explore_and_replay(v, "C02", [dict(dims=[2, 3, 4, 5, 6], ops=ops, invs=["LawBilinear"], npat=npat)], tolf=512)
    v.cov["exhaustive"] = True
    v.cov["rule"] = "all (d^2+NPat)^2 ordered operand pairs per dimension d=2..6 (every generator pair, plus dense integer patterns and generator/pattern pairs) x {iCommutator, ACommutator, scalar product}; full result vector compared two-sided"
    v.assumptions.append("bilinearity beyond the enumerated integer patterns follows from the kernels being sums of coeff*a[i]*b[j] (every coefficient is pinned by the generator pairs)")
    return "model_checking"
