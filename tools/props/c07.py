"""C07 Pade matrix exponential / UTransform(V, i s).

1. TLC explores spec/ExpFamilies.tla in the catalogue configuration: every member of the exact families (diagonal, normal
   dense, nilpotent dense, shifted nilpotent; lattice spectra m ln2 + i k pi/4, dyadic scales) with the laws
   exp(A)exp(-A)=I, exp(A)^2=exp(2A), unitarity for anti-Hermitian members, the UTransform laws; every case is exported with
   its exact pieces and exact exponential.
2. harness/expm_replay executes every case on a fresh thread on the real matrix_exponential (and UTransform for the
   anti-Hermitian members), compares with the exact value and records the branch (m, s) reported by the hook.
3. TLC explores the call-sequence configuration: state = dimensions of the thread-local scratch holder groups (updated
   from the branch depth observed in step 2) x last case; every (scratch state, case) transition is exported with the
   witness call sequence that reaches it (history variable hist), and every sequence is replayed on one thread.
The check fails its own coverage obligation (exit 2) when a branch (n, m, s=0 / s>0) was never taken.
"""
import os, json, zlib
from concurrent.futures import ThreadPoolExecutor
import vlib
from vlib import Infra

CFG_T = """SPECIFICATION Spec
CONSTANTS
  Dims = {dims}
  MaxLen = {maxlen}
  WithValues = {withvalues}
  Tier = {tier}
  CaseSel = {casesel}
  Band3 = {b3}
  Band5 = {b5}
  Band7 = {b7}
  Band9 = {b9}
  Band13 = {b13}
VIEW View
INVARIANTS TypeOK {invs}
ACTION_CONSTRAINT Emit
CHECK_DEADLOCK FALSE
"""
LAWS = "LawHistoryFree LawUnitaryU LawNilpotent LawInverse LawAntiHerm LawSpectral LawUTransform"
CLASSES = ["diag", "pade3", "pade5", "pade7", "pade9", "pade13", "pade13sq"]
FAMNAME = {1: "diag", 2: "normal", 3: "nilpotent", 4: "shifted"}


def tset(xs):
    return "{" + ",".join(str(x) for x in sorted(xs)) + "}"


def write_cfg(name, **kw):
    os.makedirs(vlib.BUILD, exist_ok=True)
    p = os.path.join(vlib.cfgdir(), name + ".cfg")
    with open(p, "w") as f:
        f.write(CFG_T.format(**kw))
    return p


def flat5(m):
    return " ".join(" ".join(str(x) for x in e) for e in m)


def flati(m):
    return " ".join(" ".join(str(x) for x in row) for row in m)


def case_line(e):
    n = e["n"]
    parts = ["CASE", e["id"], e["f"], n, e["sa"], e["sn"], 1 if e["anti"] else 0, 1 if e["lat"] else 0,
             " ".join(str(x) for x in e["m"]), " ".join(str(x) for x in e["k"]),
             flat5(e["U"]), flat5(e["AL"]), flat5(e["AP"]), flati(e["AN"]),
             " ".join(flati(p) for p in e["NP"]), flat5(e["B"])]
    parts += [1, flat5(e["E"])] if e["E"] else [0]
    parts += [1, flat5(e["UT"])] if e["UT"] else [0]
    return " ".join(str(x) for x in parts)


def cls_of(m, s):
    if m == 0:
        return "diag"
    if m == 13:
        return "pade13sq" if s > 0 else "pade13"
    return "pade%d" % m


def run_replay(exe, case_lines, seqs, nproc, timeout):
    """seqs: list of (idx, [tokens]); split over processes (each sequence runs on its own fresh thread anyway)"""
    chunks = [[] for _ in range(max(1, min(nproc, len(seqs))))]
    for i, s in enumerate(seqs):
        chunks[i % len(chunks)].append(s)
    head = "\n".join(case_lines) + "\n"

    def one(ch):
        text = head + "\n".join("SEQ %d %d %s" % (i, len(t), " ".join(t)) for i, t in ch) + "\n"
        rc, lines, err = vlib.run_lines(exe, text, args=["1000"], timeout=timeout)
        done = [l for l in lines if l.startswith("DONE")]
        if isinstance(rc, int) and rc < 0 and not any(l.startswith("BADINPUT") for l in lines):
            # the replayer died inside the library (assertion, signal): never on a sound tree; what was reported before still counts
            return [l for l in lines if l.startswith("FAIL")] + ["CRASH %d %s" % (-rc, err[-400:].replace("\n", " "))]
        if rc != 0 or not done or any(l.startswith("BADINPUT") for l in lines):
            raise Infra("expm_replay failed rc=%s: %s %s" % (rc, "\n".join(lines[-5:]), err[-2000:]))
        if int(done[0].split()[1]) != len(ch):
            raise Infra("expm_replay consumed %s of %d sequences" % (done[0].split()[1], len(ch)))
        return lines

    with ThreadPoolExecutor(max_workers=len(chunks)) as ex:
        outs = list(ex.map(one, chunks))
    return [l for o in outs for l in o]


def fail_key(how, cls, case):
    # Exp/<failure class>/<branch>/n=<n> ; throw before any branch was chosen: Exp/throw/nobranch/n=2
    act = "Exp" if how == "direct" else "UTransform"
    return "%s/%s/n=%d" % (act, cls, case["n"])


def report(v, lines, cases, seqs_by_idx):
    for l in lines:
        if l.startswith("FAIL"):
            head, text = l.split(" : ", 1)
            _, seq, pos, cid, how, cls, err, tol, m, s = head.split()
            c = cases[int(cid)]
            toks = seqs_by_idx[int(seq)]
            v.violation(fail_key(how, cls, c),
                        "%s case %d (%s n=%d m=%s k=%s sa=%d sn=%d) at position %s of sequence %s: %s err=%s tol=%s branch=(%s,%s)" % (
                            how, c["id"], FAMNAME[c["f"]], c["n"], c["m"], c["k"], c["sa"], c["sn"], pos, toks, text, err, tol, m, s),
                        {"sequence": toks, "position": int(pos), "cases": [cases[int(t.lstrip("u"))] for t in toks]})
        elif l.startswith("CRASH"):
            v.violation("Exp/crash", "expm_replay died with signal %s while executing call sequences of the specification: %s" % (l.split()[1], l.split(" ", 2)[2][-300:]), None)
        elif l.startswith("XCHECK"):
            raise Infra("harness evaluation of the specification's formula disagrees with TLC's exact value: " + l)


def run_replay_file(v, exe, path):
    """re-execute the call sequences stored in a replay file (written by Verdict.finish) on the current tree"""
    with open(path) as f:
        data = json.load(f)
    cases, seqs = {}, []
    for viol in data.get("violations", []):
        r = viol.get("replay") or {}
        for c in r.get("cases", []):
            cases[c["id"]] = c
        if r.get("sequence") and r["sequence"] not in seqs:
            seqs.append(r["sequence"])
    if not seqs:
        raise Infra("no call sequence in replay file " + path)
    sq = [(i, t) for i, t in enumerate(seqs)]
    need = set(int(t.lstrip("u")) for s in seqs for t in s)
    if not need <= set(cases):
        raise Infra("replay file lacks the case data for %s" % sorted(need - set(cases)))
    lines = run_replay(exe, [case_line(cases[c]) for c in sorted(cases)], sq, 4, 900)
    report(v, lines, cases, {i: t for i, t in sq})
    v.cov.update({"evaluations": len(seqs), "distinct_nontrivial": len(seqs), "rule": "sequences of the replay file " + os.path.basename(path)})
    v.sample({"sequence": seqs[0]})
    return "exploration"


def run(v, tier, seed, replay):
    quick = tier == "quick"
    dims = [2, 3, 4, 5, 6]
    src = os.path.join(vlib.REPO, "src", "MatrixExp.cpp")
    if "expm.branch" not in open(src).read():
        raise Infra("hook missing in %s: apply /verif/patches/expm/hook-expm-branch.diff (SQUIDS_VERIF_EVENT(\"expm.branch\",0,0,m,s))" % src)
    exe = vlib.build_harness("expm_replay", "plain")
    if replay:
        return run_replay_file(v, exe, replay)

    # --- 1. catalogue
    cfg = write_cfg("C07_cat", dims=tset(dims), maxlen=1, withvalues="TRUE", tier=0 if quick else 1, casesel="{}",
                    b3="{}", b5="{}", b7="{}", b9="{}", b13="{}", invs=LAWS)
    res = vlib.tlc("ExpFamilies", cfg, workers=8, timeout=900, keep_out=False)
    vlib.tlc_ok(res, "ExpFamilies catalogue")
    if res.violated:
        raise Infra("specification law violated in ExpFamilies (catalogue): %s\n%s" % (res.violated, res.out[-3000:]))
    cases = {e["id"]: e for e in res.edges}
    if len(cases) < 100:
        raise Infra("TLC exported only %d cases" % len(cases))
    states, trans = res.distinct, res.generated
    fams = set(e["f"] for e in cases.values())
    if fams != {1, 2, 3, 4}:
        raise Infra("vacuity: families never generated: %s" % sorted({1, 2, 3, 4} - fams))
    case_lines = {cid: case_line(e) for cid, e in cases.items()}

    # --- 2. every case on a fresh thread (direct; anti-Hermitian members also through UTransform)
    ids = sorted(cases)
    seqs = [(i, [str(cid)]) for i, cid in enumerate(ids)]
    useqs = [(len(ids) + i, ["u%d" % cid]) for i, cid in enumerate(c for c in ids if cases[c]["anti"])]
    lines = run_replay(exe, [case_lines[c] for c in ids], seqs + useqs, 8, 900)
    sidx = {i: t for i, t in seqs + useqs}
    report(v, lines, cases, sidx)
    band = {}
    for l in lines:
        if l.startswith("BAND"):
            _, cid, m, s = l.split()
            band.setdefault(int(cid), (int(m), int(s)))
    ncalls = len(seqs) + len(useqs)
    maxratio = max(float(l.split()[4]) for l in lines if l.startswith("DONE"))
    if not any(m > 0 for m, s in band.values()):
        raise Infra("no branch event received from matrix_exponential: library built without the expm.branch hook?")

    # coverage obligation: every (n, branch class)
    cov = {}
    threw_n = set()
    for cid, (m, s) in band.items():
        n = cases[cid]["n"]
        if m == -2:
            threw_n.add(n)
            continue
        cov.setdefault((n, cls_of(m, s)), []).append(cid)
    table = {"n=%d" % n: {c: len(cov.get((n, c), [])) for c in CLASSES} for n in dims}
    v.cov["branch_coverage"] = table
    v.cov["branch_s_values"] = sorted(set(s for m, s in band.values() if m == 13))
    missing = [(n, c) for n in dims for c in CLASSES if not cov.get((n, c))]
    # a dimension in which calls end in an exception before any branch is chosen is reported as a violation above;
    # its missing branches are a consequence of that violation, not a hole in the exploration
    hole = [(n, c) for n, c in missing if n not in threw_n]
    if hole:
        raise Infra("vacuity: branches of matrix_exponential never exercised: %s" % hole)
    if missing:
        v.notes.append("branches not reachable because the call throws first: %s" % missing)

    # --- 3. call sequences: scratch state x case
    per = 2 if quick else 6
    sel = set()
    for (n, c), lst in sorted(cov.items()):
        lst = sorted(lst, key=lambda x: zlib.crc32(("%d-%d" % (x, seed)).encode()))
        fam_seen = {}
        for cid in lst:                       # prefer different families inside a class
            f = cases[cid]["f"]
            if fam_seen.get(f, 0) < max(1, per // 2) and sum(fam_seen.values()) < per:
                fam_seen[f] = fam_seen.get(f, 0) + 1
                sel.add(cid)
    for cid, (m, s) in band.items():          # cases that threw keep their place in the histories (at most 3 per dimension)
        if m == -2 and sum(1 for x in sel if band[x][0] == -2 and cases[x]["n"] == cases[cid]["n"]) < 3:
            sel.add(cid)
    bsets = {3: [], 5: [], 7: [], 9: [], 13: []}
    for cid in sel:
        m = band[cid][0]
        if m == -2:
            bsets[3].append(cid)              # the exception leaves the first holder group resized
        elif m > 0:
            bsets[m].append(cid)
    maxlen = 3 if quick else 4
    cfg2 = write_cfg("C07_seq", dims=tset(dims), maxlen=maxlen, withvalues="FALSE", tier=0 if quick else 1, casesel=tset(sel),
                     b3=tset(bsets[3]), b5=tset(bsets[5]), b7=tset(bsets[7]), b9=tset(bsets[9]), b13=tset(bsets[13]), invs="LawHistoryFree")
    res2 = vlib.tlc("ExpFamilies", cfg2, workers=8, timeout=1500, keep_out=False, coverage=False)
    vlib.tlc_ok(res2, "ExpFamilies call sequences")
    if res2.violated:
        raise Infra("specification law violated in ExpFamilies (sequences): %s\n%s" % (res2.violated, res2.out[-3000:]))
    states += res2.distinct
    trans += res2.generated
    hseqs = []
    scr = set()
    for e in res2.edges:
        toks = []
        for pos, cid in enumerate(e["seq"]):
            c = cases[cid]
            ut = c["anti"] and (zlib.crc32(("%s-%d-%d" % (e["seq"], pos, seed)).encode()) % 3 == 0)
            toks.append(("u%d" if ut else "%d") % cid)
        hseqs.append(toks)
        scr.add(json.dumps(e["sc"], sort_keys=True))
    if len(hseqs) != res2.generated - 1 and len(hseqs) < res2.distinct:
        raise Infra("exported %d sequences for %d generated transitions" % (len(hseqs), res2.generated))
    seqs2 = [(i, t) for i, t in enumerate(hseqs)]
    lines2 = run_replay(exe, [case_lines[c] for c in sorted(sel)], seqs2, 8, 1500)
    report(v, lines2, cases, {i: t for i, t in seqs2})
    drift = [l for l in lines2 if l.startswith("DRIFT")]
    ncalls += sum(len(t) for t in hseqs)
    maxratio = max([maxratio] + [float(l.split()[4]) for l in lines2 if l.startswith("DONE")])

    v.add("states", states)
    v.add("transitions", trans)
    v.add("traces_validated_against_impl", len(seqs) + len(useqs) + len(hseqs))
    v.cov["calls_executed"] = ncalls
    v.cov["catalogue_cases"] = len(cases)
    v.cov["cases_by_family"] = {FAMNAME[f]: sum(1 for e in cases.values() if e["f"] == f) for f in sorted(fams)}
    v.cov["scratch_states_reached"] = len(scr)
    v.cov["sequence_cases"] = len(sel)
    v.cov["max_len"] = maxlen
    v.cov["max_error_over_tolerance"] = maxratio
    v.cov["branch_drift_events"] = len(drift)
    if drift:
        v.notes.append("the branch chosen for a case differed from the fresh-thread run %d time(s) (the estimator's RNG advances with every call); results were still compared with the exact value" % len(drift))
    v.cov["rule"] = ("catalogue: all members of ExpFamilies (diagonal / normal dense U D U^dagger / nilpotent dense S N S^-1 / x I + N; spectra m ln2 + i k pi/4, "
                     "k scaled to 1000, dyadic scales 2^-9..2^4) x n=2..6, each on a fresh thread, anti-Hermitian members also via UTransform(V,i s) "
                     "(value, Tr(B^2), inverse by s->-s); sequences: every (scratch-holder state reachable in < MaxLen calls) x (representative case of every "
                     "(n,branch) class) with the witness call history, replayed on one thread; tolerance 1e3 n eps max(1,|A|_1) |exp A|_1")
    for cid in ids[:: max(1, len(ids) // 4)][:4]:
        e = cases[cid]
        v.sample({"case": cid, "family": FAMNAME[e["f"]], "n": e["n"], "m": e["m"], "k": e["k"], "sa": e["sa"], "sn": e["sn"],
                  "branch_(m,s)": band.get(cid), "E_first_entries": e["E"][:3] if e["E"] else "off-lattice: spectral formula evaluated by the harness"})
    if hseqs:
        v.sample({"sequence": hseqs[len(hseqs) // 2], "note": "case ids; u<id> = through UTransform"})
    v.assumptions.append("off the lattice (dyadic scale 2^sa with sa<0) the expected value is the specification's spectral formula U diag(exp(x_r)) U^dagger evaluated by the harness in long double with libm's scalar exp/cos/sin; TLC proves U unitary and the formula exact on the lattice, and the harness evaluation is cross-checked against TLC's exact value on every lattice case")
    v.assumptions.append("general dense matrices outside the exact families are not decided (conditioning-dependent); the families reach every branch (n, Pade degree, s=0 / s>0)")
    return "model_checking"
