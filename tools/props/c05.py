"""C05 expectation values and x-interpolation.

spec/Observables.tla (EXTENDS Exact, GridOps): TLC builds objects (grid kind lin/log/user with power-of-two spacings,
integer Hermitian states per node and irho, H0(x) = 4x*diag(h)), advances the clock by histories of Evolve calls
(t - t_ini = K*pi/4) and asks every entry point at nodes, midpoints, quarter points and points below/above the range.
TLC checks the laws (node-indexed = D-form at nodes, convexity and bracket independence of the weights, reality,
Schroedinger = Heisenberg picture, averaging with an unreachable scale = plain, linearity at K = 0) and exports every
Setup/Query transition with exact expected values in Q(zeta8); harness/obs_replay.cpp executes all of them on a class
derived from squids::SQuIDS (only H0 overridden) and compares (tolerance 512*eps*scale, scale including |phase|).
"""
import json, os
import vlib
from vlib import Infra

CFG_T = """SPECIFICATION Spec
CONSTANTS
  Dims = {dims}
  NxSet = {nxs}
  Kinds = {{"lin","log","user"}}
  NVar = {nvar}
  StepCode = {steps}
  MaxHist = {maxhist}
  FullAt = 1
INVARIANTS TypeOK LawSetup LawRange LawConvex LawBracketFree LawNodeAgree LawReal LawPicture LawAvg LawLinear
ACTION_CONSTRAINT Emit
CHECK_DEADLOCK FALSE
"""
LAWS = "LawSetup LawRange LawConvex LawBracketFree LawNodeAgree LawReal LawPicture LawAvg LawLinear".split()


def tlaset(xs):
    return "{" + ",".join(str(x) for x in xs) + "}"


def write_cfg(name, dims, nxs, nvar, steps, maxhist):
    os.makedirs(vlib.BUILD, exist_ok=True)
    p = os.path.join(vlib.cfgdir(), name + ".cfg")
    with open(p, "w") as f:
        f.write(CFG_T.format(dims=tlaset(dims), nxs=tlaset(nxs), nvar=nvar, steps=tlaset([s + 100 for s in steps]), maxhist=maxhist))
    return p


def flat(m):
    return " ".join(" ".join(str(x) for x in e) for e in m)


def sukey(su):
    return (su["d"], su["kind"], su["nx"], su["v"])


def where(q, g):
    a = q["a"]
    if not a["inr"]:
        return "below" if a["x4"] < g[0] else "above"
    return "node" if a["node"] >= 0 else "interior"


def run(v, tier, seed, replay):
    exe = vlib.build_harness("obs_replay", "plain")
    quick = tier == "quick"
    if quick:
        runs = [dict(dims=[2, 3], nxs=[2, 3, 4, 5, 6], nvar=2, steps=[1, 2, -3], maxhist=2),
                dict(dims=[4], nxs=[2, 3, 5], nvar=2, steps=[1, 2, -3], maxhist=2),
                dict(dims=[5, 6], nxs=[2], nvar=1, steps=[1], maxhist=1)]      # the two largest dimensions have kernels of their own
    else:
        runs = [dict(dims=[2, 3], nxs=[2, 3, 4, 5, 6], nvar=3, steps=[1, 2, -3], maxhist=3),
                dict(dims=[4], nxs=[2, 3, 4, 5, 6], nvar=3, steps=[1, 2, -3], maxhist=3),
                dict(dims=[5, 6], nxs=[2, 3, 5], nvar=1, steps=[1, -3], maxhist=2)]
    only = None
    if replay:
        with open(replay) as f:
            rp = json.load(f)
        only = set()
        for viol in rp.get("violations", []):
            pl = viol.get("replay") or {}
            if "su" in pl:
                only.add((sukey(pl["su"]), tuple(pl["hist"]), pl["x4"]))
        if not only:
            raise Infra("nothing replayable in " + replay)
    setups, queries = {}, []
    cover = {}
    for ri, r in enumerate(runs):
        if only is not None and not any(k[0][0] in r["dims"] for k in only):
            continue
        cfg = write_cfg("C05_%d" % ri, **r)
        res = vlib.tlc("Observables", cfg, workers=8, timeout=1500)
        vlib.tlc_ok(res, "Observables run %d" % ri)
        if res.violated:
            raise Infra("a law of the specification Observables is violated (model error): %s\n%s" % (res.violated, res.out[-3000:]))
        for act in ("Setup", "EvolveClock", "Query"):
            if res.coverage.get(act, (0, 0))[0] == 0:
                raise Infra("vacuity: action %s never taken" % act)
        for a, (t, g) in res.coverage.items():
            cover[a] = cover.get(a, 0) + t
        v.add("states", res.distinct)
        v.add("transitions", res.generated)
        qseen = set()
        for e in res.edges:
            if e["k"] == "setup":
                setups[sukey(e["su"])] = e
            else:
                k = (sukey(e["su"]), tuple(e["hist"]), e["a"]["x4"])
                if k not in qseen:
                    qseen.add(k)
                    queries.append(e)
    if only is not None:
        queries = [q for q in queries if (sukey(q["su"]), tuple(q["hist"]), q["a"]["x4"]) in only]
    if not setups or not queries:
        raise Infra("TLC exported no cases")
    # interleave dimensions (the D-functions keep per-thread scratch vectors that must follow the caller's dimension)
    queries.sort(key=lambda q: (q["su"]["v"], q["su"]["kind"], q["su"]["d"], q["su"]["nx"], q["hist"], q["a"]["x4"]))
    sids = {k: i for i, k in enumerate(sorted(setups))}
    lines = []
    for k, i in sorted(sids.items(), key=lambda kv: kv[1]):
        e = setups[k]
        lines.append("S %d %d %d %s %d %s %s %d %s %s" % (
            i, k[0], k[2], k[1], k[3], " ".join(map(str, e["g"])), " ".join(" ".join(map(str, h)) for h in e["h"]),
            len(e["ops"]), " ".join(flat(m) for node in e["rho"] for m in node), " ".join(flat(m) for m in e["ops"])))
    for qi, q in enumerate(queries):
        a = q["a"]
        s = "Q %d %d %d %s %d %d %d %d" % (qi, sids[sukey(q["su"])], len(q["hist"]), " ".join(map(str, q["hist"])),
                                          a["K"], a["x4"], 1 if a["inr"] else 0, a["node"])
        if a["inr"]:
            s += " " + " ".join(flat(m) for m in a["inter"]) + " " + " ".join(flat(vals) for vals in a["evd"])
        if a["node"] >= 0:
            s += " " + " ".join(flat(vals) for vals in a["ev"])
        lines.append(s)
    rc, out, err = vlib.run_lines(exe, "\n".join(lines) + "\n", args=["512"], timeout=1500)
    done = [l for l in out if l.startswith("DONE")]
    if isinstance(rc, int) and rc < 0:
        # the replayer died inside a library call (never on a sound tree): report, and judge what was printed before
        v.violation("observables/crash", "obs_replay died with signal %s after %d reported mismatches: %s" % (-rc, sum(1 for l in out if l.startswith("MISMATCH")), err[-400:]), None)
        return "model_checking"
    if rc != 0 or not done:
        raise Infra("obs_replay failed rc=%s: %s %s" % (rc, "\n".join(out[-5:]), err[-2000:]))
    _, nq, ncmp, nmis, mr = done[0].split()
    if int(nq) != len(queries):
        raise Infra("replayer consumed %s of %d queries" % (nq, len(queries)))
    v.add("traces_validated_against_impl", len(queries))
    v.cov["comparisons"] = int(ncmp)
    v.cov["mismatches"] = int(nmis)
    v.cov["max_rel_err"] = float(mr)
    v.cov["setups"] = len(setups)
    ref = [l for l in out if l.startswith("REFUSED")]
    if ref:
        _, nref, nm2 = ref[0].split()
        v.cov["objects_queried_after_a_refused_evolve"] = int(nref)
        if int(nm2) and int(nref) * 2 < int(nm2):
            raise Infra("vacuity: GSL refused only %s of %s Evolve calls meant to fail (stale in-step view not exercised)" % (nref, nm2))
    v.cov["per_action_taken"] = cover
    cls = {}
    for q in queries:
        w = where(q, setups[sukey(q["su"])]["g"])
        cls[w] = cls.get(w, 0) + 1
    v.cov["queries_by_class"] = cls
    for w in ("below", "above", "node", "interior"):
        if not cls.get(w) and only is None:
            raise Infra("vacuity: no query of class " + w)
    seen = {}
    for l in out:
        if not l.startswith("MISMATCH"):
            continue
        _, qid, mode, fn, ir, op, what, errv, tol = l.split()
        q = queries[int(qid)]
        su = q["su"]
        w = where(q, setups[sukey(su)]["g"])
        key = "%s/%s/%s/%s" % (fn, su["kind"], w, what.split(":")[0]) + {"2": "/after-refused-evolve", "3": "/after-move-assign", "4": "/after-move-ctor", "9": "/off-lattice"}.get(mode, "")
        seen[key] = seen.get(key, 0) + 1
        if seen[key] <= 2:
            v.violation(key, "%s d=%d %s grid(4x)=%s hist=%s (t-t_ini=%d*pi/4, %s) x4=%d irho=%s op=%s: %s err=%s tol=%s" % (
                fn, su["d"], su["kind"], setups[sukey(su)]["g"], q["hist"], q["a"]["K"],
                {"0": "clock only", "1": "ODE solver, HI=0", "2": "after an Evolve refused by GSL, clock only", "3": "object received by move assignment", "4": "object received by move construction", "9": "generic elapsed time and positions"}.get(mode, mode), q["a"]["x4"], ir, op, what, errv, tol),
                {"su": su, "hist": q["hist"], "x4": q["a"]["x4"], "fn": fn, "irho": int(ir), "op": int(op), "what": what})
    v.cov["mismatch_classes"] = seen
    q = queries[len(queries) // 2]
    v.sample({"setup": q["su"], "grid_4x": setups[sukey(q["su"])]["g"], "hist_pi4": q["hist"], "x4": q["a"]["x4"], "in_range": q["a"]["inr"],
              "node": q["a"]["node"], "expected_ExpValD_irho0_first4_ops": (q["a"]["evd"][0][:4] if q["a"]["inr"] else []),
              "note": "values <<a,b,c,d,n>> = (a+b z+c z^2+d z^3)/n, z=exp(i pi/4)"})
    v.cov["rule"] = ("objects: d x {lin(Set_xrange linear), log(Set_xrange log, nodes 2^k), user(vector)} x nx x variants (offsets incl. negative x, "
                     "spacings 1..64, spectra incl. degenerate); histories of 0..MaxHist Evolve(k*pi/4), k in steps (clock only, and ODE solver with HI=0 "
                     "for positive steps); x in nodes + midpoints + quarter points + {1/4,1/2,1,16 below and above} (full set after one Evolve, "
                     "7-point set otherwise); operators: whole basis + 2 dense integer patterns; irho in {0,1}; 7 entry points")
    v.cov["configs"] = runs
    v.assumptions.append("times/energies off the pi/4 lattice and non-dyadic weights only change libm's cos/sin arguments and one rounding of f2; the formulas are polynomial in them")
    v.assumptions.append("H0 diagonal in the basis of the stored state (the documented use); averaging overloads only with an unreachable scale, as the property states")
    return "model_checking"
