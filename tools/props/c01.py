"""C01 SU_vector <-> Hermitian matrix: basis, conversions, linear operations, equality (SUAlgebra linear actions)."""
import algebra


def run(v, tier, seed, replay):
    if replay:
        return algebra.replay(v, replay, 64)
    un = ["tomatrix", "neg", "scale", "div", "transpose", "real", "imag"]
    bi = ["add", "sub", "eq"]
    npat = 6 if tier == "quick" else 30
    runs = [dict(dims=[2, 3, 4, 5, 6], ops=un, invs=["LawLinear"], npat=npat),
            dict(dims=[2, 3, 4, 5, 6], ops=bi, invs=["LawLinear"], npat=(2 if tier == "quick" else 6))]
    algebra.explore_and_replay(v, "C01", runs, tolf=64)
    if tier == "thorough":
        # chained programs: results feed the next call (compositions of linear operations)
        algebra.explore_and_replay(v, "C01chain", [dict(dims=[2, 3, 4, 5, 6], ops=["neg", "scale", "transpose", "add", "sub"], invs=["LawLinear"], npat=4, chain=4)],
                                   tolf=64, simulate=400, depth=14, seed=seed)
    v.cov["exhaustive"] = True
    v.cov["rule"] = "every basis slot and NPat dense integer patterns per dimension x every linear call; all ordered operand pairs for add/sub/==; results compared with the exact matrix (64 eps * operand 1-norm) and bit-exactly with the componentwise definition"
    v.assumptions.append("huge/tiny magnitudes: linear kernels are componentwise IEEE operations, checked bit-exactly against a[i] op b[i]; scaling by 2^k commutes exactly")
    return "model_checking"
