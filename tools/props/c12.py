"""C12 GetEigenSystem: TLC explores spec/Eigen.tla (families with exactly known spectra: integer diagonals with every
degeneracy pattern, 0/1 diagonals, multiples of I, every generator, dense conjugates by pi/4-lattice rotations with
repeated, Z[sqrt2] and nearly degenerate spectra; d = 2..6), proves M U = U D for every case and exports (matrix, exact
ascending spectrum).  harness/eigen_replay calls GetEigenSystem(true/false) on every case: finite numbers, eigenvalues
against the exact spectrum (ascending / multiset), M V = V diag(L) and V unitary as residuals; plus seeded dense inputs
(generic and with small gaps) checked by residual only."""
import os
import vlib
from vlib import Infra

CFG_T = """SPECIFICATION Spec
CONSTANTS
  Dims = {dims}
  Tier = {tier}
INVARIANTS TypeOK LawEigen LawSorted LawFamily
ACTION_CONSTRAINT Emit
CHECK_DEADLOCK FALSE
"""
FAM = {1: "diag", 2: "proj", 3: "ident", 4: "generator", 5: "conj", 6: "sqrt2", 7: "near"}


def flat5(m):
    return " ".join(" ".join(str(x) for x in e) for e in m)


def degeneracy(e):
    sp = [tuple(x) for x in e["spec"]]
    if e["f"] == 7:
        return "gap2^-%d" % e["s"]
    mult = sorted((sp.count(x) for x in set(sp)), reverse=True)
    return "distinct" if mult[0] == 1 else "mult" + "".join(str(m) for m in mult if m > 1)


def case_key(e, order, what):
    # GetEigenSystem/d=3/<family>/<degeneracy class>/<failure>
    return "GetEigenSystem/d=%d/%s/%s/%s" % (e["d"], FAM[e["f"]], degeneracy(e), what)


def replay_cases(v, exe, cases, rand, seed, dims, level):
    lines_in = []
    for cid in sorted(cases):
        e = cases[cid]
        parts = ["CASE", cid, e["f"], e["d"], e["s"], flat5(e["M0"])]
        parts += [1, flat5(e["M1"])] if e["M1"] else [0]
        parts.append(" ".join("%d %d %d" % tuple(x) for x in e["spec"]))
        lines_in.append(" ".join(str(x) for x in parts))
    nrand = len(rand)
    for i in rand:
        lines_in.append("RAND %d %d %d %d" % (i, dims[i % len(dims)], seed * 1000003 + i, (i // len(dims)) % 4))
    rc, lines, err = vlib.run_lines(exe, "\n".join(lines_in) + "\n", timeout=900)
    done = [l for l in lines if l.startswith("DONE")]
    if any(l.startswith("BADINPUT") for l in lines):
        raise Infra("eigen_replay rejected its input: %s" % "\n".join(lines[-3:]))
    crashed = (rc != 0 or not done)
    if crashed:
        # the replayer died inside the library (signal / abort from the allocator): memory was corrupted by a call.
        # Failures reported before the crash are still judged; the crash itself is a violation (never seen on a sound tree).
        v.violation("GetEigenSystem/crash", "eigen_replay died with rc=%s after %d reported failures: %s" % (rc, sum(1 for l in lines if l.startswith("FAIL")), err[-600:]),
                    {"stderr": err[-2000:]})
        ncalls = 0; mev = mres = 0.0
    else:
        _, nc, ncalls, nf, mev, mres = done[0].split()
        if int(nc) != len(cases) + nrand:
            raise Infra("eigen_replay consumed %s of %d cases" % (nc, len(cases) + nrand))
    for l in lines:
        if not l.startswith("FAIL"):
            continue
        if " : " not in l or len(l.split(" : ", 1)[0].split()) != 6:
            continue        # truncated last line of a crashed run
        head, text = l.split(" : ", 1)
        _, cid, order, what, errv, tol = head.split()
        cid = int(cid)
        if cid < 0:
            i = -cid - 1
            d = dims[i % len(dims)]
            kind = ["generic", "smallgap", "hugeidentity", "scaled"][(i // len(dims)) % 4]
            v.violation("GetEigenSystem/d=%d/seeded-%s/%s" % (d, kind, what),
                        "seeded dense input #%d (d=%d, %s) order=%s: %s err=%s tol=%s" % (i, d, kind, order, text, errv, tol),
                        {"rand": i, "d": d, "seed": seed * 1000003 + i, "kind": kind})
        else:
            e = cases[cid]
            v.violation(case_key(e, order, what),
                        "case %d (%s d=%d a=%d b=%d spectrum=%s shift=%d) order=%s: %s err=%s tol=%s" % (
                            cid, FAM[e["f"]], e["d"], e["a"], e["b"], e["spec"], e["s"], order, text, errv, tol), {"case": e, "order": int(order)})
    v.cov["calls_executed"] = int(ncalls)
    v.cov["seeded_dense_inputs"] = nrand
    v.cov["max_eigenvalue_error_over_tolerance"] = float(mev)
    v.cov["max_residual_over_tolerance"] = float(mres)
    if level:
        v.cov.update({"evaluations": len(cases), "distinct_nontrivial": len(cases), "rule": "cases of the replay file"})
        v.sample({"case": sorted(cases)[0]})
    return level


def run(v, tier, seed, replay):
    quick = tier == "quick"
    dims = [2, 3, 4, 5, 6]
    exe = vlib.build_harness("eigen_replay", "plain")
    if replay:
        import json
        with open(replay) as f:
            data = json.load(f)
        rc_cases = {}
        for viol in data.get("violations", []):
            c = (viol.get("replay") or {}).get("case")
            if c:
                rc_cases[c["id"]] = c
        if not rc_cases:
            raise Infra("no structured case in replay file " + replay)
        return replay_cases(v, exe, rc_cases, [], seed, [2, 3, 4, 5, 6], "exploration")
    os.makedirs(vlib.BUILD, exist_ok=True)
    cfg = os.path.join(vlib.cfgdir(), "C12_cat.cfg")
    with open(cfg, "w") as f:
        f.write(CFG_T.format(dims="{" + ",".join(map(str, dims)) + "}", tier=0 if quick else 1))
    res = vlib.tlc("Eigen", cfg, workers=8, timeout=1500, keep_out=False)
    vlib.tlc_ok(res, "Eigen")
    if res.violated:
        raise Infra("specification law violated in Eigen: %s\n%s" % (res.violated, res.out[-3000:]))
    cases = {e["id"]: e for e in res.edges}
    fams = {}
    for e in cases.values():
        fams[(e["f"], e["d"])] = fams.get((e["f"], e["d"]), 0) + 1
    missing = [(FAM[f], d) for f in FAM for d in dims if not fams.get((f, d))]
    if missing:
        raise Infra("vacuity: families never generated by TLC: %s" % missing)
    replay_cases(v, exe, cases, list(range(400 if quick else 4000)), seed, dims, None)
    v.add("states", res.distinct)
    v.add("transitions", res.generated)
    v.add("traces_validated_against_impl", len(cases))
    v.cov["cases_by_family_and_d"] = {"%s/d=%d" % (FAM[f], d): n for (f, d), n in sorted(fams.items())}
    v.cov["degeneracy_patterns"] = len(set((e["d"], degeneracy(e)) for e in cases.values()))
    v.cov["rule"] = ("every case of Eigen.tla: integer diagonals over all set partitions of the positions (every degeneracy pattern), all 0/1 diagonals, "
                     "c*I, +-1,3 x every generator, dense conjugates U D U^dagger (U products of pi/4 and pi/2 plane rotations) for every degeneracy pattern "
                     "(d<=4; sampled for d=5,6 in quick), Z[sqrt2] spectra, nearly degenerate spectra with gaps 2^-4..2^-46; GetEigenSystem(true) and (false); "
                     "eigenvalues 1e-10*max(1,|M|), residuals 1e-9*max(1,|M|); + seeded dense inputs by residual")
    ids = sorted(cases)
    for cid in ids[:: max(1, len(ids) // 4)][:4]:
        e = cases[cid]
        v.sample({"case": cid, "family": FAM[e["f"]], "d": e["d"], "spectrum_(p,q,e)=p+q*sqrt2+e*2^-s": e["spec"], "s": e["s"], "M0_first_entries": e["M0"][:3]})
    v.assumptions.append("eigenvector validity is a floating-point residual computed by the harness (eigenvectors are not unique); generic irrational spectra are checked by residual only")
    return "model_checking"
