"""C09 fused expression evaluation equals naive evaluation for every expression shape.

TLC explores SUVec!SpecShape: from every prepared pool (each of 3 vectors dead / empty / self-owned small / self-owned
large / bound to user buffer 1 / bound to user buffer 2) every statement  t {=,+=,-=,ctor} op(a,b)  with every operand
choice (all alias patterns), value category and operation, with exact values; the requirement is built into the
action (value = Combine(w, old target, ExprVal(op, a, b)); exceptions exactly for size-changing assignment to user
storage and size-mismatched += / -=; nothing modified on failure).  Every exported statement is executed on the real
library for several dimension pairs and guarantee-flag sets and the recorded trace is validated by TLC."""
import hashlib, json
import vlib, suvec
from vlib import Infra

ALL_OPS = ("add", "sub", "neg", "smul", "icomm", "acomm", "evolve", "fastevolve", "elementwise")


def h(i, e, salt):
    return int(hashlib.md5(("%s|%s|%s" % (salt, json.dumps(e["kinds"]), json.dumps(e["act"], sort_keys=True))).encode()).hexdigest()[:8], 16)


def run(v, tier, seed, replay):
    if replay:
        return suvec.replay(v, replay, "plain")
    cfg = suvec.bfs_cfg("C09_shape", vecs=3, dims=(2, 3), exts=(1, 2), maxops=2, ops=ALL_OPS, next_op="SpecShape",
                        props=("WriteFrame", "ExternalStable", "FailureFrame"))
    r = vlib.tlc("SUVec", cfg, timeout=2400)
    vlib.tlc_ok(r, "C09 shape exploration")
    if r.violated:
        raise Infra("SUVec violates %s in the shape exploration (model defect):\n%s" % (r.violated, r.out[-2000:]))
    edges = r.edges
    ops_seen = set(e["act"]["op"] for e in edges)
    if set(ALL_OPS) - ops_seen:
        raise Infra("vacuity: operations never generated: %s" % sorted(set(ALL_OPS) - ops_seen))
    v.cov["tlc_wall_s"] = round(r.wall, 1)
    v.add("states", r.distinct)
    v.add("transitions", r.generated)
    exe = suvec.build_driver("plain")
    FLAGSETS = [0, 1, 2, 3, 4, 5, 7]
    if tier == "quick":
        plan = [((2, 3), 30), ((4, 5), 70), ((2, 4), 70), ((3, 5), 100), ((6, 3), 140)]
    else:
        plan = [((2, 3), 1), ((4, 5), 3), ((2, 4), 3), ((3, 5), 4), ((6, 3), 4), ((4, 6), 6), ((6, 2), 6), ((5, 3), 6)]
    nscripts = 0
    shapes = set()
    allsegs = []
    for (ds, dl), mod in plan:
        salt = "%d-%d-%d" % (seed, ds, dl)
        keep = lambda i, e: h(i, e, salt) % mod == 0
        flags_of = lambda i, e: FLAGSETS[h(i, e, salt + "f") % len(FLAGSETS)]
        scripts = suvec.shape_scripts(edges, ds, dl, keep, flags_of)
        segs, info = suvec.run_paths(exe, scripts)
        if suvec.crash_violation(v, info, "d%d%d/" % (ds, dl)):
            continue
        nscripts += len(segs)
        allsegs += segs
        for s in segs[:1]:
            v.sample({"dims": [ds, dl], "script_events": [json.loads(x)["e"] for x in s],
                      "statement": [{k: x for k, x in json.loads(y).items() if k not in ("post", "ebuf")} for y in s if '"e":"AssignExpr"' in y][:1]})
    m, a, rej = suvec.validate(allsegs, "c09", nblk=12, batch=max(150, len(allsegs) // 24 + 1), jobs=12)
    v.add("events_validated", m)
    suvec.report_rejections(v, rej)
    for e in edges:
        a = e["act"]
        shapes.add((a["w"], a["op"], a["arv"], a["brv"], tuple(e["kinds"]), a["t"], a["a"], a["b"]))
    v.add("traces_validated_against_impl", nscripts)
    v.cov["distinct_shapes_explored_by_tlc"] = len(shapes)
    v.cov["exhaustive"] = (tier == "thorough")
    v.cov["rule"] = ("TLC: all statements {=,+=,-=,ctor} x 9 operations x value categories x 3-vector operand choices (all alias patterns incl. shared user buffer) "
                     "x 6^3 prepared pools, dimensions (2,3); replay: every statement (thorough: all for (2,3), 1/3..1/6 for other dimension pairs; quick: hashed subset) "
                     "with a guarantee flag set from {none, NoAlias, EqualSizes, both, all three} reduced to the flags that are true")
    v.assumptions.append("guarantee flags are only asserted when true of the actual addresses/sizes (asserting a false one is undefined by the documentation)")
    v.assumptions.append("values are exact Gaussian-integer Hermitian matrices; time steps are multiples of pi/2; the user element-wise operation is x+2y")
    return "model_checking"
