"""C14 mismatched or unsupported dimensions are rejected before any read or write.

TLC explores SUVec!SpecGuard: from every prepared pool one call with an unsupported or mismatched argument
(constructors / factories / aligned factory with dimension 1, 7, 8; list lengths 1, non-squares <= 64, 49, 64;
factory indices up to d*d+2; every binary entry point on operands of different dimension) and exports the verdict
the specification requires (library exception, nothing modified).  Every case is executed for all ordered dimension
pairs on the real library built with AddressSanitizer + UBSan and the recorded trace is validated by TLC."""
import hashlib, json
import vlib, suvec
from vlib import Infra


def hh(e, salt):
    return int(hashlib.md5((salt + json.dumps(e, sort_keys=True)).encode()).hexdigest()[:8], 16)


def guards_table(v, only=None):
    """module Guards: binary entry points on unevaluated expressions, matrix shapes, weighted rotation (ASan build)"""
    r = vlib.tlc("Guards", "Guards.cfg", timeout=600, coverage=False)
    vlib.tlc_ok(r, "Guards")
    cases = [e for e in r.edges if e.get("entry") != "none"]
    if only is not None:
        cases = [e for e in cases if all(e[k] == only[k] for k in ("entry", "k1", "k2", "d1", "d2", "r", "cc"))]
    if len(cases) < (4000 if only is None else 1):
        raise Infra("Guards exported only %d cases" % len(cases))
    exe = vlib.build_harness("guard_replay", "asan", extra_flags=["-std=c++14"])
    lines = ["%d %s %s %s %d %d %d %d %d" % (i, e["entry"], e["k1"], e["k2"], e["d1"], e["d2"], e["r"], e["cc"], 1 if e["must"] else 0) for i, e in enumerate(cases)]
    done_upto = 0
    nfail = 0
    guard = 0
    while done_upto < len(lines) and guard < 30:
        guard += 1
        rc, out, err = vlib.run_lines(exe, "\n".join(lines[done_upto:]) + "\n", timeout=900, env={"ASAN_OPTIONS": "detect_leaks=0:abort_on_error=0"})
        fails = [l.split() for l in out if l.startswith("FAIL")]
        for f in fails:
            e = cases[int(f[1])]
            shape = ("d=%d/U=%dx%d" % (e["d1"], e["r"], e["cc"])) if e["r"] else "d1=%d/d2=%d" % (e["d1"], e["d2"])
            v.violation("guard/%s/%s%s/%s" % (e["entry"], (e["k1"] + "," + e["k2"] + "/") if e["k1"] != "-" else "", shape, f[2]),
                        "%s with expression kinds (%s,%s), %s: %s (the specification says must-raise=%s)" % (e["entry"], e["k1"], e["k2"], shape, f[2], e["must"]), {"guard_case": e})
            nfail += 1
        if any(l.startswith("BADINPUT") for l in out):
            raise Infra("guard_replay rejected its input: %s" % [l for l in out if l.startswith("BADINPUT")][:2])
        if any(l.startswith("DONE") for l in out):
            done_upto = len(lines)
            break
        # the replayer died (sanitizer report or signal) inside some case; finished cases leave no line unless they failed,
        # so the offending case is located by bisection on the remaining input
        lo, hi = done_upto, len(lines)
        while hi - lo > 1:
            mid = (lo + hi) // 2
            rc2, out2, err2 = vlib.run_lines(exe, "\n".join(lines[lo:mid]) + "\n", timeout=900, env={"ASAN_OPTIONS": "detect_leaks=0:abort_on_error=0"})
            if any(l.startswith("DONE") for l in out2):
                lo = mid
            else:
                hi = mid
        e = cases[lo]
        shape = ("d=%d/U=%dx%d" % (e["d1"], e["r"], e["cc"])) if e["r"] else "d1=%d/d2=%d" % (e["d1"], e["d2"])
        first = [l for l in err.splitlines() if "ERROR: AddressSanitizer" in l or "runtime error" in l][:1]
        v.violation("guard/%s/%s%s/memory" % (e["entry"], (e["k1"] + "," + e["k2"] + "/") if e["k1"] != "-" else "", shape),
                    "%s with expression kinds (%s,%s), %s: the call died (rc=%s) %s" % (e["entry"], e["k1"], e["k2"], shape, rc, first), {"guard_case": e, "stderr": err[-1500:]})
        nfail += 1
        done_upto = lo + 1
    v.add("states", r.distinct); v.add("transitions", r.generated); v.add("traces_validated_against_impl", len(cases))
    v.cov["guard_table_cases"] = {"cases": len(cases), "must_raise": sum(1 for e in cases if e["must"]), "entries": sorted(set(e["entry"] for e in cases))}


def run(v, tier, seed, replay):
    if replay:
        import json as _j
        with open(replay) as f:
            data = _j.load(f)
        gc = [(x.get("replay") or {}).get("guard_case") for x in data.get("violations", [])]
        gc = [g for g in gc if g]
        if gc:
            for g in gc[:20]:
                guards_table(v, only=g)
            return "model_checking"
        return suvec.replay(v, replay, "asan")
    cfg = suvec.bfs_cfg("C14_guard", vecs=3, dims=(2, 3), exts=(1, 2), maxops=2, ops=("add", "sub", "neg", "elementwise"), next_op="SpecGuard",
                        props=("WriteFrame", "ExternalStable", "FailureFrame"))
    r = vlib.tlc("SUVec", cfg, timeout=2400)
    vlib.tlc_ok(r, "C14 guard exploration")
    if r.violated:
        raise Infra("SUVec violates %s in the guard exploration (model defect):\n%s" % (r.violated, r.out[-2000:]))
    edges = r.edges
    v.add("states", r.distinct)
    v.add("transitions", r.generated)
    # distinct guard cases: the call itself plus the storage kinds of the vectors it names
    def case_id(e):
        a = e["act"]; pos = {n: i for i, n in enumerate(e["ord"])}
        ks = tuple(e["kinds"][pos[a[f]]] if a[f] in pos else "-" for f in ("t", "a", "b"))
        return (a["name"], a["op"], a["w"], a["d"], a["c"], a["arv"], a["brv"], ks, e["out"])
    byid = {}
    for e in edges:
        byid.setdefault(case_id(e), []).append(e)
    v.cov["distinct_guard_cases"] = len(byid)
    must_throw = sum(1 for k in byid if k[-1] == "rt")
    v.cov["cases_that_must_throw"] = must_throw
    if must_throw < 50:
        raise Infra("vacuity: too few must-throw cases exported (%d)" % must_throw)
    exe = suvec.build_driver("asan")
    pairs = [(a, b) for a in range(2, 7) for b in range(2, 7) if a != b]
    reps = 1 if tier == "quick" else 3
    nscripts = 0
    allsegs = []
    for pi, (ds, dl) in enumerate(pairs):
        chosen = []
        for k, es in sorted(byid.items(), key=lambda x: str(x[0])):
            es = sorted(es, key=lambda e: hh(e, "%d-%d-%d" % (seed, ds, dl)))
            chosen += es[:reps]
        scripts = suvec.shape_scripts(chosen, ds, dl, flags_of=lambda i, e: [0, 1, 4, 5][hh(e, "f%d" % seed) % 4], robbed=(pi % 2 == 1))   # every second pair: empties made by theft
        segs, info = suvec.run_paths(exe, scripts)
        # a sanitizer report kills the driver: record it and continue behind the offending script
        guard = 0
        while info.get("crashed") and guard < 40:
            guard += 1
            suvec.crash_violation(v, info, "d%d%d/" % (ds, dl))
            done = len(segs)
            allsegs += segs
            nscripts += len(segs)
            scripts = scripts[done + 1:]
            segs, info = suvec.run_paths(exe, scripts)
        allsegs += segs
        nscripts += len(segs)
    m, a, rej = suvec.validate(allsegs, "c14", nblk=12, batch=max(150, len(allsegs) // 24 + 1), jobs=12, max_rej=40)
    suvec.report_rejections(v, rej)
    v.add("traces_validated_against_impl", a)
    v.add("events_validated", m)
    guards_table(v)
    for s in allsegs[:2]:
        v.sample({"calls": [{k: x for k, x in json.loads(y).items() if k in ("e", "t", "a", "b", "op", "w", "d", "c", "out")} for y in s]})
    v.cov["exhaustive"] = True
    v.cov["rule"] = ("every guard case class (call, operation, statement kind, bad argument, storage kinds of the named vectors) exported by TLC, "
                     "executed for all 20 ordered dimension pairs (d1,d2) in {2..6}^2, d1 != d2, under ASan+UBSan; outcome, unchanged operands and heap events validated by TLC")
    v.assumptions.append("PosProjector/NegProjector(d,d) are not in the window (neither required to work nor to throw); guard window of these starts at d+1")
    return "model_checking"
