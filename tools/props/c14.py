"""C14 mismatched or unsupported dimensions are rejected before any read or write.

TLC explores SUVec!SpecGuard: from every prepared pool one call with an unsupported or mismatched argument
(constructors / factories / aligned factory with dimension 1, 7, 8; list lengths 1, non-squares <= 64, 49, 64;
factory indices up to d*d+2; every binary entry point on operands of different dimension) and exports the verdict
the specification requires (library exception, nothing modified).  Every case is executed for all ordered dimension
pairs on the real library built with AddressSanitizer + UBSan and the recorded trace is validated by TLC."""
import hashlib, json
import vlib, suvec
from vlib import Infra


def hh(e, salt):
    return int(hashlib.md5((salt + json.dumps(e, sort_keys=True)).encode()).hexdigest()[:8], 16)


def run(v, tier, seed, replay):
    if replay:
        return suvec.replay(v, replay, "asan")
    cfg = suvec.bfs_cfg("C14_guard", vecs=3, dims=(2, 3), exts=(1, 2), maxops=2, ops=("add", "sub", "neg", "elementwise"), next_op="SpecGuard",
                        props=("WriteFrame", "ExternalStable", "FailureFrame"))
    r = vlib.tlc("SUVec", cfg, timeout=2400)
    vlib.tlc_ok(r, "C14 guard exploration")
    if r.violated:
        raise Infra("SUVec violates %s in the guard exploration (model defect):\n%s" % (r.violated, r.out[-2000:]))
    edges = r.edges
    v.add("states", r.distinct)
    v.add("transitions", r.generated)
    # distinct guard cases: the call itself plus the storage kinds of the vectors it names
    def case_id(e):
        a = e["act"]; pos = {n: i for i, n in enumerate(e["ord"])}
        ks = tuple(e["kinds"][pos[a[f]]] if a[f] in pos else "-" for f in ("t", "a", "b"))
        return (a["name"], a["op"], a["w"], a["d"], a["c"], a["arv"], a["brv"], ks, e["out"])
    byid = {}
    for e in edges:
        byid.setdefault(case_id(e), []).append(e)
    v.cov["distinct_guard_cases"] = len(byid)
    must_throw = sum(1 for k in byid if k[-1] == "rt")
    v.cov["cases_that_must_throw"] = must_throw
    if must_throw < 50:
        raise Infra("vacuity: too few must-throw cases exported (%d)" % must_throw)
    exe = suvec.build_driver("asan")
    pairs = [(a, b) for a in range(2, 7) for b in range(2, 7) if a != b]
    reps = 1 if tier == "quick" else 3
    nscripts = 0
    allsegs = []
    for pi, (ds, dl) in enumerate(pairs):
        chosen = []
        for k, es in sorted(byid.items(), key=lambda x: str(x[0])):
            es = sorted(es, key=lambda e: hh(e, "%d-%d-%d" % (seed, ds, dl)))
            chosen += es[:reps]
        scripts = suvec.shape_scripts(chosen, ds, dl, flags_of=lambda i, e: [0, 1, 4, 5][hh(e, "f%d" % seed) % 4])
        segs, info = suvec.run_paths(exe, scripts)
        # a sanitizer report kills the driver: record it and continue behind the offending script
        guard = 0
        while info.get("crashed") and guard < 40:
            guard += 1
            suvec.crash_violation(v, info, "d%d%d/" % (ds, dl))
            done = len(segs)
            allsegs += segs
            nscripts += len(segs)
            scripts = scripts[done + 1:]
            segs, info = suvec.run_paths(exe, scripts)
        allsegs += segs
        nscripts += len(segs)
    m, a, rej = suvec.validate(allsegs, "c14", nblk=12, batch=max(150, len(allsegs) // 24 + 1), jobs=12, max_rej=40)
    suvec.report_rejections(v, rej)
    v.add("traces_validated_against_impl", a)
    v.add("events_validated", m)
    for s in allsegs[:2]:
        v.sample({"calls": [{k: x for k, x in json.loads(y).items() if k in ("e", "t", "a", "b", "op", "w", "d", "c", "out")} for y in s]})
    v.cov["exhaustive"] = True
    v.cov["rule"] = ("every guard case class (call, operation, statement kind, bad argument, storage kinds of the named vectors) exported by TLC, "
                     "executed for all 20 ordered dimension pairs (d1,d2) in {2..6}^2, d1 != d2, under ASan+UBSan; outcome, unchanged operands and heap events validated by TLC")
    v.assumptions.append("PosProjector/NegProjector(d,d) are not in the window (neither required to work nor to throw); guard window of these starts at d+1")
    return "model_checking"
