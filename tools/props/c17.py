"""C17 node grids and lookup.

spec/Grid.tla (+GridOps.tla): TLC enumerates every grid subset of 0..MaxVal with nx in NxSet and every query on the
quarter-integer lattice, runs the lookup algorithm one loop iteration per step and checks result in Bracket /
throws iff outside (repaired algorithm = specification default; the transcription of the bisection as it was coded
is run as well and must produce counterexamples, which are replayed on the real method).
Binding A: every exported (grid, x, admissible answers) is executed on real SQuIDS objects (Set_xrange(vector),
Set_xrange(a,b,"linear") for the uniform ones, Get_i) in three exact affine images; vector-overload accept/reject cases.
Binding B: seeded executions (integer grids up to nx=300, general doubles through Set_xrange(a,b,lin|log)) are logged
as ndjson and validated by TLC against spec/GridTrace.tla (oracle: GridOps!Allowed, ulp bounds of the spec).
"""
import json, os, re, threading
import vlib
from vlib import Infra

CFG_T = """SPECIFICATION Spec
CONSTANTS
  NxSet = {nxset}
  MaxVal = {maxval}
  Repaired = {repaired}
  GridMode = "{mode}"
  SeedKeep = {keep}
  VecNx = {{2,3}}
  VecMaxLen = 4
  VecMaxVal = 3
INVARIANTS TypeOK IndexSafe IndexSafeRep Terminates GridFacts VecRule {invs}
{emit}
CHECK_DEADLOCK FALSE
"""


def write_cfg(name, nxs, maxval, repaired, mode="all", keep=1, emit=True):
    p = os.path.join(vlib.cfgdir(), name + ".cfg")
    os.makedirs(vlib.BUILD, exist_ok=True)
    with open(p, "w") as f:
        f.write(CFG_T.format(nxset="{" + ",".join(str(n) for n in nxs) + "}", maxval=maxval,
                             repaired="TRUE" if repaired else "FALSE", mode=mode, keep=keep,
                             invs="ResultOK ThrowsIffOutside", emit="ACTION_CONSTRAINT Emit" if emit else ""))
    return p


def grid_class(g, lin):
    return "%s/nx=%d" % ("uniform" if lin else "nonuniform", len(g))


def last_state(out):
    """variables of the last state of a TLC counterexample"""
    blocks = re.split(r"\nState \d+: ", out)
    if len(blocks) < 2:
        return None
    b = blocks[-1]
    st = {}
    for var in ("g", "x", "res", "it"):
        m = re.search(r"/\\ %s = (.*)" % var, b)
        if m:
            s = m.group(1).strip()
            st[var] = [int(t) for t in re.findall(r"-?\d+", s)] if s.startswith("<<") else int(s)
    return st if "g" in st and "x" in st and "res" in st else None


IMAGES = {"x": (1.0, 0.0), "(x-7)*2^-7": (1.0 / 128, -28.0), "x*2^20": (1048576.0, 0.0)}


def run_replay(v, exe, path, quick):
    """re-execute the cases of a replay file on the real code; the verdict is again the specification's (GridTrace)"""
    with open(path) as f:
        rp = json.load(f)
    evs, seeds, n = [], set(), 0
    for viol in rp.get("violations", []):
        pl = viol.get("replay") or {}
        if pl.get("kind") == "GetI":
            sc, sh = IMAGES.get(pl["image"].split("/")[0], (1.0, 0.0))
            img = lambda k: (k + sh) * sc / 4.0
            args = ["probe", str(len(pl["grid4"]))] + [repr(img(k)) for k in pl["grid4"]] + [repr(img(pl["x4"]))]
            r2, o2, e2 = vlib.run_lines(exe, None, args=args, timeout=60)
            real = [int(l.split()[1]) for l in o2 if l.startswith("RESULT")]
            if r2 != 0 or not real:
                raise Infra("probe failed: %s %s" % (o2, e2))
            n += 1
            evs.append(json.dumps({"e": "Grid", "id": n, "kind": "int", "nodes": pl["grid4"]}))
            evs.append(json.dumps({"e": "GetI", "grid": n, "kind": "int", "x4": pl["x4"], "res": real[0], "threw": real[0] < 0}))
        elif "trace_kind" in pl:
            seeds.add(int(pl.get("seed", rp.get("seed", 0))))
    if evs:
        tp = os.path.join(vlib.BUILD, "C17_replay_%d.ndjson" % os.getpid())
        # one TLC run per case so that every case gets its own verdict
        for i in range(0, len(evs), 2):
            with open(tp, "w") as f:
                f.write(evs[i] + "\n" + evs[i + 1] + "\n")
            r = vlib.tlc("GridTrace", os.path.join(vlib.SPEC, "GridTrace.cfg"), workers=1, timeout=300, env={"TRACE": tp}, coverage=False)
            if r.rc != 0:
                if "Postcondition Accepted" not in r.out:
                    raise Infra("TLC failed on GridTrace (replay): %s" % (r.error or r.out[-1500:]))
                g = json.loads(evs[i])["nodes"]
                v.violation("GetI/replay/nx=%d" % len(g), "replayed: %s %s rejected by GridTrace" % (evs[i], evs[i + 1]), {"events": [evs[i], evs[i + 1]]})
            v.add("states", r.distinct)
            v.add("transitions", r.generated)
            v.add("traces_validated_against_impl", 1)
        os.remove(tp)
        v.sample({"replayed": evs[:2]})
    for sd in sorted(seeds):
        binding_b(v, exe, sd, 12 if quick else 200)
    if not evs and not seeds:
        raise Infra("nothing replayable in " + path)
    return "model_checking"


def binding_b(v, exe, seed, ncases):
    """seeded executions of the real code, logged as ndjson, validated by TLC against GridTrace"""
    # ---------------- binding B: seeded executions validated by GridTrace ----------------
    paths = {k: os.path.join(vlib.BUILD, "C17_trace_%s_%d.ndjson" % (k, os.getpid())) for k in ("int", "lin", "log")}
    r3, o3, e3 = vlib.run_lines(exe, None, args=["trace", str(seed), str(ncases), "300", paths["int"], paths["lin"], paths["log"]], timeout=600)
    if r3 != 0 or not any(l.startswith("DONE") for l in o3):
        raise Infra("grid_replay trace failed: %s %s" % (o3[-3:], e3[-1500:]))
    results = {}

    def validate(k):
        try:
            # a private copy of the configuration: vlib.tlc derives its scratch directory from the cfg name
            cfgk = os.path.join(vlib.cfgdir(), "C17_GridTrace_%s.cfg" % k)
            with open(os.path.join(vlib.SPEC, "GridTrace.cfg")) as fi, open(cfgk, "w") as fo:
                fo.write(fi.read())
            results[k] = vlib.tlc("GridTrace", cfgk, workers=1, timeout=900, env={"TRACE": paths[k]}, coverage=False)
        except Exception as ex:   # reported below
            results[k] = ex
    ths = [threading.Thread(target=validate, args=(k,)) for k in paths]
    [t.start() for t in ths]
    [t.join() for t in ths]
    nev_total = 0
    for k in ("int", "lin", "log"):
        r = results[k]
        if isinstance(r, Exception):
            raise Infra("trace validation (%s): %s" % (k, r))
        with open(paths[k]) as f:
            evs = f.read().splitlines()
        accepted = r.rc == 0 and "Postcondition" not in r.out
        matched = r.distinct - 1
        if accepted and matched != len(evs):
            raise Infra("GridTrace accepted but matched %d of %d events" % (matched, len(evs)))
        if not accepted:
            if "Postcondition Accepted" not in r.out:
                raise Infra("TLC failed on GridTrace (%s): %s" % (k, (r.error or r.out[-2000:])))
            bad = json.loads(evs[matched]) if matched < len(evs) else {}
            grid = None
            for l in evs[:matched][::-1]:
                if l.startswith('{"e":"Grid"'):
                    grid = json.loads(l)
                    break
            nxg = len(grid["nodes"]) if grid else 0
            if bad.get("e") == "GetI":
                key = "GetI/trace-%s/nx=%d" % (k, nxg)
            else:
                key = "%s/%s" % (bad.get("e"), k)
            v.violation(key, "trace of real executions rejected by GridTrace at event %d of %d: %s ; grid image %s" % (
                matched + 1, len(evs), evs[matched] if matched < len(evs) else "?", (grid or {}).get("nodes", [])[:40]),
                {"trace_kind": k, "event_index": matched + 1, "event": bad, "grid": grid, "seed": seed})
        nev_total += matched
        v.add("states", r.distinct)
        v.add("transitions", r.generated)
        v.cov["trace_events_" + k] = len(evs)
        if evs:
            v.sample({"trace_event_" + k: evs[min(len(evs) - 1, 5)][:200]})
        os.remove(paths[k])
    v.add("traces_validated_against_impl", nev_total)


def run(v, tier, seed, replay):
    exe = vlib.build_harness("grid_replay", "plain")
    quick = tier == "quick"
    if replay:
        return run_replay(v, exe, replay, quick)
    nxs = list(range(2, 9)) if quick else list(range(2, 13))
    maxval = 10 if quick else 14
    workers = 8

    # ---------------- TLC on the specification (repaired algorithm = default) ----------------
    cfg = write_cfg("C17_main", nxs, maxval, True)
    res = vlib.tlc("Grid", cfg, workers=workers, timeout=900, keep_out=False)
    vlib.tlc_ok(res, "Grid (repaired lookup)")
    if res.violated:
        raise Infra("the specification's own lookup algorithm violates %s (model error):\n%s" % (res.violated, res.out[-3000:]))
    for act in ("ChooseGrid", "Call", "IterRep", "RetRep", "SetVec"):
        if res.coverage.get(act, (0, 0))[0] == 0:
            raise Infra("vacuity: action %s never taken" % act)
    v.add("states", res.distinct)
    v.add("transitions", res.generated)
    v.cov["per_action_taken"] = {a: t for a, (t, g) in res.coverage.items()}
    grids, vecs = {}, {}
    for e in res.edges:
        if e["k"] == "grid":
            grids[tuple(e["g"])] = e
        else:
            vecs[(e["nx"], tuple(e["v"]))] = e
    if not grids or not vecs:
        raise Infra("TLC exported no cases")
    glist = sorted(grids.values(), key=lambda e: (len(e["g"]), e["g"]))
    vlist = sorted(vecs.values(), key=lambda e: (e["nx"], len(e["v"]), e["v"]))

    # ---------------- binding A: every exported case on the real object ----------------
    lines = []
    for i, e in enumerate(glist):
        lines.append("G %d %d %d %d %d %s %s" % (i, len(e["g"]), 1 if e["lin"] else 0, e["xlo"], len(e["allowed"]),
                                                " ".join(map(str, e["g"])),
                                                " ".join("%d %s" % (len(a), " ".join(map(str, a))) for a in e["allowed"])))
    for i, e in enumerate(vlist):
        lines.append("V %d %d %d %s %s" % (i, e["nx"], len(e["v"]), " ".join(map(str, e["v"])), e["verdict"]))
    rc, out, err = vlib.run_lines(exe, "\n".join(lines) + "\n", args=["table"], timeout=900)
    done = [l for l in out if l.startswith("DONE")]
    if rc != 0 or not done:
        raise Infra("grid_replay table failed rc=%s: %s %s" % (rc, "\n".join(out[-5:]), err[-2000:]))
    _, ng, ncalls, nmis = done[0].split()
    if int(ng) != len(glist):
        raise Infra("replayer consumed %s of %d grids" % (ng, len(glist)))
    v.add("traces_validated_against_impl", int(ncalls))
    v.cov["grids"] = len(glist)
    v.cov["vector_cases"] = len(vlist)
    v.cov["lookups_table"] = int(ncalls)
    v.cov["table_mismatches"] = int(nmis)
    seen = {}
    for l in out:
        if not l.startswith("MISMATCH"):
            continue
        _, kind, gid, var, x4, r, text = l.split(None, 6)
        if kind == "GetI" or kind == "SetRange" or (kind == "SetVec" and var != "-"):
            e = glist[int(gid)]
            key = "%s/%s" % (kind, grid_class(e["g"], e["lin"]))
            if kind != "GetI":
                key += "/" + text.split(":")[0]
            if seen.get(key, 0) < 3:
                seen[key] = seen.get(key, 0) + 1
                v.violation(key, "grid(4x)=%s image=%s x4=%s: real answer %s, %s; admissible %s" % (
                    e["g"], var, x4, r, text, e["allowed"][int(x4) - e["xlo"]] if kind == "GetI" else "-"),
                    {"kind": kind, "grid4": e["g"], "image": var, "x4": int(x4), "real": int(r)})
        else:
            e = vlist[int(gid)]
            key = "SetVec/%s/%s" % (e["verdict"], text)
            if seen.get(key, 0) < 3:
                seen[key] = seen.get(key, 0) + 1
                v.violation(key, "Set_xrange(vector) nx=%d input(4x)=%s must %s: %s" % (e["nx"], e["v"], e["verdict"], text),
                            {"kind": "SetVec", "nx": e["nx"], "v4": e["v"], "verdict": e["verdict"]})
    v.sample({"grid_4x": glist[len(glist) // 2]["g"], "allowed_by_x4_from_-4": glist[len(glist) // 2]["allowed"][:24]})
    v.sample({"vector_case": vlist[len(vlist) // 2]})

    # ---------------- the bisection as it was coded: counterexamples, replayed on the real method ----------------
    coded = []
    for mode in ("uniform", "all"):
        cfgc = write_cfg("C17_coded_" + mode, nxs, maxval, False, mode=mode, emit=False)
        rc_ = vlib.tlc("Grid", cfgc, workers=4, timeout=600, coverage=False)
        vlib.tlc_ok(rc_, "Grid (lookup as coded)")
        if rc_.violated not in ("ResultOK",):
            raise Infra("the transcription of the coded bisection was expected to violate ResultOK (got %s)" % rc_.violated)
        st = last_state(rc_.out)
        if not st:
            raise Infra("cannot parse TLC counterexample:\n" + rc_.out[-2000:])
        args = ["probe", str(len(st["g"]))] + [repr(n / 4.0) for n in st["g"]] + [repr(st["x"] / 4.0)]
        r2, o2, e2 = vlib.run_lines(exe, None, args=args, timeout=60)
        real = [int(l.split()[1]) for l in o2 if l.startswith("RESULT")]
        if r2 != 0 or not real:
            raise Infra("probe failed: %s %s" % (o2, e2))
        coded.append({"grids": mode, "grid": [n / 4.0 for n in st["g"]], "x": st["x"] / 4.0, "model_answer": st["res"],
                      "real_answer": real[0], "reproduced_on_real_code": real[0] == st["res"],
                      "states_to_counterexample": rc_.distinct})
        v.add("states", rc_.distinct)
        v.add("transitions", rc_.generated)
    v.cov["coded_bisection_counterexamples"] = coded
    if any(c["reproduced_on_real_code"] for c in coded):
        v.notes.append("the counterexample of the transcription of the coded bisection is reproduced by the real Get_i (defect present)")
    else:
        v.notes.append("the counterexamples of the transcription of the former bisection are not reproduced: the real Get_i is repaired")

    ncases = 12 if quick else 200
    binding_b(v, exe, seed, ncases)
    v.cov["exhaustive"] = True
    v.cov["rule"] = ("all %d strictly increasing grids with nodes in 0..%d and nx in %d..%d x all x in [-1,%d] on the quarter-integer lattice "
                     "(3 exact affine images each; uniform ones also through Set_xrange(a,b,'linear')); %d vector-overload inputs; "
                     "seeded: %d integer grids nx<=300 and %d+%d Set_xrange(a,b,lin/log) grids of general doubles (order image by ranks)"
                     % (len(glist), maxval, nxs[0], nxs[-1], maxval + 1, len(vlist), ncases, ncases, ncases))
    v.assumptions.append("general doubles: bracketing depends on order only, so ranks are a faithful image; node accuracy is bounded in units of eps*max(|a|,|b|) (4) resp. eps*max(1,|log a|,|log b|) in log x (8), the worst-case rounding bounds of the documented formulas")
    v.assumptions.append("Set_xrange(a,a,scale) is outside the property (it quantifies over a<b); weakly sorted vectors with ties are neither required nor forbidden")
    return "model_checking"
