"""C04 numerical evolution solves exactly the documented kinetic equation.

(1) Protocol: every right-hand-side evaluation of real runs (all 11 stepper modes) is validated by TLC against
    Solver!ExpectedCalls: exactly the enabled terms, node-major, with that node's and that matrix's/scalar's index and
    the stepper's time, views bound to the arrays GSL passed.
(2) Values: TLC (SolverFlow) computes the exact solution of the solvable family for every switch set, configuration
    (nx, nsun, nrhos, nscalars) and duration; the real solver is run in every stepper mode and compared (1e-6 x scale)."""
import hashlib, json, random
import vlib, solver
from vlib import Infra


def run(v, tier, seed, replay):
    exe = solver.build()
    inconclusive = []
    # ---- values
    cfg = solver.flow_cfg("C04_flow", 8, 1, [1, 2] if tier == "quick" else [1, 2, 3], list(range(32)), [0])
    r = vlib.tlc("SolverFlow", cfg, timeout=1800)
    vlib.tlc_ok(r, "C04 flow")
    if r.violated:
        raise Infra("SolverFlow violates %s (model defect)" % r.violated)
    v.add("states", r.distinct); v.add("transitions", r.generated)
    cases = []
    for i, e in enumerate(r.edges):
        for mi, m in enumerate(solver.MODES):
            hsh = int(hashlib.md5(("%d|%d|%d" % (seed, i, mi)).encode()).hexdigest()[:6], 16)
            if tier == "quick" and hsh % 3 != 0:
                continue
            sw = e["hist"][0][0]
            nosrc = not (sw & 4) and not (sw & 16)
            td = e["hist"][0][2]
            cases.append(dict(edges=[e], mode=m, t04=(0 if td else [0, -10, 4000][hsh % 3]), move=0, order=hsh,
                              scale=(-40 if (nosrc and m[1] and not td and (hsh >> 5) % 3 == 0) else 0)))
    # fixed stepping with far too few steps for the tolerance: either GSL refuses and Evolve reports it, or the result is right
    ncoarse = 0
    for i, e in enumerate(r.edges):
        hsh = int(hashlib.md5(("coarse|%d|%d" % (seed, i)).encode()).hexdigest()[:6], 16)
        sw = e["hist"][0][0]
        if sw == 0 or e["hist"][0][2] or hsh % (12 if tier == "quick" else 3) != 0:
            continue
        fixed = [m for m in solver.MODES if not m[1]]
        cases.append(dict(edges=[e], mode=fixed[(hsh >> 4) % len(fixed)], t04=0, move=0, order=hsh, coarse=[1, 2, 3, 5][(hsh >> 8) % 4]))
        ncoarse += 1
    res, fails = solver.flow_replay(exe, cases)
    for f_ in [x for x in fails if x.startswith("CRASH:")]:
        v.violation("flow/crash", f_, None)
    fails = [x for x in fails if not x.startswith("CRASH:")]
    if fails:
        raise Infra("; ".join(fails[:2]))
    worst = 0.0
    refused = 0
    for i, si, err, scale, terr in res:
        c = cases[i]; e = c["edges"][si]
        if err is None:
            refused += 1
            continue
        rel = err / scale
        worst = max(worst, rel if rel == rel and rel != float("inf") else 0)
        if not (rel <= 1e-6):
            sw = e["hist"][si][0]
            v.violation("flow/%s-%s/sw=%d" % (c["mode"][0], "adaptive" if c["mode"][1] else "fixed", sw),
                        "cfg=%s hist=%s mode=%s: state differs from the exact solution by %.3g (scale %.3g)" % (e["cfg"], e["hist"], c["mode"], err, scale),
                        {"cfg": e["cfg"], "hist": e["hist"], "mode": list(c["mode"]), "t04": c["t04"]})
        if not (terr <= 1e-9):
            v.violation("clock/%s-%s" % (c["mode"][0], "adaptive" if c["mode"][1] else "fixed"), "cfg=%s hist=%s: Get_t off by %.3g" % (e["cfg"], e["hist"], terr), None)
    v.cov["flow_cases"] = len(cases)
    v.cov["coarse_fixed_step_cases"] = {"run": ncoarse, "refused_by_gsl_error_control_and_reported": refused}
    v.cov["max_rel_err"] = worst
    # ---- protocol
    rng = random.Random(seed)
    nh = 22 if tier == "quick" else 110
    nev = 0
    ntr = 0
    modes_seen = set()
    for hi in range(nh):
        mode = solver.MODES[hi % len(solver.MODES)]
        nx, nsun, nrhos, nsc = rng.choice([1, 2, 3]), rng.choice([2, 3, 4, 5, 6]), rng.choice([1, 2]), rng.choice([0, 1, 2])
        cmds = ["NEW 1 %d %d %d %d %d" % (nx, nsun, nrhos, nsc, rng.choice([0, -10, 4000])),
                "STEPPER 1 %s %d %d" % (mode[0], mode[1], 150), "TOL 1 1e-2 1e-2"]
        sw = rng.randrange(1, 32)
        for k in range(1, 6):
            cmds.append("SW 1 %d %d" % (k, (sw >> (k - 1)) & 1))
        cmds += ["EVOLVE 1 2", "SW 1 %d %d" % (rng.randrange(1, 6), rng.randrange(2)), "EVOLVE 1 1", "DESTROY 1"]
        rc, lines, err = solver.run_script(exe, cmds, timeout=240)
        ev = [l for l in lines if l.startswith("{")]
        if solver.died(rc):
            solver.crash_violation(v, "protocol", rc, cmds, err)
            continue
        if rc != 0:
            raise Infra("solver_drive failed: " + err[-500:])
        if any('"threw":true' in l for l in ev):
            # inconclusive for this history (GSL's error control may refuse a run for reasons of its own); reported as an
            # infrastructure error at the end unless the rest of the check finds a violation
            inconclusive.append("GSL reported an integration failure in a protocol run (script: %s)" % cmds)
            continue
        if any('"contract":false' in l for l in ev):
            raise Infra("environment outside assumption: GSL evaluated the first right-hand side of a run away from the caller's array")
        ok, m, bad, tr = solver.validate_trace(ev, "c04_%d" % hi)
        nev += m
        modes_seen.add(mode)
        if ok:
            ntr += 1
        else:
            b = dict(bad or {}); calls = b.pop("calls", None)
            v.violation("protocol/%s/%s-%s" % (b.get("e", "?"), mode[0], "adaptive" if mode[1] else "fixed"),
                        "event %d not explained by Solver: %s calls=%s" % (m, json.dumps(b), json.dumps(calls)[:300]), {"script": cmds, "event": bad})
        if hi < 1:
            v.sample({"script": cmds, "events": len(ev), "first_rhs": [json.loads(l) for l in ev if '"e":"Rhs"' in l][:1]})
    if len(modes_seen) < len(solver.MODES):
        raise Infra("vacuity: stepper modes not exercised")
    v.add("traces_validated_against_impl", ntr + len(cases))
    v.cov["protocol_events_validated"] = nev
    for c in cases[:2]:
        v.sample({"cfg": c["edges"][0]["cfg"], "hist": c["edges"][0]["hist"], "mode": list(c["mode"]), "expected_scalar_A": c["edges"][0]["scA"]})
    v.cov["rule"] = "flow: 8 configurations (nx 1..3, nsun 2..6, nrhos 1..2, nscalars 0..2) x all 32 switch sets x durations x 11 stepper modes (quick: 1/3 hashed); protocol: one two-segment run per stepper mode and random configuration, every Rhs validated"
    v.assumptions.append("that GSL integrates an arbitrary user right-hand side to tolerance is GSL's contract; decided here: SQuIDS hands GSL exactly the documented right-hand side (structure for all switch sets, values on the solvable family)")
    solver.long_evolve(v, exe)
    if inconclusive and not v.violations:
        raise Infra(inconclusive[0])
    return "model_checking"
