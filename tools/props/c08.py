"""C08 value semantics: copies independent, moves leave a safe source, unique ownership, user storage respected.

TLC explores SUVec exhaustively (all call histories up to MaxOps on a pool of 3 vectors, 2 dimensions, 1-2 user
buffers, the per-thread cache) checking UniqueOwner, MovedFromSafe, ExternalExact, HeapSound, NoLeak and the action
properties WriteFrame, ExternalStable, FailureFrame, CopyIndependent.  Every (state, call) pair of the explored graph
is replayed on the real library (path cover) and the recorded implementation states are validated by TLC against the
specification (Policy "any": every behaviour the property allows); seeded random histories on 6 vectors of all
dimensions with the real cache capacity are validated the same way."""
import json
import vlib, suvec
from vlib import Infra


def run(v, tier, seed, replay):
    exe = suvec.build_driver("plain")
    if replay:
        return suvec.replay(v, replay, "plain")
    # thorough: one call deeper over the same alphabet (474 k transitions, 4.5 GB); the wider alphabet at depth 4 with two user
    # buffers was tried and needs 29 GB for the exported graph - the wider alphabet is explored by C09 / C15 / C16 instead
    ops = ("add", "neg", "icomm")
    maxops = 3 if tier == "quick" else 4
    # 1. the theft as it was coded before the repair: the specification itself exhibits the defect
    cfg0 = suvec.bfs_cfg("C08_ascoded", vecs=3, dims=(2, 3), exts=(1,), maxops=4, ops=("add",), steal_empties=False, emit=False)
    r0 = vlib.tlc("SUVec", cfg0, timeout=900)
    vlib.tlc_ok(r0, "C08 as-coded exploration")
    v.cov["design_counterexample_of_pre_fix_theft"] = "TLC: %s violated after %d calls with StealEmpties=FALSE" % (r0.violated, max(0, r0.depth - 1)) if r0.violated else "NOT FOUND"
    if not r0.violated:
        raise Infra("vacuity: the specification of the pre-fix theft no longer violates MovedFromSafe/WriteFrame")
    # 2. the requirement-level specification
    cfg = suvec.bfs_cfg("C08_bfs", vecs=3, dims=(2, 3), exts=(1,), maxops=maxops, ops=ops, nblk=7)
    r = vlib.tlc("SUVec", cfg, timeout=3000)
    vlib.tlc_ok(r, "C08 exploration")
    if r.violated:
        raise Infra("SUVec violates %s (model defect):\n%s" % (r.violated, r.out[-3000:]))
    v.add("states", r.distinct)
    v.add("transitions", r.generated)
    v.cov["tlc_wall_s"] = round(r.wall, 1)
    names = set(e["act"]["name"] for e in r.edges)
    need = {"NewEmpty", "NewSized", "NewExt", "NewCopy", "NewMove", "Destroy", "Write", "SetBackingStore", "CopyAssign", "MoveAssign", "CompoundVec", "AssignExpr", "ClearCache"}
    if need - names:
        raise Infra("vacuity: calls never taken in the exploration: %s" % sorted(need - names))
    paths, npairs, nstates = suvec.path_cover(r.edges)
    v.cov["state_call_pairs"] = npairs
    v.cov["paths"] = len(paths)
    segs, info = suvec.run_paths(exe, paths)
    suvec.crash_violation(v, info)
    v.cov["paths_cut_short_not_enabled"] = info["skipped"]
    # 3. seeded random histories, all dimensions, real cache capacity
    nseg, ln = (24, 120) if tier == "quick" else (160, 250)
    rsegs, rinfo = suvec.random_segments(exe, seed, nseg, ln)
    suvec.crash_violation(v, rinfo, "random/")
    v.cov["random_calls"] = rinfo["calls"]
    m, a, rej = suvec.validate(segs, "c08p", nblk=12, batch=max(100, len(segs) // 20 + 1), jobs=12)
    m2, a2, rej2 = suvec.validate(rsegs, "c08r", nblk=40, batch=max(2, len(rsegs) // 12 + 1), jobs=12)
    suvec.report_rejections(v, rej)
    suvec.report_rejections(v, rej2, "random/")
    v.add("traces_validated_against_impl", a + a2)
    v.add("events_validated", m + m2)
    # 4. every statement shape that consumes an rvalue operand ("an arithmetic expression that consumes an rvalue operand"):
    #    SpecShape from prepared pools, all operations with an rvalue overload, both operand positions, every statement kind
    import hashlib
    cfgs = suvec.bfs_cfg("C08_shape", vecs=3, dims=(2, 3), exts=(1, 2), maxops=2, ops=("add", "neg", "elementwise", "smul"), next_op="SpecShape",
                         props=("WriteFrame", "ExternalStable", "FailureFrame"))
    rs = vlib.tlc("SUVec", cfgs, timeout=2400)
    vlib.tlc_ok(rs, "C08 shape exploration")
    if rs.violated:
        raise Infra("SUVec violates %s in the shape exploration (model defect)" % rs.violated)
    rv = [e for e in rs.edges if e["act"]["arv"] or e["act"]["brv"]]
    shsegs = []
    for (ds, dl), mod in ([((2, 3), 4), ((2, 4), 12), ((3, 5), 12)] if tier == "quick" else [((2, 3), 1), ((2, 4), 2), ((3, 5), 2), ((4, 6), 3)]):
        keep = lambda i, e: int(hashlib.md5(("%d|%d|%d|%s" % (seed, ds, dl, json.dumps(e["act"], sort_keys=True) + json.dumps(e["kinds"]))).encode()).hexdigest()[:6], 16) % mod == 0
        scripts = suvec.shape_scripts(rv, ds, dl, keep)
        sg, inf = suvec.run_paths(exe, scripts)
        guard = 0
        while inf.get("crashed") and guard < 20:
            guard += 1
            suvec.crash_violation(v, inf, "shape/d%d%d/" % (ds, dl))
            shsegs += sg
            scripts = scripts[len(sg) + 1:]
            sg, inf = suvec.run_paths(exe, scripts)
        shsegs += sg
    m3, a3, rej3 = suvec.validate(shsegs, "c08s", nblk=12, batch=max(100, len(shsegs) // 16 + 1), jobs=12)
    suvec.report_rejections(v, rej3, "shape/")
    v.add("states", rs.distinct); v.add("transitions", rs.generated)
    v.add("traces_validated_against_impl", a3)
    v.add("events_validated", m3)
    v.cov["rvalue_statements_replayed"] = len(shsegs)
    for s in segs[len(segs) // 2:len(segs) // 2 + 2] + rsegs[:1]:
        v.sample({"calls": [{k: x for k, x in json.loads(y).items() if k in ("e", "t", "a", "b", "op", "w", "arv", "brv", "out", "hev")} for y in s][:12]})
    v.cov["exhaustive"] = True
    v.cov["rule"] = "all histories of <= %d calls over %s on 3 vectors, dims {2,3}; every (state, call) pair replayed; plus %d random histories x %d calls on 6 vectors, dims 2..6" % (maxops, list(ops), nseg, ln)
    v.assumptions.append("calls on operands without storage (arithmetic on empty vectors) are outside the alphabet (documented precondition)")
    return "model_checking"
