"""C13 factory operators: SUAlgebra Factory actions, all (kind,d,i), exact 0/1 matrices replayed on the real factories."""
import algebra


def run(v, tier, seed, replay):
    if replay:
        return algebra.replay(v, replay, 16)
    ops = ["projector", "identity", "generator", "posproj", "negproj"]
    algebra.explore_and_replay(v, "C13", [dict(dims=[2, 3, 4, 5, 6], ops=ops, invs=["LawFactory"])], tolf=16)
    v.cov["exhaustive"] = True
    v.cov["rule"] = "every admissible (kind,d,index): Projector i<d, Identity, Generator k<d*d, PosProjector/NegProjector k<d"
    v.assumptions.append("PosProjector/NegProjector with k=d (the identity) is neither required nor forbidden by the property; not exercised")
    return "model_checking"
