"""C06 basis rotations: R^dagger A R for all 35 plane-rotation kernels on the pi/4 lattice, mixing matrix, B0/B1, matrix entry points."""
import algebra


def run(v, tier, seed, replay):
    if replay:
        return algebra.replay(v, replay, 1024)
    res8 = list(range(0, 8))
    wide = [-3, -1, 0, 1, 2, 3, 4, 5, 6, 7, 9, 12]
    if tier == "quick":
        runs = [dict(dims=[2, 3, 4], ops=["rotate"], invs=["LawRotate"], npat=1, phases=res8),
                dict(dims=[5, 6], ops=["rotate"], invs=["LawRotate"], npat=1, phases=res8, rotmode="seed", rotkeep=8),
                dict(dims=[2, 3, 4, 5, 6], ops=["tob1", "tob0", "mixing"], invs=["LawMixing"], npat=1, nspec=8),
                dict(dims=[2, 3, 4], ops=["wrot"], invs=["LawMixing"], npat=1, nspec=5)]
    else:
        runs = [dict(dims=[2, 3, 4, 5, 6], ops=["rotate"], invs=["LawRotate"], npat=2, phases=res8),
                dict(dims=[2, 3, 4, 5, 6], ops=["rotate"], invs=["LawRotate"], npat=0, phases=wide, rotmode="seed", rotkeep=5),
                dict(dims=[2, 3, 4, 5, 6], ops=["tob1", "tob0", "mixing"], invs=["LawMixing"], npat=2, nspec=40),
                dict(dims=[2, 3, 4, 5], ops=["wrot"], invs=["LawMixing"], npat=1, nspec=8)]
    algebra.explore_and_replay(v, "C06", runs, tolf=1024, timeout=3000)
    v.cov["rule"] = "Rotate(i,j,th,del): every index pair i<j of every dimension x (th,del) on the pi/4 lattice (all 64 residue pairs; negatives and >2pi in thorough) x every basis element; mixing matrix / RotateToB1 / RotateToB0 / Rotate(U) / UTransform(U) / UDaggerTransform(U) for single-plane, two-plane and pseudo-random angle assignments"
    v.assumptions.append("angles off the pi/4 lattice: kernels are polynomial in cos/sin of the angles, every coefficient is exercised on the lattice (pi/4 has sin, cos both non-zero)")
    return "model_checking"
