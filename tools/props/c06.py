"""C06 basis rotations: R^dagger A R for all 35 plane-rotation kernels on the pi/4 lattice, mixing matrix, B0/B1, matrix entry points."""
import algebra


def param_store(v):
    """parameter store of Const: module ParamStore explored by TLC, complete read-back compared on the real object"""
    import vlib
    from vlib import Infra
    r = vlib.tlc("ParamStore", "ParamStore.cfg", timeout=900, coverage=False)
    vlib.tlc_ok(r, "ParamStore")
    if r.violated:
        raise Infra("ParamStore violates %s (model defect)" % r.violated)
    KIND = {"angle": 0, "phase": 1, "energy": 2}
    lines = []
    def aslist(x):      # TLC prints functions over 0..W as JSON objects with string keys
        if isinstance(x, dict):
            return [aslist(x[k]) for k in sorted(x, key=int)]
        return x
    for e in r.edges:
        acts = ([e["prev"]] if e["n"] == 1 else []) + [e["act"]]
        for fld in ("angle", "phase", "energy"):
            e[fld] = aslist(e[fld])
        W = len(e["energy"]) - 1
        t = "%d %d " % (W, len(acts)) + " ".join("%d %d %d %d" % (KIND[a["k"]], a["i"], a["j"], a["v"]) for a in acts) + " " + e["out"] + " "
        t += " ".join(str(x) for row in e["angle"] for x in row) + " " + " ".join(str(x) for row in e["phase"] for x in row) + " " + " ".join(str(x) for x in e["energy"])
        lines.append(t)
    exe = vlib.build_harness("param_replay", "plain")
    rc, out, err = vlib.run_lines(exe, "\n".join(lines) + "\n", timeout=600)
    done = [l for l in out if l.startswith("DONE")]
    if rc != 0 or not done or int(done[0].split()[1]) != len(lines):
        raise Infra("param_replay failed: %s %s" % (out[-3:], err[-500:]))
    for l in out:
        if l.startswith("MISMATCH"):
            p = l.split()
            v.violation("paramstore/" + p[2].split("(")[0], l, {"line": lines[int(p[1])]})
    v.add("states", r.distinct); v.add("transitions", r.generated); v.add("traces_validated_against_impl", len(lines))
    v.cov["param_store_sequences"] = len(lines)


def run(v, tier, seed, replay):
    if replay:
        return algebra.replay(v, replay, 1024)
    res8 = list(range(0, 8))
    wide = [-3, -1, 0, 1, 2, 3, 4, 5, 6, 7, 9, 12]
    if tier == "quick":
        runs = [dict(dims=[2, 3, 4], ops=["rotate"], invs=["LawRotate"], npat=1, phases=res8),
                dict(dims=[5, 6], ops=["rotate"], invs=["LawRotate"], npat=0, phases=res8, rotmode="seed", rotkeep=12),
                dict(dims=[2, 3, 4, 5, 6], ops=["tob1", "tob0", "mixing"], invs=["LawMixing"], npat=0, nspec=7),
                dict(dims=[2, 3, 4], ops=["wrot"], invs=["LawMixing"], npat=0, nspec=4)]
    else:
        runs = [dict(dims=[2, 3, 4, 5, 6], ops=["rotate"], invs=["LawRotate"], npat=1, phases=res8),
                dict(dims=[2, 3, 4, 5, 6], ops=["rotate"], invs=["LawRotate"], npat=0, phases=wide, rotmode="seed", rotkeep=5),
                dict(dims=[2, 3, 4, 5, 6], ops=["tob1", "tob0", "mixing"], invs=["LawMixing"], npat=1, nspec=16),
                dict(dims=[2, 3, 4], ops=["wrot"], invs=["LawMixing"], npat=1, nspec=8)]
    algebra.explore_and_replay(v, "C06", runs, tolf=1024, timeout=3000)
    param_store(v)
    v.cov["rule"] = "Rotate(i,j,th,del): every index pair i<j of every dimension x (th,del) on the pi/4 lattice (all 64 residue pairs; negatives and >2pi in thorough) x every basis element; mixing matrix / RotateToB1 / RotateToB0 / Rotate(U) / UTransform(U) / UDaggerTransform(U) for single-plane, two-plane and pseudo-random angle assignments"
    v.assumptions.append("angles off the pi/4 lattice: kernels are polynomial in cos/sin of the angles, every coefficient is exercised on the lattice (pi/4 has sin, cos both non-zero)")
    return "model_checking"
