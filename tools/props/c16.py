"""C16 an allocation failure anywhere leaves every vector valid and memory uncorrupted.

SUVec with Faults = TRUE: every allocating call has a twin in which the allocation fails (outcome bad_alloc); the
requirement (FailureFrame: no vector other than the target changes; the target is left unchanged or empty; HeapSound)
is checked by TLC on all histories up to the bound, and every (state, call, failing allocation) is executed on the
real library (operator new[] armed to throw at the k-th allocation of the call, ASan build); afterwards every vector is
destroyed, the cache drained and the ledger must be empty.  The recorded traces are validated by TLC."""
import json
import vlib, suvec
from vlib import Infra


def nested_expression_faults(v, tier):
    """module ExprFaults: statements with nested expressions, the k-th allocation failing (ASan build, own ledger)"""
    r = vlib.tlc("ExprFaults", "ExprFaults.cfg", timeout=600, coverage=False)
    vlib.tlc_ok(r, "ExprFaults")
    cases = [e for e in r.edges if e.get("e") != "none"]
    if len(cases) < 2000:
        raise Infra("ExprFaults exported only %d cases" % len(cases))
    exe = vlib.build_harness("exprfault_replay", "asan", extra_flags=["-std=c++14"])
    lines = ["%d %s %s %d %d %d" % (i, e["e"], e["f"], e["d"], e["k"], e["w"]) for i, e in enumerate(cases)]
    start = 0; nfired = 0; guard = 0; seen = {}
    def report(i, what, extra=""):
        e = cases[i]
        key = "nested/%s/%s/%s%s" % (e["e"], e["f"], what.split(":")[0], ["", "/warm-cache", "/full-cache"][e["w"]])
        seen[key] = seen.get(key, 0) + 1
        if seen[key] <= 2:
            v.violation(key, "statement form %s with right-hand side %s, dimension %d, cache %s, allocation #%d failing: %s %s" % (e["f"], e["e"], e["d"], ["cold", "one spare block of the target's dimension", "target's dimension full"][e["w"]], e["k"], what, extra), {"exprfault_case": e})
    while start < len(lines) and guard < 12:      # (every std::terminate / crash costs a restart: a dozen are evidence enough)
        guard += 1
        rc, out, err = vlib.run_lines(exe, "\n".join(lines[start:]) + "\n", timeout=900, env={"ASAN_OPTIONS": "detect_leaks=0:abort_on_error=0:allocator_may_return_null=1"})
        for l in out:
            if l.startswith("FAIL"):
                p = l.split()
                report(int(p[1]), p[2])
        if any(l.startswith("BADINPUT") for l in out):
            raise Infra("exprfault_replay rejected its input")
        done = [l for l in out if l.startswith("DONE")]
        if done:
            nfired += int(done[0].split()[3])
            break
        died = [l for l in out if l.startswith("DIED")]
        fails = [int(l.split()[1]) for l in out if l.startswith("FAIL")]
        if died and fails:
            start = fails[-1] + 1            # std::terminate inside that case (already reported): go on behind it
            continue
        # killed by a signal / sanitizer report: locate the case by bisection (finished cases print nothing unless they fail)
        lo, hi = start, len(lines)
        while hi - lo > 1:
            mid = (lo + hi) // 2
            rc2, out2, err2 = vlib.run_lines(exe, "\n".join(lines[lo:mid]) + "\n", timeout=900, env={"ASAN_OPTIONS": "detect_leaks=0:abort_on_error=0:allocator_may_return_null=1"})
            if any(l.startswith("DONE") for l in out2):
                lo = mid
            else:
                hi = mid
        first = [l for l in err.splitlines() if "ERROR: AddressSanitizer" in l or "runtime error" in l][:1]
        report(lo, "memory-error-or-crash", "(rc=%s %s)" % (rc, first))
        start = lo + 1
    v.add("states", r.distinct); v.add("transitions", r.generated); v.add("traces_validated_against_impl", len(cases))
    v.cov["nested_expression_fault_cases"] = {"cases": len(cases), "in_which_the_armed_allocation_fired": nfired}
    if nfired < len(cases) // 10 and not seen:
        raise Infra("vacuity: the armed allocation fired in only %d of %d nested-expression cases" % (nfired, len(cases)))


def run(v, tier, seed, replay):
    if replay:
        return suvec.replay(v, replay, "asan")
    exe = suvec.build_driver("asan")
    ops = ("add", "icomm", "list", "factory") if tier == "quick" else ("add", "neg", "icomm", "elementwise", "list", "factory")
    cfg = suvec.bfs_cfg("C16_bfs", vecs=3, dims=(2, 3), exts=(1,), maxops=3, ops=ops, nblk=7, faults=True)      # depth 4 is ~7 M transitions: the exported graph does not fit in memory (tried: 65 GB)
    r = vlib.tlc("SUVec", cfg, timeout=3000)
    vlib.tlc_ok(r, "C16 exploration")
    if r.violated:
        raise Infra("SUVec violates %s (model defect):\n%s" % (r.violated, r.out[-3000:]))
    v.add("states", r.distinct)
    v.add("transitions", r.generated)
    faulted = [e for e in r.edges if e["out"] == "bad_alloc"]
    classes = set((e["act"]["name"], e["act"]["op"], e["act"]["w"]) for e in faulted)
    v.cov["fault_transitions"] = len(faulted)
    v.cov["fault_call_classes"] = sorted("/".join(c) for c in classes)
    if len(classes) < 6:
        raise Infra("vacuity: too few faulting call classes explored: %s" % sorted(classes))
    paths, npairs, nstates = suvec.path_cover(r.edges)
    segs, info = suvec.run_paths(exe, paths)
    suvec.crash_violation(v, info)
    nseg, ln = (24, 120) if tier == "quick" else (160, 250)
    allr = []
    calls = 0
    for part in range(4):
        rsegs, rinfo = suvec.random_segments(exe, seed * 11 + part, nseg // 4 + 1, ln, faults=True)
        suvec.crash_violation(v, rinfo, "random/")
        allr += rsegs
        calls += rinfo["calls"]
    fired = sum(1 for s in segs + allr for y in s if '"out":"bad_alloc"' in y)
    v.cov["injected_failures_that_fired"] = fired
    if fired < 20:
        raise Infra("vacuity: allocation failures hardly ever fired (%d)" % fired)
    m, a, rej = suvec.validate(segs, "c16p", nblk=12, batch=max(100, len(segs) // 16 + 1), jobs=12)
    m2, a2, rej2 = suvec.validate(allr, "c16r", nblk=48, batch=max(2, len(allr) // 12 + 1), jobs=12)
    suvec.report_rejections(v, rej)
    suvec.report_rejections(v, rej2, "random/")
    v.add("traces_validated_against_impl", a + a2)
    v.cov["evaluations"] = fired
    v.cov["distinct_nontrivial"] = len(classes)
    v.cov["events_validated"] = m + m2
    v.cov["exhaustive"] = True
    for s in [x for x in segs if any('"out":"bad_alloc"' in y for y in x)][:2]:
        v.sample({"calls": [{k: x for k, x in json.loads(y).items() if k in ("e", "t", "a", "b", "op", "w", "d", "fail", "out", "hev")} for y in s]})
    v.cov["rule"] = ("every (reachable state of <= %d calls, allocating call, k-th allocation fails) of the exploration; a case is non-trivial when the injected failure actually fired; "
                     "distinct = call classes (call, operation, statement kind) in which it fired") % 3
    v.assumptions.append("only the library's block allocations (operator new[]) are failed; std::string/exception allocations are not")
    nested_expression_faults(v, tier)
    return "fault_enumeration"
