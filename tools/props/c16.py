"""C16 an allocation failure anywhere leaves every vector valid and memory uncorrupted.

SUVec with Faults = TRUE: every allocating call has a twin in which the allocation fails (outcome bad_alloc); the
requirement (FailureFrame: no vector other than the target changes; the target is left unchanged or empty; HeapSound)
is checked by TLC on all histories up to the bound, and every (state, call, failing allocation) is executed on the
real library (operator new[] armed to throw at the k-th allocation of the call, ASan build); afterwards every vector is
destroyed, the cache drained and the ledger must be empty.  The recorded traces are validated by TLC."""
import json
import vlib, suvec
from vlib import Infra


def run(v, tier, seed, replay):
    if replay:
        return suvec.replay(v, replay, "asan")
    exe = suvec.build_driver("asan")
    ops = ("add", "icomm", "list", "factory") if tier == "quick" else ("add", "neg", "icomm", "elementwise", "list", "factory")
    cfg = suvec.bfs_cfg("C16_bfs", vecs=3, dims=(2, 3), exts=(1,), maxops=3, ops=ops, nblk=7, faults=True)      # depth 4 is ~7 M transitions: the exported graph does not fit in memory (tried: 65 GB)
    r = vlib.tlc("SUVec", cfg, timeout=3000)
    vlib.tlc_ok(r, "C16 exploration")
    if r.violated:
        raise Infra("SUVec violates %s (model defect):\n%s" % (r.violated, r.out[-3000:]))
    v.add("states", r.distinct)
    v.add("transitions", r.generated)
    faulted = [e for e in r.edges if e["out"] == "bad_alloc"]
    classes = set((e["act"]["name"], e["act"]["op"], e["act"]["w"]) for e in faulted)
    v.cov["fault_transitions"] = len(faulted)
    v.cov["fault_call_classes"] = sorted("/".join(c) for c in classes)
    if len(classes) < 6:
        raise Infra("vacuity: too few faulting call classes explored: %s" % sorted(classes))
    paths, npairs, nstates = suvec.path_cover(r.edges)
    segs, info = suvec.run_paths(exe, paths)
    suvec.crash_violation(v, info)
    nseg, ln = (24, 120) if tier == "quick" else (160, 250)
    allr = []
    calls = 0
    for part in range(4):
        rsegs, rinfo = suvec.random_segments(exe, seed * 11 + part, nseg // 4 + 1, ln, faults=True)
        suvec.crash_violation(v, rinfo, "random/")
        allr += rsegs
        calls += rinfo["calls"]
    fired = sum(1 for s in segs + allr for y in s if '"out":"bad_alloc"' in y)
    v.cov["injected_failures_that_fired"] = fired
    if fired < 20:
        raise Infra("vacuity: allocation failures hardly ever fired (%d)" % fired)
    m, a, rej = suvec.validate(segs, "c16p", nblk=12, batch=max(100, len(segs) // 16 + 1), jobs=12)
    m2, a2, rej2 = suvec.validate(allr, "c16r", nblk=48, batch=max(2, len(allr) // 12 + 1), jobs=12)
    suvec.report_rejections(v, rej)
    suvec.report_rejections(v, rej2, "random/")
    v.add("traces_validated_against_impl", a + a2)
    v.cov["evaluations"] = fired
    v.cov["distinct_nontrivial"] = len(classes)
    v.cov["events_validated"] = m + m2
    v.cov["exhaustive"] = True
    for s in [x for x in segs if any('"out":"bad_alloc"' in y for y in x)][:2]:
        v.sample({"calls": [{k: x for k, x in json.loads(y).items() if k in ("e", "t", "a", "b", "op", "w", "d", "fail", "out", "hev")} for y in s]})
    v.cov["rule"] = ("every (reachable state of <= %d calls, allocating call, k-th allocation fails) of the exploration; a case is non-trivial when the injected failure actually fired; "
                     "distinct = call classes (call, operation, statement kind) in which it fired") % 3
    v.assumptions.append("only the library's block allocations (operator new[]) are failed; std::string/exception allocations are not")
    return "fault_enumeration"
