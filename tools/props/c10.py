"""C10 evolved state and clock depend only on total elapsed time, not on call history.

(1) Design: TLC explores module Solver (pointer re-binding with the last-pointer cache exactly as coded, driver buffer
    addresses reused freely) for all histories up to the bound: BindOK/AfterEvolve/SysUnique hold under GslContract;
    without the clause 'first right-hand side at the caller's array' TLC finds the stale-cache counterexample (recorded).
(2) Binding B: seeded random histories over {Evolve(dt>=0), toggle, AnyNumerics, change stepper, move-construct,
    move-assign, re-initialise} in all stepper modes are recorded (hooks in SQuIDS.cpp) and validated by TLC.
(3) Binding A: two-segment histories of SolverFlow (switch sets changed between segments, zero-length segments, the
    object moved between segments) compared with the exact flow; clock exact."""
import hashlib, json, os, random
import vlib, solver
from vlib import Infra


def run(v, tier, seed, replay):
    exe = solver.build()
    inconclusive = []
    r1 = vlib.tlc("Solver", "Solver_bfs.cfg", timeout=1200)
    vlib.tlc_ok(r1, "Solver exploration")
    if r1.violated:
        raise Infra("Solver violates %s under GslContract (model defect or protocol defect of the design):\n%s" % (r1.violated, r1.out[-2000:]))
    r2 = vlib.tlc("Solver", "Solver_nocontract.cfg", timeout=1200)
    vlib.tlc_ok(r2, "Solver exploration without contract")
    v.cov["latent_hazard_without_gsl_first_call_contract"] = ("TLC: BindOK violated at depth %d" % r2.depth) if r2.violated else "not found"
    v.add("states", r1.distinct); v.add("transitions", r1.generated)
    if tier == "thorough":
        # unbounded: BindOK /\ AfterEvolve /\ SysUnique (+ auxiliary clauses) is an inductive invariant of the typed transcription
        vlib.apalache_inductive("SolverInd")
        v.cov["inductive_invariant_apalache"] = ("Init => IndInv and IndInv /\\ Next => IndInv' (SolverInd.tla: BindOK, AfterEvolve, SysUnique under GslContract; "
                                                 "3 objects, 6 addresses), unbounded in the number of steps and Evolve runs")
    # ---- protocol traces
    rng = random.Random(seed)
    nh = 30 if tier == "quick" else 200
    ntr = 0; nev = 0
    kinds = set()
    for hi in range(nh):
        cmds = solver.random_history(rng, 10 if tier == "quick" else 16)
        cmds = [c.replace(" 4000", " 60") if c.startswith("STEPPER") and " 0 " in c else c for c in cmds]
        cmds = [("STEPPER %s %s 0 150" % tuple(c.split()[1:3])) if (c.startswith("STEPPER") and c.split()[3] == "0") else c for c in cmds]
        cmds = [("TOL %s 1e-2 1e-2" % c.split()[1]) if c.startswith("TOL") else c for c in cmds]
        rc, lines, err = solver.run_script(exe, cmds, timeout=240)
        if solver.died(rc):
            solver.crash_violation(v, "protocol", rc, cmds, err)
            continue
        if rc != 0:
            raise Infra("solver_drive failed: " + err[-500:])
        ev = [l for l in lines if l.startswith("{")]
        if any('"threw":true' in l for l in ev):
            # inconclusive for this history (GSL's error control may refuse a run for reasons of its own); reported as an
            # infrastructure error at the end unless the rest of the check finds a violation
            inconclusive.append("GSL reported an integration failure in a protocol run (script: %s)" % cmds)
            continue
        if any('"contract":false' in l for l in ev):
            raise Infra("environment outside assumption: GSL evaluated the first right-hand side of a run away from the caller's array")
        if any('"e":"Exception"' in l for l in ev):
            raise Infra("driver command raised: %s" % [l for l in ev if "Exception" in l][:1])
        for l in ev:
            if '"e":"Rhs"' not in l:
                kinds.add(json.loads(l)["e"] + ("/ctor" if '"ctor":true' in l else "/assign" if '"ctor":false' in l else ""))
        ok, m, bad, tr = solver.validate_trace(ev, "c10_%d" % hi)
        nev += m
        if ok:
            ntr += 1
        else:
            b = dict(bad or {}); b.pop("calls", None)
            v.violation("protocol/%s" % b.get("e", "?"), "event %d not explained by Solver: %s" % (m, json.dumps(b)), {"script": cmds, "event": bad})
        if hi < 1:
            v.sample({"script": cmds, "events": len(ev)})
    need = {"Ini", "Switch", "SetAny", "EvolveStart", "EvolveEnd", "Move/ctor", "Move/assign", "Destroy"}
    if need - kinds:
        raise Infra("vacuity: event kinds never recorded: %s" % sorted(need - kinds))
    v.cov["protocol_events_validated"] = nev
    solver.long_evolve(v, exe)
    # ---- lifetimes (module SolverSeq): every sequence of construct / re-initialise to another size / toggle / Evolve / move
    cfq = os.path.join(vlib.cfgdir(), "C10_solverseq.cfg")
    with open(cfq, "w") as f:
        f.write("SPECIFICATION Spec\nCONSTANTS\n  MaxOps = %d\nACTION_CONSTRAINT Emit\nCHECK_DEADLOCK FALSE\n" % (5 if tier == "quick" else 6))
    rq = vlib.tlc("SolverSeq", cfq, timeout=900, coverage=False)
    vlib.tlc_ok(rq, "SolverSeq")
    sviol, nscripts, nevol = solver.seq_replay(exe, rq.edges)
    if nscripts < 500:
        raise Infra("SolverSeq exported only %d behaviours ending with an Evolve" % nscripts)
    seenk = {}
    for key, text, hist_ in sviol:
        seenk[key] = seenk.get(key, 0) + 1
        if seenk[key] <= 3:
            v.violation(key, "history %s: %s" % (hist_, text), {"lifetime_hist": hist_})
    v.add("states", rq.distinct); v.add("transitions", rq.generated)
    v.cov["lifetime_behaviours_replayed"] = {"scripts": nscripts, "evolve_calls_judged": nevol}
    ntr += nscripts
    # ---- the whole configuration travels with a move (module SolverCfg): every history of setters and moves replayed
    nsc = 0
    for decoy in ("TRUE", "FALSE"):
        cfgp = os.path.join(vlib.cfgdir(), "C10_solvercfg_%s.cfg" % decoy)
        with open(cfgp, "w") as f:
            f.write("SPECIFICATION Spec\nCONSTANTS\n  MaxOps = %d\n  Decoy = %s\nINVARIANT LineageOK\nACTION_CONSTRAINT Emit\nCHECK_DEADLOCK FALSE\n" % (2 if tier == "quick" else 3, decoy))
        rc_ = vlib.tlc("SolverCfg", cfgp, timeout=900, coverage=False)
        vlib.tlc_ok(rc_, "SolverCfg")
        if rc_.violated:
            raise Infra("SolverCfg violates %s (model defect)" % rc_.violated)
        # histories with at least one move, every history of at most two setter calls, and every longer one over the term switches and the
        # master switch (a setter called with the value the field already has, a master switch set against the terms, ...)
        SWF = ("sw1", "sw2", "sw3", "sw4", "sw5", "any")
        ed = [e for e in rc_.edges if e["hist"] and (any(h[0] != "set" for h in e["hist"]) or len(e["hist"]) <= 2 or all(h[1] in SWF for h in e["hist"]))]
        if len(ed) < 50:
            raise Infra("SolverCfg exported only %d histories with a move" % len(ed))
        cres, cfails = solver.cfg_replay(exe, ed)
        for f_ in [x for x in cfails if x.startswith("CRASH:")]:
            v.violation("solvercfg/crash", f_, None)
        cfails = [x for x in cfails if not x.startswith("CRASH:")]
        if cfails:
            raise Infra("; ".join(cfails[:2]))
        for i, what, detail in cres:
            e = ed[i]
            mv = [h[0] for h in e["hist"] if h[0] != "set"]
            v.violation("solvercfg/%s/%s" % (mv[-1] if mv else "setters", what), "history %s (decoy object %s): %s" % (e["hist"], "present" if e["decoy"] else "absent", detail), {"hist": e["hist"], "decoy": e["decoy"], "cfg": e["cfg"]})
        v.add("states", rc_.distinct); v.add("transitions", rc_.generated)
        nsc += len(ed)
    v.cov["configuration_histories_with_moves"] = nsc
    ntr += nsc
    # ---- the repository's example programs as trace sources (hooks only, sources untouched)
    ex_names = ["RabiOscilations", "VacuumNeutrinoOscillations"] if tier == "quick" else ["RabiOscilations", "VacuumNeutrinoOscillations", "CollectiveNeutrinoOscillations"]
    ntr_ex, nev_ex = solver.example_traces(v, ex_names, 2500 if tier == "quick" else 20000)
    ntr += ntr_ex; nev += nev_ex
    # ---- step-size controls (part of "change stepper/tolerances"): module StepCtl explored by TLC, every history replayed
    rs = vlib.tlc("StepCtl", "StepCtl.cfg", timeout=600, coverage=False)
    vlib.tlc_ok(rs, "StepCtl")
    cmds = ["QUIET 1", "NEW 1 1 2 1 0 0"]
    exp = []
    for e in rs.edges:
        cmds.append("NEW 2 1 2 1 1 0")
        cmds.append("STEPCTL 2 %d " % len(e["hist"]) + " ".join("%s %d" % (k, x) for k, x in e["hist"]))
        cmds.append("DESTROY 2")
        exp.append(e)
    cmds.append("DESTROY 1")
    rc, lines, err = solver.run_script(exe, cmds, timeout=240)
    outs = [l.split() for l in lines if l.startswith("STEPCTL ")]
    if rc != 0 or len(outs) != len(exp):
        raise Infra("step-control replay failed: rc=%s %d/%d %s" % (rc, len(outs), len(exp), err[-300:]))
    for e, o in zip(exp, outs):
        got = (float(o[1]) * 2, float(o[2]) * 2, float(o[3]) * 2)
        if got != (float(e["h2"]), float(e["hmin2"]), float(e["hmax2"])) or o[4] != "1":
            v.violation("stepctl/%s" % e["hist"][-1][0], "after %s: Get_h, Get_h_min, Get_h_max = %s, specification %s; clock/state untouched=%s" % (
                e["hist"], [x / 2 for x in got], [e["h2"] / 2, e["hmin2"] / 2, e["hmax2"] / 2], o[4]), {"hist": e["hist"]})
    v.add("states", rs.distinct); v.add("transitions", rs.generated)
    v.cov["step_control_histories"] = len(exp)
    # ---- values: two segments, toggles, zero length, moves
    later = [0, 31, 5, 26, 1, 2] if tier == "quick" else [0, 31, 5, 26, 1, 2, 4, 8, 16, 21]
    first = [31, 0, 3, 7, 24, 10, 21, 1, 2, 4, 8, 16] if tier == "quick" else list(range(32))
    cfg = solver.flow_cfg("C10_flow", 8, 2, [0, 1, 2], first, later)
    r = vlib.tlc("SolverFlow", cfg, timeout=2400)
    vlib.tlc_ok(r, "C10 flow")
    if r.violated:
        raise Infra("SolverFlow violates %s (model defect)" % r.violated)
    v.add("states", r.distinct); v.add("transitions", r.generated)
    one = {}
    for e in r.edges:
        if len(e["hist"]) == 1:
            one[(tuple(e["cfg"]), tuple(e["hist"][0]))] = e
    cases = []
    for i, e in enumerate(r.edges):
        if len(e["hist"]) != 2:
            continue
        hsh = int(hashlib.md5(("%d|%d" % (seed, i)).encode()).hexdigest()[:6], 16)
        if tier == "quick" and hsh % 3 != 0:
            continue
        e1 = one[(tuple(e["cfg"]), tuple(e["hist"][0]))]
        cases.append(dict(edges=[e1, e], mode=solver.MODES[hsh % len(solver.MODES)], t04=(0 if e["hist"][0][2] else [0, -10, 4000][(hsh >> 4) % 3]), move=(hsh >> 8) % 3, order=hsh))
    res, fails = solver.flow_replay(exe, cases)
    for f_ in [x for x in fails if x.startswith("CRASH:")]:
        v.violation("flow/crash", f_, None)
    fails = [x for x in fails if not x.startswith("CRASH:")]
    if fails:
        raise Infra("; ".join(fails[:2]))
    worst = 0.0
    for i, si, err, scale, terr in res:
        c = cases[i]; e = c["edges"][si]
        rel = err / scale
        worst = max(worst, rel if rel == rel and rel != float("inf") else 0)
        if not (rel <= 1e-6):
            v.violation("flow/seg%d/move=%d/sw=%s" % (si, c["move"], [h[0] for h in e["hist"]]),
                        "cfg=%s hist=%s mode=%s move=%d: state differs from the exact flow by %.3g (scale %.3g)" % (e["cfg"], e["hist"], c["mode"], c["move"], err, scale),
                        {"cfg": e["cfg"], "hist": e["hist"], "mode": list(c["mode"]), "t04": c["t04"], "move": c["move"]})
        if not (terr <= 1e-9):
            v.violation("clock/seg%d/move=%d" % (si, c["move"]), "cfg=%s hist=%s: Get_t off by %.3g" % (e["cfg"], e["hist"], terr), None)
    v.cov["flow_histories"] = len(cases)
    # ---- step-size controls interleaved with Evolve over fractions of a tick (module StepCtl with EVals): the state after
    #      a history is the flow over the elapsed time whatever h, h_min, h_max are; GSL may refuse a run (reported by
    #      Evolve as an exception): such histories are not judged beyond the read-back of the controls.
    cfg2 = os.path.join(vlib.cfgdir(), "C10_stepctl_ev.cfg")
    with open(cfg2, "w") as f:
        f.write("SPECIFICATION Spec\nCONSTANTS\n  Vals = {1, 4, 64}\n  EVals = {1, 1023, 1024}\n  MaxEl = 2048\n  MaxOps = %d\nACTION_CONSTRAINT Emit\nCHECK_DEADLOCK FALSE\n" % (3 if tier == "quick" else 4))
    re_ = vlib.tlc("StepCtl", cfg2, timeout=900, coverage=False)
    vlib.tlc_ok(re_, "StepCtl with Evolve")
    evh = [e for e in re_.edges if any(k == "ev" for k, _ in e["hist"])]
    cfgs = sorted(set(k[0] for k in one if (k[0], (31, 1, 0)) in one and (k[0], (31, 2, 0)) in one))[:3]
    if not cfgs or not evh:
        raise Infra("step-control/Evolve replay has nothing to run (cfgs=%s histories=%d)" % (cfgs, len(evh)))
    smodes = [("rk8pd", 1), ("rkf45", 1), ("rk4", 0), ("rkck", 1), ("msadams", 1), ("rk8pd", 0)]
    sres, sfails = solver.stepctl_replay(exe, evh, one, [list(c) for c in cfgs], smodes)
    for f_ in [x for x in sfails if x.startswith("CRASH:")]:
        v.violation("stepctl/evolve/crash", f_, None)
    sfails = [x for x in sfails if not x.startswith("CRASH:")]
    if sfails:
        raise Infra("; ".join(sfails[:2]))
    judged = refused = 0
    for i, r_ in sres:
        e = evh[i]
        if not r_["ctl_ok"]:
            v.violation("stepctl/evolve/read-back", "after %s (mode %s): Get_h, Get_h_min, Get_h_max = %s units, specification %s" % (
                e["hist"], r_["mode"], r_["got_ctl"], [e["h2"] / 2, e["hmin2"] / 2, e["hmax2"] / 2]), {"hist": e["hist"], "mode": list(r_["mode"])})
        if r_["refused"]:
            refused += 1
            continue
        if not r_["clock_ok"]:
            v.violation("stepctl/evolve/clock", "after %s (units of 2^-10): Get_t = %r, elapsed %r" % (e["hist"], r_["t"], e["el"] / 1024.0), {"hist": e["hist"], "mode": list(r_["mode"])})
        if r_["err"] is not None:
            judged += 1
            if not (r_["err"] / r_["scale"] <= 1e-6):
                ctl = [k for k, _ in e["hist"] if k != "ev"]
                v.violation("stepctl/evolve/state/%s" % ("+".join(sorted(set(ctl))) or "none"),
                            "history %s (units of 2^-10 tick; mode %s cfg %s): state after %d whole tick(s) differs from the exact flow by %.3g (scale %.3g)" % (
                                e["hist"], r_["mode"], r_["cfg"], e["el"] // 1024, r_["err"], r_["scale"]), {"hist": e["hist"], "mode": list(r_["mode"]), "cfg": r_["cfg"]})
    if judged < len(evh) // 10:
        raise Infra("vacuity: only %d of %d step-control/Evolve histories reached a whole tick without GSL refusing" % (judged, len(evh)))
    v.add("states", re_.distinct); v.add("transitions", re_.generated)
    v.cov["step_control_evolve_histories"] = {"replayed": len(evh), "state_compared_with_exact_flow": judged, "refused_by_gsl_step_control": refused}
    v.cov["max_rel_err"] = worst
    v.add("traces_validated_against_impl", ntr + len(cases))
    for c in cases[:1]:
        v.sample({"cfg": c["edges"][-1]["cfg"], "hist": c["edges"][-1]["hist"], "mode": list(c["mode"]), "move": c["move"], "t04": c["t04"]})
    v.cov["rule"] = "protocol: %d random histories (<=3 objects, 11 stepper modes) validated event by event; flow: 8 configurations x first switch sets x later switch sets x ticks {0,1,2}^2, moved by ctor/assignment/not, three initial times" % nh
    v.assumptions.append("GslContract (first right-hand side of a run at the caller's array) is an environment assumption, monitored on every trace; its failure is reported as inconclusive")
    if inconclusive and not v.violations:
        raise Infra(inconclusive[0])
    return "model_checking"
