"""C19 - the shared block cache hands every cached block to at most one taker.

  1. TLC, spec/LFCache.tla (repaired order of get(), the specification's default), exhaustive with spurious CAS
     failures: AtMostOnce, OnlyInserted, FailedInsertKeeps, Drain.
  2. binding A: every transition of the exported 2-thread graphs is replayed on the real Cache.h (shared variant)
     under the coroutine scheduler of harness/lfcache_replay, full state compared after each step; 3-thread
     behaviours from TLC simulation are replayed the same way.
  3. the order of get() as originally written (GetReadsAfterPush = TRUE): TLC must find the double fetch (this also
     shows the invariants can fail); the counterexample is replayed on the real code. If the real code follows
     it to the end the defect is present in the tree under test: VIOLATION.
  4. binding B: seeded random schedules of the real code -> ndjson -> spec/LFCacheTrace.tla.
  5. sequential clause: TLC explores spec/SeqCache.tla (all insert/get strings), replayed on both variants.
"""
import os, json, time, collections
import vlib, c19_lib as L
from vlib import Infra

LEVEL = "model_checking"
W = min(8, vlib.NCPU)          # TLC workers (the machine is shared)


def log(msg):
    vlib.log("[C19 %6.1fs] %s" % (time.time() - T0, msg))


T0 = time.time()


def mism_key(g_edge_cls, op, field, exp, got):
    if op == "get" and g_edge_cls == "PopCas.ok" and field == "pc" and exp == str(L.PC["getRead"]) and got == str(L.PC["pushLoad"]):
        # the real get() pushes the record onto the free list before it reads the payload
        return "get/read-after-push/order"
    return "replay/%s/%s/%s" % (op, g_edge_cls, field.split("[")[0])


def tlc_design(v, name, n, nt, ops, export, timeout):
    """exhaustive run of the repaired specification; returns (TlcResult, graph or None)"""
    cfg = L.write_cfg(name, n, nt, ops, grap=False, emit="Emit" if export else None)
    dump = os.path.join(vlib.cfgdir(), name + "_ce.json")
    if os.path.exists(dump):
        os.remove(dump)
    r = vlib.tlc("LFCache", cfg, workers=W, timeout=timeout, keep_out=True, dump_trace=dump)
    vlib.tlc_ok(r, name)
    v.add("states", r.distinct)
    v.add("transitions", r.generated)
    v.cov.setdefault("tlc_runs", []).append({"config": "LFCache N=%d threads=%d ops=%d repaired spurious" % (n, nt, ops),
                                             "distinct": r.distinct, "generated": r.generated, "depth": r.depth,
                                             "wall_s": round(r.wall, 1), "exported": bool(export)})
    return r, dump


PER_KEY = 3    # violations reported in full per key; the rest are only counted (evidence: mismatches_per_key)


def fmt(field, x):
    if field == "pc":
        try:
            return L.PCS[int(x)]
        except (ValueError, IndexError):
            return x
    return x


def report_mismatches(v, rr, describe, payload_of):
    """rr: ReplayResult; describe(pid, step) -> (op, cls); payload_of(pid) -> replay payload"""
    per = v.cov.setdefault("mismatches_per_key", {})
    if rr.crashed:
        rc, err, nlines = rr.crashed
        v.violation("replay/crash", "the real cache code died with signal %s while stepping through behaviours of the specification "
                    "(after %d report lines; %d mismatches reported before): %s" % (-rc, nlines, len(rr.mism), err[-300:]), None)
    for pid, step, t, pcb, field, exp, got in rr.mism:
        op, cls = describe(pid, step)
        key = mism_key(cls, op, field, exp, got)
        per[key] = per.get(key, 0) + 1
        if per[key] > PER_KEY:
            continue
        v.violation(key, "path %d step %d: thread %d resumed at %s (%s %s): real %s = %s, specification %s" % (
            pid, step, t, pcb, op, cls, field, fmt(field, got), fmt(field, exp)), payload_of(pid))
    return len(rr.mism)


def replay_graph(v, exe, g, tag):
    paths = L.path_cover(g)
    text = L.graph_paths_text(g, paths)
    rr = L.run_replay(exe, text)
    nsteps = sum(len(p) for p in paths)
    log("%s: %d transitions covered by %d paths (%d steps); %d paths ok, %d mismatching" % (
        tag, len(g.edges), len(paths), nsteps, rr.ok, len(rr.mism)))

    def describe(pid, step):
        if step == 0:
            return "none", "Init"
        e = g.edges[paths[pid][step - 1]]
        return e[4], e[5]

    def payload_of(pid):
        p = paths[pid]
        sts = [L.dec(g.keys[g.init])] + [L.dec(g.keys[g.edges[ei][3]]) for ei in p]
        return {"kind": "path", "n": g.n, "nt": g.nt, "states": sts}
    report_mismatches(v, rr, describe, payload_of)
    v.add("traces_validated_against_impl", len(paths))
    v.add("replayed_steps", rr.steps)
    v.add("replayed_transitions", len(g.edges))
    if paths:
        p = min(paths, key=len)
        v.sample({"what": "one replayed path of %s (thread, action) - real state equal to the specification state after every step" % tag,
                  "steps": [[g.edges[ei][1], g.edges[ei][5]] for ei in p][:60],
                  "final_state": L.show(L.dec(g.keys[g.edges[p[-1]][3]]))}, cap=12)
    return len(paths)


def replay_state_lists(v, exe, n, nt, lists, tag, hist=False):
    """lists: list of lists of decoded states (each starting at the initial state)"""
    tab, P, cls_of = {}, [], {}
    nid = 0
    for pid, sts in enumerate(lists):
        ids = []
        for s in sts:
            tab[nid] = s
            ids.append(nid)
            nid += 1
        steps, classes = [], []
        for i in range(1, len(sts)):
            t = L.mover(sts[i - 1], sts[i])
            op, cls = L.edge_class(sts[i - 1], t, sts[i])
            steps.append((t, 1 if cls.endswith(".spurious") else 0, ids[i]))
            classes.append((op, cls))
        cls_of[pid] = classes
        P.append((pid, ids[0], steps))
    rr = L.run_replay(exe, L.harness_text(n, nt, tab, P), hist=hist)
    return rr, cls_of


def sim_paths(v, exe, n, nt, ops, num, seed, tag):
    cfg = L.write_cfg("C19_sim_%d_%d_%d" % (n, nt, ops), n, nt, ops, grap=False, rec=True, emit="EmitPath", view=False)
    r = vlib.tlc("LFCache", cfg, workers=1, timeout=600, simulate=num, depth=400, seed=seed, keep_out=True, coverage=False)
    vlib.tlc_ok(r, tag)
    if r.violated:
        raise Infra("simulation of the repaired specification violated %s (exhaustive runs did not?)" % r.violated)
    raw = L.parse_paths(r.out)
    if not raw:
        raise Infra("TLC simulation produced no complete behaviour for %s" % tag)
    init = [[0, n - 1, 0, n], [n if i == 0 else i - 1 for i in range(n)], [0] * n,
            [[0, 0, 0, 0, 0, 0, n, 0, 0, 0] for _ in range(nt)], [], [], [], []]
    lists = [[init] + [s for (_, s) in p] for p in raw]
    rr, cls_of = replay_state_lists(v, exe, n, nt, lists, tag)
    log("%s: %d simulated behaviours (%d steps) replayed; %d ok, %d mismatching" % (tag, len(lists), rr.steps, rr.ok, len(rr.mism)))
    report_mismatches(v, rr, lambda pid, step: cls_of[pid][step - 1] if step else ("none", "Init"),
                      lambda pid: {"kind": "path", "n": n, "nt": nt, "states": lists[pid]})
    v.add("traces_validated_against_impl", len(lists))
    v.add("replayed_steps", rr.steps)
    v.add("simulated_behaviours_replayed", len(lists))
    return len(lists)


def as_written(v, exe, n, nt, ops):
    """GetReadsAfterPush = TRUE: TLC must find the double fetch; replay it on the real code"""
    name = "C19_aswritten_%d_%d_%d" % (n, nt, ops)
    cfg = L.write_cfg(name, n, nt, ops, grap=True, invs=["AtMostOnce"])
    dump = os.path.join(vlib.cfgdir(), name + "_ce.json")
    if os.path.exists(dump):
        os.remove(dump)
    r = vlib.tlc("LFCache", cfg, workers=W, timeout=600, keep_out=True, dump_trace=dump)
    vlib.tlc_ok(r, name)
    if r.violated != "AtMostOnce" or not os.path.exists(dump):
        raise Infra("the specification with GetReadsAfterPush = TRUE no longer yields the double fetch (violated=%s): "
                    "the invariant AtMostOnce has lost its teeth" % r.violated)
    sts = L.load_counterexample(dump)
    rr, cls_of = replay_state_lists(v, exe, n, nt, [sts], "as-written counterexample", hist=True)
    dup_spec = sts[-1][7]
    info = {"what": "TLC counterexample of the as-written order of get() (GetReadsAfterPush = TRUE, invariant AtMostOnce)",
            "config": "N=%d threads=%d ops=%d" % (n, nt, ops), "states": len(sts),
            "specification_value_fetched_twice": dup_spec,
            "schedule": [[t, c] for (t, _, c) in L.states_to_path(sts)[2]]}
    v.cov["as_written_counterexample_states"] = len(sts)
    if rr.ok == 1:
        # the real code followed the counterexample step for step
        gets = [res for (t, op, val, res) in rr.hist[0] if op == "get" and res != 0]
        dups = sorted(set(x for x in gets if gets.count(x) > 1))
        info["real_code"] = "followed all %d steps with equal state; returned calls: %s" % (len(sts) - 1, rr.hist[0])
        if dups:
            v.violation("get/read-after-push/double-fetch",
                        "the real cache<int,%d> returned value(s) %s from two get() calls on the %d-step schedule found by TLC "
                        "(get() reads the payload after pushing the record onto the free list); calls in return order: %s"
                        % (n, dups, len(sts) - 1, rr.hist[0]),
                        {"kind": "path", "n": n, "nt": nt, "states": sts, "hist": True})
        else:
            raise Infra("real code followed the as-written counterexample but no value was returned twice: %s" % rr.hist[0])
        v.cov["as_written_counterexample_on_real_code"] = "reproduced: value(s) %s returned twice" % dups
    else:
        pid, step, t, pcb, field, exp, got = rr.mism[0]
        op, cls = cls_of[0][step - 1] if step else ("none", "Init")
        if mism_key(cls, op, field, got, exp) == "get/read-after-push/order":
            # real code reads first (getRead) where the as-written specification pushes first: repaired tree
            info["real_code"] = "diverges at step %d: after the successful pop the real get() reads the payload first (repaired order)" % step
            v.cov["as_written_counterexample_on_real_code"] = "not reproducible: the tree reads the payload before the push (step %d)" % step
        else:
            v.violation("replay/%s/%s/%s" % (op, cls, field.split("[")[0]),
                        "as-written counterexample step %d: thread %d at %s (%s %s): real %s = %s, specification %s" % (
                            step, t, pcb, op, cls, field, got, exp), {"kind": "path", "n": n, "nt": nt, "states": sts})
    v.sample(info, cap=12)
    v.add("states", r.distinct)
    v.add("transitions", r.generated)
    v.add("traces_validated_against_impl", 1)


def trace_validation(v, exe, n, nt, ops, seed, nexec, spurpct):
    """binding B: random schedules of the real code, validated by LFCacheTrace"""
    tag = "trace N=%d threads=%d ops=%d seed=%d" % (n, nt, ops, seed)
    path = os.path.join(vlib.BUILD, "C19_trace_%d_%d_%d_%d.ndjson" % (n, nt, ops, os.getpid()))
    cfg = L.write_cfg("C19_trace_%d_%d_%d" % (n, nt, ops), n, nt, ops, grap=False, trace=True)

    def once():
        exe = L.harness()
        rc, lines, err = vlib.run_lines(exe, None, args=["random", str(n), str(nt), str(ops), str(seed), str(nexec), str(spurpct)], timeout=300)
        if isinstance(rc, int) and rc < 0:
            return ("crash", rc, err)
        if rc != 0 or not lines:
            raise Infra("lfcache_replay random failed rc=%s %s" % (rc, err[-1000:]))
        with open(path, "w") as f:
            f.write("\n".join(lines) + "\n")
        r = vlib.tlc("LFCacheTrace", cfg, workers=1, timeout=900, env={"TRACE": path}, keep_out=True, coverage=False)
        return lines, r
    first = once()
    if first[0] == "crash":
        # the real cache code died under a schedule of the specification's alphabet (never seen on a sound tree); must repeat
        second = once()
        if second[0] != "crash":
            raise Infra("lfcache_replay crashed once (rc=%s) but not on the re-run of %s" % (first[1], tag))
        v.violation("trace/crash", "%s: the real cache code died with signal %s under a random schedule: %s" % (tag, -first[1], first[2][-400:]),
                    {"kind": "trace", "n": n, "nt": nt, "ops": ops, "seed": seed, "nexec": nexec})
        return 0
    lines, r = first
    out = r.out
    accepted = (r.rc == 0 and "REJECTED" not in out and r.violated is None and r.distinct == len(lines) + 1)
    if not accepted:
        import re
        m = re.search(r'"REJECTED", (\d+), (\d+)', out)
        if r.violated is None and not m:
            raise Infra("TLC failed on %s (rc=%s): %s" % (tag, r.rc, (r.error or out[-1500:])))
        # a rejection must repeat (the schedule is deterministic, so it does unless the infrastructure is at fault)
        lines2, r2 = once()
        if lines2 != lines:
            raise Infra("random schedule with the same seed produced a different trace")
        if r2.violated != r.violated or (m and not re.search(r'"REJECTED", %s, ' % m.group(1), r2.out)):
            raise Infra("trace rejection did not repeat for %s" % tag)
        keep = os.path.join(vlib.BUILD, "C19_rejected_trace_%d_%d_%d.ndjson" % (n, nt, ops))
        os.replace(path, keep)
        log("%s: REJECTED by LFCacheTrace (%s), repeated" % (tag, ("invariant " + r.violated) if r.violated else "matched %s of %d events" % (m.group(1), len(lines))))
        if r.violated:
            v.violation("trace/invariant/%s" % r.violated,
                        "%s: a recorded execution of the real code violates %s of LFCache" % (tag, r.violated),
                        {"kind": "trace", "n": n, "nt": nt, "ops": ops, "file": keep, "seed": seed, "nexec": nexec})
        else:
            k = int(m.group(1))
            ev = json.loads(lines[k]) if k < len(lines) else {}
            key = "trace/%s/%s" % (ev.get("k", "?"), ev.get("pt", "?"))
            if ev.get("k") == "get" and ev.get("pt") == "popCas" and ev.get("pc") == "pushLoad":
                key = "get/read-after-push/order"
            v.violation(key, "%s: TLC matched %d of %d events; first unmatched event: %s" % (tag, k, len(lines), lines[k] if k < len(lines) else "?"),
                        {"kind": "trace", "n": n, "nt": nt, "ops": ops, "file": keep, "seed": seed, "nexec": nexec, "matched": k,
                         "context": lines[max(0, k - 5):k + 1]})
        return 0
    try:
        os.remove(path)
    except OSError:
        pass
    v.add("states", r.distinct)
    v.add("transitions", r.generated)
    v.add("traces_validated_against_impl", nexec)
    v.add("trace_events_validated", len(lines))
    v.add("trace_executions_validated", nexec)
    v.sample({"what": "events of a validated random execution (%s)" % tag, "events": [json.loads(x) for x in lines[1:4]]}, cap=12)
    log("%s: %d executions, %d events accepted by LFCacheTrace (%.1fs)" % (tag, nexec, len(lines), r.wall))
    return nexec


def sequential(v, maxlen):
    """TLC explores SeqCache (tree of all insert/get strings); every maximal string is replayed on both variants"""
    cfg = os.path.join(vlib.cfgdir(), "C19_seq.cfg")
    with open(cfg, "w") as f:
        f.write("SPECIFICATION Spec\nCONSTANTS\n  Caps = {1,2,3,4}\n  MaxLen = %d\nINVARIANTS TypeOK Lifo ResultOK\n"
                "ACTION_CONSTRAINT Emit\nCHECK_DEADLOCK FALSE\n" % maxlen)
    r = vlib.tlc("SeqCache", cfg, workers=4, timeout=600)
    vlib.tlc_ok(r, "SeqCache")
    if r.violated:
        raise Infra("SeqCache violates its own invariant %s" % r.violated)
    node = {}
    for e in r.edges:
        node[(e["cap"], "".join(e["ops"]))] = e
    leaves = [k for k in node if len(k[1]) == maxlen]
    if len(leaves) != 4 * 2 ** maxlen or len(node) != 4 * (2 ** (maxlen + 1) - 2):
        raise Infra("SeqCache export incomplete: %d leaves, %d edges" % (len(leaves), len(node)))
    lines = []
    for cap, s in sorted(leaves):
        parts = ["Q", str(cap), str(maxlen)]
        for i in range(1, maxlen + 1):
            e = node[(cap, s[:i])]
            st = e["stack"]
            parts += [str(1 if e["last"]["op"] == "ins" else 2), str(e["last"]["val"]), str(e["last"]["res"]), str(len(st))] + [str(x) for x in st]
        lines.append(" ".join(parts))
    text = "\n".join(lines) + "\n"
    total = 0
    for variant, defs in (("shared", ()), ("thread_local", ("SQUIDS_THREAD_LOCAL=thread_local",))):
        exe = L.harness("lfcache_seq", defs)
        rc, out, err = vlib.run_lines(exe, text, timeout=300)
        done = [l for l in out if l.startswith("DONE")]
        if isinstance(rc, int) and rc < 0 and out and out[0] == "VARIANT " + variant:
            # the real cache died inside a sequential history of the specification (insert / get on one thread)
            v.violation("sequential/%s/crash" % variant, "lfcache_seq (%s): the real cache code died with signal %s while executing sequential histories "
                        "(capacity 1..%d, every insert/get sequence up to the bound): %s" % (variant, -rc, 4, err[-300:]), {"kind": "seq", "variant": variant})
            continue
        if rc != 0 or not done or not out or out[0] != "VARIANT " + variant:
            raise Infra("lfcache_seq (%s) failed rc=%s %s %s" % (variant, rc, out[:2], err[-1000:]))
        _, nh, ncalls, nbad = done[0].split()
        if int(nh) != len(lines):
            raise Infra("lfcache_seq consumed %s of %d histories" % (nh, len(lines)))
        for l in out:
            if l.startswith("MISMATCH"):
                p = l.split()
                idx, step, what, exp, got = int(p[1]), int(p[2]), p[3], p[4], p[5]
                cap, s = sorted(leaves)[idx]
                per = v.cov.setdefault("mismatches_per_key", {})
                skey = "seq/%s/%s/N=%d" % (variant, what.split("[")[0], cap)
                per[skey] = per.get(skey, 0) + 1
                if per[skey] > PER_KEY:
                    continue
                v.violation("seq/%s/%s/N=%d" % (variant, what.split("[")[0], cap),
                            "%s variant, capacity %d, history %s, call %d: %s expected %s, got %s" % (variant, cap, s[:step], step, what, exp, got),
                            {"kind": "seq", "variant": variant, "line": lines[idx]})
        total += len(lines)
        log("sequential %s: %s histories (%s calls) replayed, %s mismatching" % (variant, nh, ncalls, nbad))
        v.add("sequential_calls_replayed", int(ncalls))
    v.add("states", r.distinct)
    v.add("transitions", r.generated)
    v.add("traces_validated_against_impl", total)
    v.add("sequential_histories", total)
    k = sorted(leaves)[len(leaves) // 3]
    v.sample({"what": "one sequential history (capacity, string, per call [op,val,res,pool])", "cap": k[0], "ops": k[1],
              "calls": [[node[(k[0], k[1][:i])]["last"]["op"], node[(k[0], k[1][:i])]["last"]["val"], node[(k[0], k[1][:i])]["last"]["res"],
                         node[(k[0], k[1][:i])]["stack"]] for i in range(1, maxlen + 1)]}, cap=12)


def run_replay_file(v, exe, path):
    with open(path) as f:
        d = json.load(f)
    n = 0
    for item in d.get("violations", []):
        pl = item.get("replay")
        if not pl:
            continue
        if pl.get("kind") == "path":
            rr, cls_of = replay_state_lists(v, exe, pl["n"], pl["nt"], [pl["states"]], "replay", hist=True)
            n += 1
            if rr.mism and pl.get("hist"):
                # a counterexample of the as-written specification: a tree with the repaired order leaves it at the first get()
                pid, step, t, pcb, field, exp, got = rr.mism[0]
                op, cls = cls_of[0][step - 1] if step else ("none", "Init")
                if mism_key(cls, op, field, got, exp) == "get/read-after-push/order":
                    log("replay: the double-fetch schedule is not executable on this tree (payload read before the push, step %d)" % step)
                else:
                    report_mismatches(v, rr, lambda pid, step: cls_of[pid][step - 1] if step else ("none", "Init"), lambda pid: pl)
            elif rr.mism:
                report_mismatches(v, rr, lambda pid, step: cls_of[pid][step - 1] if step else ("none", "Init"), lambda pid: pl)
            elif pl.get("hist"):
                gets = [res for (t, op, val, res) in rr.hist[0] if op == "get" and res != 0]
                dups = sorted(set(x for x in gets if gets.count(x) > 1))
                if dups:
                    v.violation(item["key"], "replayed: real cache returned %s twice: %s" % (dups, rr.hist[0]), pl)
        elif pl.get("kind") == "trace":
            trace_validation(v, exe, pl["n"], pl["nt"], pl["ops"], pl["seed"], pl.get("nexec", 150), 15)
            n += 1
        elif pl.get("kind") == "seq":
            var = pl["variant"]
            sexe = vlib.build_harness("lfcache_seq", "plain", link_lib=False,
                                      extra_defs=("SQUIDS_THREAD_LOCAL=thread_local",) if var == "thread_local" else ())
            rc, out, err = vlib.run_lines(sexe, pl["line"] + "\n", timeout=60)
            n += 1
            for l in out:
                if l.startswith("MISMATCH"):
                    v.violation(item["key"], "replayed: " + l, pl)
    v.add("traces_validated_against_impl", n)
    v.add("states", 0)
    v.add("transitions", 0)
    v.sample({"what": "replay of %s" % path, "items": n})
    return LEVEL


def run(v, tier, seed, replay):
    global T0
    T0 = time.time()
    exe = L.harness()
    rc, out, err = vlib.run_lines(exe, None, args=["lockfree"], timeout=30)
    if rc != 0 or out != ["LOCKFREE 1"]:
        raise Infra("std::atomic<list_head> is not lock-free on this platform (%s): a CAS is not one step" % out)
    # the yield points must be compiled into Cache.h (patches/cache/hook-cache-yield.diff); without them a call runs
    # from start to return in one step and every comparison would be a false alarm
    rc, out, err = vlib.run_lines(exe, None, args=["probe"], timeout=30)
    want_ins = "PROBE ins popLoad popNext popCas insWrite pushLoad pushLink pushCas ret idle res=1"
    gets = {"PROBE get popLoad popNext popCas getRead pushLoad pushLink pushCas ret idle res=5": "payload read before the push (repaired)",
            "PROBE get popLoad popNext popCas pushLoad pushLink pushCas getRead ret idle res=5": "payload read after the push (as originally written)"}
    if rc != 0 or len(out) != 2 or out[0] != want_ins or out[1] not in gets:
        raise Infra("Cache.h (shared variant) does not pass the expected yield points - are the SQUIDS_VERIF_YIELD hooks "
                    "(patches/cache/hook-cache-yield.diff) applied to %s? probe output: %s" % (vlib.REPO, out))
    v.cov["order_of_get_in_tree"] = gets[out[1]]
    if replay:
        return run_replay_file(v, exe, replay)
    thorough = tier == "thorough"

    # ---- 3 (run first so that its verdict heads the report): the order of get() as originally written ----
    as_written(v, exe, 2, 2, 2)

    # ---- 1 + 2: exhaustive design check, transition export, full transition replay (2 threads) ----
    two = [(n, 2, 2) for n in ((1, 2, 3, 4) if thorough else (1, 2, 3))]
    if thorough:
        two += [(2, 2, 3)]
    classes = collections.Counter()
    for (n, nt, ops) in two:
        name = "C19_design_%d_%d_%d" % (n, nt, ops)
        r, dump = tlc_design(v, name, n, nt, ops, True, 900)
        if r.violated:
            handle_design_violation(v, exe, r, dump, n, nt, ops)
            continue
        g = L.parse_edges(r.out, n, nt)
        if len(g.keys) != r.distinct:
            raise Infra("%s: exported graph has %d nodes, TLC reports %d distinct states" % (name, len(g.keys), r.distinct))
        classes.update(g.classes)
        log("%s: %d distinct states, %d transitions, depth %d, %.1fs" % (name, r.distinct, len(g.edges), r.depth, r.wall))
        replay_graph(v, exe, g, "N=%d threads=%d ops=%d" % (n, nt, ops))
        del g, r
    missing = [c for c in L.REQUIRED_CLASSES if not classes.get(c)]
    if missing and not v.violations:
        raise Infra("vacuity: specification actions/branches never taken in the replayed graphs: %s" % missing)
    v.cov["transitions_replayed_per_action"] = dict(sorted(classes.items()))

    # exhaustive without export: 2 threads x 3 ops (other capacities), 3 threads x 2 ops
    if thorough:
        for (n, nt, ops) in [(1, 2, 3), (3, 2, 3), (4, 2, 3), (1, 3, 2), (2, 3, 2), (3, 3, 2), (4, 3, 2)]:
            name = "C19_design_%d_%d_%d" % (n, nt, ops)
            r, dump = tlc_design(v, name, n, nt, ops, False, 1500)
            if r.violated:
                handle_design_violation(v, exe, r, dump, n, nt, ops)
                continue
            cov = L.action_coverage(r.out)
            dead = [a for a in L.ACTIONS if cov.get(a, (0, 0))[0] == 0]
            if dead:
                raise Infra("vacuity: %s: actions never taken: %s" % (name, dead))
            log("%s: %d distinct states, %d generated, depth %d, %.1fs" % (name, r.distinct, r.generated, r.depth, r.wall))

    # ---- 2b: 3-thread behaviours from TLC simulation, replayed ----
    if thorough:
        for n in (1, 2, 3, 4):
            sim_paths(v, exe, n, 3, 2, 400, seed + n, "simulation N=%d threads=3 ops=2" % n)
        sim_paths(v, exe, 3, 2, 3, 400, seed + 9, "simulation N=3 threads=2 ops=3")
    else:
        sim_paths(v, exe, 2, 3, 2, 150, seed, "simulation N=2 threads=3 ops=2")

    # ---- 4: binding B ----
    if thorough:
        combos = [(1, 2, 3, 300), (2, 2, 3, 300), (3, 2, 3, 300), (4, 2, 3, 300), (1, 3, 2, 300), (2, 3, 2, 300), (3, 3, 2, 300),
                  (4, 3, 2, 300), (2, 3, 3, 200), (3, 4, 2, 200), (4, 4, 3, 150)]
    else:
        combos = [(2, 2, 2, 150), (3, 3, 2, 150)]
    for i, (n, nt, ops, nexec) in enumerate(combos):
        trace_validation(v, exe, n, nt, ops, seed + i, nexec, 15)

    # ---- 5: sequential clause ----
    sequential(v, 10)

    v.cov["exhaustive"] = True
    real_threads(v, seed, thorough)
    v.cov["bounds"] = ("LFCache exhaustive (spurious CAS failures included): 2 threads x 2 calls, N=%s%s; "
                       "SeqCache: all insert/get strings of length 10, N=1..4, both variants" % (
                           "1..4" if thorough else "1..3",
                           "; 2 threads x 3 calls N=1..4; 3 threads x 2 calls N=1..4" if thorough else ""))
    v.cov["rule"] = ("every transition of the exported 2-thread graphs replayed on the real shared cache (forced CAS failure for the "
                     "spurious branch), heads incl. version counters, next/data arrays, parked yield point, expected value of the pending "
                     "CAS, popped record and results compared after every step")
    v.assumptions.append("sequentially consistent interleaving at the granularity of the yield points (one coroutine runs between two yields); "
                         "weak-memory reorderings of the plain next/data accesses are outside the specification")
    v.assumptions.append("the 32-bit version counter does not wrap within the explored bounds")
    v.assumptions.append("the VIEW hides only the order logs hist/path; the ghost sets ins/failed/fetched/dupl stay in the fingerprint "
                         "(TLC evaluates invariants only on states that are new under the view)")
    v.notes.append("a spurious failure of compare_exchange_weak is forced in the real code by spoiling the expected value's counter in the yield hook "
                   "just before the CAS; the CAS then fails and reloads the unchanged head, which is the specified effect")
    return LEVEL


def real_threads(v, seed, thorough):
    """real threads on the shared variant: (1) ThreadSanitizer build, one inserting and one fetching thread - the memory order of
    the publishing compare-and-swap (outside what the sequentially consistent coroutine scheduler can see); (2) plain build, six
    threads doing both - every value out at most once, nothing out that was not put in, drain = inserted and not fetched."""
    exe_t = vlib.build_harness("lfcache_threads", "gtsan", link_lib=False)
    exe_p = vlib.build_harness("lfcache_threads", "plain", link_lib=False)
    runs = 0
    for k in range(2 if not thorough else 6):
        p = vlib.sh([exe_t, "2", "300000", str(seed % 1000 + k), "pc"], timeout=600, env={"TSAN_OPTIONS": "halt_on_error=0:exitcode=66"})
        if "WARNING: ThreadSanitizer" in p.stderr:
            # must repeat
            p2 = vlib.sh([exe_t, "2", "300000", str(seed % 1000 + k), "pc"], timeout=600, env={"TSAN_OPTIONS": "halt_on_error=0:exitcode=66"})
            if "WARNING: ThreadSanitizer" in p2.stderr:
                where = [l.strip() for l in p.stderr.splitlines() if l.strip().startswith("#0")][:2]
                v.violation("threads/tsan/data-race", "one inserting and one fetching thread on the shared cache: ThreadSanitizer reports a data race %s" % where, {"stderr": p.stderr[-2500:]})
                break
        elif p.returncode != 0 or "DONE" not in p.stdout:
            v.violation("threads/%s" % ("crash" if p.returncode < 0 else "conservation"), "producer/consumer run on the shared cache: rc=%s %s %s" % (p.returncode, p.stdout.strip()[-200:], p.stderr[-300:]), None)
            break
        runs += 1
    for k in range(2 if not thorough else 8):
        p = vlib.sh([exe_p, "6", "200000", str(seed % 1000 + 10 + k)], timeout=600)
        if p.returncode != 0 or "DONE" not in p.stdout:
            v.violation("threads/%s" % ("crash" if p.returncode < 0 else "conservation"),
                        "six threads inserting and fetching on the shared cache: rc=%s %s (DONE inserted fetched drained bad) %s" % (p.returncode, p.stdout.strip()[-200:], p.stderr[-300:]), None)
            break
        runs += 1
    v.cov["real_thread_runs"] = runs
    v.add("traces_validated_against_impl", runs)


def handle_design_violation(v, exe, r, dump, n, nt, ops):
    """the repaired specification violates an invariant: replay the counterexample on the real code before calling it a defect"""
    if not os.path.exists(dump):
        raise Infra("LFCache (repaired) violates %s for N=%d threads=%d ops=%d and no counterexample was dumped" % (r.violated, n, nt, ops))
    sts = L.load_counterexample(dump)
    rr, cls_of = replay_state_lists(v, exe, n, nt, [sts], "design counterexample", hist=True)
    if rr.ok == 1:
        v.violation("design/%s" % r.violated,
                    "LFCache violates %s (N=%d threads=%d ops=%d) and the real code follows the %d-step counterexample; calls: %s" % (
                        r.violated, n, nt, ops, len(sts) - 1, rr.hist[0]), {"kind": "path", "n": n, "nt": nt, "states": sts, "hist": True})
    else:
        raise Infra("LFCache (repaired) violates %s for N=%d threads=%d ops=%d but the real code does not follow the counterexample "
                    "(mismatch %s): specification error" % (r.violated, n, nt, ops, rr.mism[0]))
