"""C03 diagonal time evolution: exact conjugation D A D^dagger on the pi/4 lattice, group law, isometry, fast = direct."""
import algebra


def run(v, tier, seed, replay):
    if replay:
        return algebra.replay(v, replay, 512)
    phases = list(range(-3, 9)) + [1001, -4003]
    if tier == "quick":
        runs = [dict(dims=[2, 3, 4], ops=["evolve"], invs=["LawEvolve"], npat=2, phases=phases, nspec=10),
                dict(dims=[5, 6], ops=["evolve"], invs=["LawEvolve"], npat=1, phases=[-3, 0, 1, 2, 5, 1001], nspec=6)]
    else:
        runs = [dict(dims=[2, 3, 4, 5, 6], ops=["evolve"], invs=["LawEvolve"], npat=3, phases=phases, nspec=40)]
    algebra.explore_and_replay(v, "C03", runs, tolf=512)
    if tier == "thorough":
        algebra.explore_and_replay(v, "C03chain", [dict(dims=[2, 3, 4, 5, 6], ops=["evolve", "neg"], invs=["LawEvolve"], npat=3, phases=[-3, 1, 2, 7], nspec=8, chain=5)],
                                   tolf=2048, simulate=300, depth=14, seed=seed)
    v.cov["rule"] = "every basis element (+ integer patterns) x spectra (zero, distinct, fully/partly degenerate, pseudo-random in 0..3) x t = k*pi/4, k in -3..8, 1001, -4003; direct, assigned and PrepareEvolve+Evolve(buffer) forms vs exact D A D^dagger"
    v.assumptions.append("phases off the pi/4 lattice: only libm's cos/sin differ; the kernels are polynomial in (cos,sin) of level differences, pinned on the lattice")
    return "model_checking"
