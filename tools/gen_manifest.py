#!/usr/bin/env python3
"""Writes MANIFEST.json from the table below (one source of truth for the interface)."""
import json, os, subprocess
V = os.path.dirname(os.path.dirname(os.path.abspath(__file__)))
ALL = ["C%02d" % i for i in range(1, 20)]
CHECKS = {
 "C13": dict(cat="model_checking", sec="5/C13", tech="TLA+ SUAlgebra factory actions, TLC exhaustive, every transition replayed on the real factories",
   text="TLC enumerates every admissible (factory kind, dimension, index), checks idempotence/orthogonality/completeness/Pos+Neg=I on exact 0/1 matrices, and every generated call is replayed on the real factory and compared entrywise; the space is finite and enumerated completely.",
   note="Trusts: TLC, module Exact (basis checked by TLC to be the Gell-Mann basis), the 20-line component<->matrix formula in harness/exact.h. PosProjector/NegProjector(d,d) not covered (property silent)."),
}
NA = {}
def main():
    checks = []
    for pid in ALL:
        if pid not in CHECKS: continue
        c = CHECKS[pid]
        checks.append({"property_id": pid,
          "quick_cmd": "python3 tools/check.py %s --tier quick" % pid,
          "thorough_cmd": "python3 tools/check.py %s --tier thorough" % pid,
          "evidence_file": "evidence/%s.json" % pid,
          "replay_cmd_template": "python3 tools/check.py %s --replay {path}" % pid,
          "engine": "tlc+replay",
          "level_claimed": {"category": c["cat"], "text": c["text"], "design_ref": "DESIGN.md section " + c["sec"]},
          "level_note": c["note"], "technique": c["tech"]})
    na = [{"property_id": p, "reason": NA.get(p, "check not built yet in this round; planned in DESIGN.md section 13")} for p in ALL if p not in CHECKS]
    try:
        commits = subprocess.run(["git", "-C", "/repo", "log", "--format=%h %s"], capture_output=True, text=True).stdout.splitlines()
    except Exception:
        commits = []
    hooks = [c.split()[0] for c in commits if c.split(" ", 1)[1].startswith("verif hook")]
    m = {"version": 1,
         "setup_cmd": "mkdir -p build evidence replays && python3 tools/check.py --help >/dev/null",
         "hooks": {"guard": "SQUIDS_VERIF", "enable": "checks compile /repo/src/*.cpp and the harnesses with -DSQUIDS_VERIF (tools/vlib.py BASEFLAGS); the repository's own Makefile never defines it",
                   "baseline_off_cmd": "cd /repo && make -s && make -s test", "source_commits": hooks, "add_only": True},
         "engines": [{"name": "tlc+replay", "path": "tools/check.py", "serves_properties": sorted(CHECKS.keys()),
                      "kind_free_text": "TLA+ specifications in spec/ checked by TLC; transitions exported by TLC replayed on the real code (harness/), traces recorded from the real code validated by TLC"}],
         "checks": checks, "not_applicable": na,
         "notes": "One entry point tools/check.py <ID>. Exit 2 = infrastructure error (never a VIOLATION). Known findings: known_findings.json."}
    with open(os.path.join(V, "MANIFEST.json"), "w") as f:
        json.dump(m, f, indent=1)
main()
