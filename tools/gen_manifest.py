#!/usr/bin/env python3
"""Writes MANIFEST.json from the table below (one source of truth for the interface)."""
import json, os, subprocess
V = os.path.dirname(os.path.dirname(os.path.abspath(__file__)))
ALL = ["C%02d" % i for i in range(1, 20)]
CHECKS = {
 "C13": dict(cat="model_checking", sec="5/C13", tech="TLA+ SUAlgebra factory actions, TLC exhaustive, every transition replayed on the real factories",
   text="TLC enumerates every admissible (factory kind, dimension, index), checks idempotence/orthogonality/completeness/Pos+Neg=I on exact 0/1 matrices, and every generated call is replayed on the real factory and compared entrywise; the space is finite and enumerated completely.",
   note="Trusts: TLC, module Exact (basis checked by TLC to be the Gell-Mann basis), the 20-line component<->matrix formula in harness/exact.h. PosProjector/NegProjector(d,d) not covered (property silent)."),
}
CHECKS.update({
 "C01": dict(cat="model_checking", sec="5/C01", tech="TLA+ SUAlgebra linear actions with exact Q(zeta8) matrices; TLC checks the laws; every exported call replayed on the real kernels",
   text="TLC checks on exact matrices that the specification's basis is the generalised Gell-Mann basis, that matrix<->coordinates is a bijection, Real+Imag=id, transpose=conjugate, equality=coordinatewise; every generated call (all basis slots and dense integer patterns, all ordered pairs for binary calls, d=2..6) is replayed on GetGSLMatrix / matrix constructor / list round trip / + - * / += -= *= /= == Transpose Real Imag and compared with the exact matrix and bit-exactly with the componentwise definition, including 2^+-300 scalings.",
   note="Trusts TLC, harness/exact.h (independent component<->matrix formula). Linearity beyond the enumerated inputs is evidenced by the patterns, not proved."),
 "C02": dict(cat="model_checking", sec="5/C02", tech="TLA+ SUAlgebra icom/acom/trace; TLC enumerates all ordered generator pairs exactly; full output vectors replayed on the generated kernels",
   text="For every dimension TLC enumerates all (d^2+NPat)^2 ordered operand pairs, computes i[A,B], {A,B}, Tr(AB) exactly, checks antisymmetry, zero identity component, symmetry, additivity and Tr(A i[A,B])=0, and the real kernels are compared two-sided on the full result vector, which pins every coefficient of every generated file.",
   note="Rounding bound 512 eps |A|_1 |B|_1; exhaustive over generator pairs, patterns sample bilinearity."),
 "C03": dict(cat="model_checking", sec="5/C03", tech="TLA+ SUAlgebra evolve action on the pi/4 phase lattice; TLC checks group law / isometry; exported cases replayed on Evolve, assigned Evolve and PrepareEvolve+Evolve(buffer)",
   text="TLC computes exp(iHt) A exp(-iHt) exactly for integer diagonal H (zero, distinct, degenerate spectra) and t=k*pi/4 (k in -3..8, 1001, -4003), checks t=0 identity, t1 then t2 = t1+t2, inverse, trace and scalar-product preservation, and all three implementation forms are compared with the exact result for every basis element.",
   note="Off-lattice phases are not decided (only libm differs); quick tier samples d=5,6 with fewer spectra."),
 "C06": dict(cat="model_checking", sec="5/C06", tech="TLA+ SUAlgebra rotate/mixing/tob1/tob0 actions over Q(zeta8); TLC checks unitarity, inverse, isometry; exported cases replayed on all 35 rotation kernels and every matrix entry point",
   text="TLC computes R^dagger A R exactly for every plane (i,j), every (theta,delta) residue pair on the pi/4 lattice and every basis element, the mixing matrix as the documented ordered product, U^dagger A U and U A U^dagger; it checks unitarity, sparse=dense, inverse by negated angle, B0 o B1 = id, trace and scalar products; the real Rotate, GetTransformationMatrix, RotateToB1/B0, Rotate(U), UTransform(U), UDaggerTransform(U) are compared entrywise.",
   note="Off-lattice angles not decided; quick tier samples d=5,6 rotations 1 in 8."),
})
CHECKS.update({
 "C05": dict(cat="model_checking", sec="5/C05", tech="TLA+ Observables (exact Q(zeta8) traces, dyadic interpolation weights, must-throw set); TLC checks the laws and exports every query; replay on a derived SQuIDS object",
   text="TLC explores grids (linear, log, user) x evolution histories x query points (nodes, midpoints, quarter points, both sides outside) and computes Tr(rho_S O), the convex interpolation and the D-forms exactly; it checks node/D-form agreement, convexity, Schroedinger=Heisenberg picture, averaged=plain for unreachable scale; all seven entry points of the real object are compared with the exact values and out-of-range x must throw on both sides.",
   note="States/operators are integer patterns on the pi/4 phase lattice; tolerance 512 eps x norms x (1+|phase|)."),
 "C08": dict(cat="model_checking", sec="5/C08", tech="TLA+ SUVec (ownership/cache/theft state machine with exact values); TLC exhaustive over call histories; path cover replayed on the real library; recorded states validated by TLC (SUVecTrace)",
   text="TLC checks UniqueOwner, MovedFromSafe, ExternalExact, HeapSound, NoLeak, WriteFrame, ExternalStable, FailureFrame, CopyIndependent on every reachable state/step of all call histories up to the bound; every (state, call) pair is executed on the real library and the recorded implementation state (dimension, storage identity, ownership flags, exact contents of every vector and user buffer, heap events) must be explained by the specification; seeded random histories on 6 vectors of all dimensions likewise.",
   note="Trusts TLC, the driver's projection (verif_access fields, operator new[]/delete[] ledger). Policy 'any' accepts every storage strategy the property allows (steal or allocate, cache or free)."),
 "C09": dict(cat="model_checking", sec="5/C09", tech="TLA+ SUVec one-step shape exploration (SpecShape): statement kinds x 9 operations x prepared pools x operand choices; exact values; every exported statement executed and its trace validated by TLC",
   text="From each of 6^3 prepared pools TLC takes every statement t {=,+=,-=,ctor} op(a,b) with every operand assignment (all alias patterns including a shared user buffer), value category and operation; the action defines the stored value as Combine(w, old target, op(a,b)) on exact matrices and the exception verdict; the real statements (with guarantee flag sets reduced to the true flags, several dimension pairs) must produce exactly those values, verdicts and unmodified operands.",
   note="Quick tier replays a hashed subset of the statements per dimension pair; thorough replays all for (2,3). Time steps are multiples of pi/2; user element-wise op is x+2y."),
 "C17": dict(cat="model_checking", sec="5/C17", tech="TLA+ Grid (Get_i transcription, Bracket oracle, vector overload rule) checked exhaustively by TLC; admissible-answer tables replayed on real objects; seeded executions validated by GridTrace",
   text="TLC enumerates all grids within the bound and every quarter-integer x, checks that the (repaired) lookup returns an element of Bracket and throws exactly outside; the as-coded transcription yields counterexamples that are reproduced on the real method; every (grid,x) is executed on real objects in three exact affine images and must return an admissible answer; Set_xrange monotonicity/end points/spacing are validated on integer-measured deviations.",
   note="Accuracy bounds: 4 units (linear), 8 units in log x (log scale)."),
 "C19": dict(cat="model_checking", sec="5/C19", tech="TLA+ LFCache (one action per atomic operation, spurious CAS failures) exhaustively model checked; every transition replayed on the real Cache.h by a deterministic coroutine scheduler; random schedules validated by LFCacheTrace; SeqCache for the sequential clause",
   text="TLC explores every interleaving at atomic-operation granularity for 2-3 threads and capacities 1-4 checking AtMostOnce, OnlyInserted, FailedInsertKeeps and Drain; each transition of the 2-thread graphs (and seeded 3-thread behaviours) is executed on the real shared cache with the state compared after every step; seeded random real schedules are validated against the specification; all insert/get strings up to length 10 on both cache variants are compared with the bounded LIFO model.",
   note="Sequentially consistent interleavings at yield-point granularity; weak-memory effects are out of scope of the specification."),
})
CHECKS.update({
 "C11": dict(cat="model_checking", sec="5/C11", tech="TLA+ Filters (per-pair classification pass/ramp/cut with rational factors, exact interval averages in Q(zeta8)); TLC checks partition/monotonicity/finiteness laws and exports every call; replay slot by slot on the real tables",
   text="TLC explores spectra (distinct, partially and fully degenerate) x times x thresholds (off rounding boundaries) x ramps x intervals for every dimension, classifies every level pair exactly and computes dyadic ramp factors and exact interval means; the real PrepareEvolve/LowPassFilter/AvgRampFilter tables are compared slot by slot (cut: exactly 0 and flagged; pass: bit-identical; ramp: factor; reject: exception and untouched buffer; every entry finite), Evolve(buffer) against the exact averaged matrix, and the averaged expectation-value overloads against the tables.",
   note="Complete for d<=4 (quick) / d<=5 (thorough), seeded for larger d; ramp tolerance is eps-scaled."),
 "C14": dict(cat="model_checking", sec="5/C14", tech="TLA+ SUVec guard exploration (SpecGuard): one unsupported/mismatched call from every prepared pool; verdicts exported by TLC; executed under ASan+UBSan for all ordered dimension pairs; traces validated by TLC",
   text="TLC enumerates the whole argument window (dimension 1,7,8 for every constructor/factory incl. make_aligned; list lengths 1, non-squares <=64, 49, 64; factory indices up to d*d+2; every binary entry point incl. Evolve(op,t), Rotate(matrix), scalar product, compound and plain assignment to user storage on mismatched operands) and requires a library exception with nothing modified; each case runs on the real library for all 20 ordered dimension pairs with sanitizers watching every access.",
   note="'No memory outside the operands is accessed' is observed by ASan/UBSan on the executed cases, not proved."),
 "C15": dict(cat="model_checking", sec="5/C15", tech="TLA+ SUVec heap model (HeapSound, NoLeak) model checked; path cover + seeded histories with throwing calls executed under ASan+UBSan; new[]/delete[] ledger and cache events validated by TLC",
   text="The specification's heap (blocks free/owned/cached, per-class caches) is checked exhaustively for soundness and absence of leaks at quiescence; the real library, built with AddressSanitizer and UBSan (alignment incl. assume_aligned, bounds, unreachable, null), executes every explored (state, call) pair and random histories mixing in calls that throw; each call's allocation/release/cache events must be those the specification allows, and at quiescence the ledger must be empty.",
   note="Vector pool only in this check; solver objects are covered by the C10 driver. Sanitizers observe the executed histories."),
 "C16": dict(cat="fault_enumeration", sec="5/C16", tech="TLA+ SUVec with fault twins (Faults=TRUE) model checked for FailureFrame/HeapSound; every (state, allocating call, failing allocation) replayed with operator new[] armed to throw, ASan build; traces validated by TLC",
   text="Every allocating call of the catalogue has a twin in which its allocation fails; TLC checks on all bounded histories that no vector but the target changes, the target is left unchanged or empty and the heap stays sound; each such case is executed on the real library with the k-th new[] of the call throwing, then every vector is destroyed, the cache drained and the ledger required empty.",
   note="Each catalogue operation performs at most one block allocation, so k=1 is the complete enumeration; only block allocations (operator new[]) are failed."),
})
CHECKS.update({
 "C04": dict(cat="model_checking", sec="5/C04", tech="TLA+ Solver (callback discipline, pointer binding) validated on recorded right-hand-side evaluations in all 11 stepper modes; TLA+ SolverFlow computes the exact solution of a solvable family, replayed on the real solver",
   text="Every right-hand-side evaluation of real runs is checked by TLC to make exactly the enabled term calls, node-major, with the node's and matrix's/scalar's index and the stepper's time, on the arrays GSL passed; TLC computes the exact flow (values A + B ln2 with exact A, B) for 8 configurations x all 32 switch sets x durations, and the real solver in each of rk2/rk4/rkf45/rkck/rk8pd adaptive+fixed and msadams must agree to 1e-6 x scale (observed <= 2e-8).",
   note="Solvable family only (diagonal constant terms with index-dependent integer tables); integration of arbitrary user terms to tolerance is GSL's contract."),
 "C10": dict(cat="model_checking", sec="5/C10", tech="TLA+ Solver protocol model checked (last-pointer cache as coded, buffer address reuse) with and without the GSL first-call contract; recorded histories validated by SolverTrace; two-segment histories with toggles, zero-length segments and moves compared with the exact SolverFlow",
   text="TLC proves BindOK/AfterEvolve/SysUnique for all bounded histories under GslContract and exhibits the stale-cache counterexample without it (a latent hazard, monitored); seeded random histories over Evolve/toggle/AnyNumerics/stepper change/move-construct/move-assign/re-initialise are recorded through hooks and every event validated (bindings, clock exactness, bit-identical state and single PreDerive when all terms are off, view = state after Evolve); segment histories are compared with the exact flow and the clock.",
   note="GslContract is an environment assumption checked on each trace (failure = inconclusive, not a violation)."),
})
CHECKS.update({
 "C07": dict(cat="model_checking", sec="5/C07", tech="TLA+ ExpFamilies (exact exponentials of diagonal / normal / nilpotent / xI+N families in Q(zeta8)[2^m], thread-local scratch state as history); TLC checks exp laws and history independence; every exported call sequence replayed on matrix_exponential and UTransform",
   text="TLC builds families with exactly known exponentials spanning every branch of the algorithm (diagonal shortcut, Pade 3,5,7,9,13 with and without scaling, norms up to ~1e3), checks exp(A)exp(-A)=I, exp(A)^2=exp(2A), unitarity, and that the result is a function of A only over call sequences that resize the thread-local scratch; each sequence runs on a fresh thread of the real code and is compared with the exact value (1e3 n eps max(1,|A|)|e^A|); a branch never exercised fails the check as vacuous.",
   note="Accuracy on general dense matrices outside the exact families is not decided (conditioning-dependent)."),
 "C12": dict(cat="model_checking", sec="5/C12", tech="TLA+ Eigen (structured families with exactly known spectra, all degeneracy patterns, dense conjugates, near-degenerate family); exported cases replayed on GetEigenSystem with residual checks",
   text="TLC generates (U,D) pairs with M = U D U^dagger exact: integer diagonals over all set partitions (every degeneracy pattern), projectors, multiples of I, generators, dense conjugates by pi/4 and pi/2 rotations, Z[sqrt2] spectra and a near-degenerate family; GetEigenSystem(ordered/unordered) must return finite numbers, the exact spectrum (1e-10 |M|), ascending when ordered, and eigenvectors with small residual and unitarity defect.",
   note="Eigenvector validity is a floating-point residual computed by the harness (eigenvectors are not unique); generic dense inputs are checked by residual only."),
 "C18": dict(cat="model_checking", sec="5/C18", tech="TLA+ Threads (per-thread caches, shared heap, hand-over channel, thread exit) model checked over all interleavings; linearised traces of real threads validated by ThreadsTrace; results compared with the single-thread run; ThreadSanitizer build of the same programs",
   text="TLC checks RaceFree, HeapSoundT and NoBlockInDeadCache on every interleaving of 2-3 threads (and shows the violation when a dead thread's cache is not drained); real runs with 2-8 threads doing algebra, matrix exponentials, cross-thread hand-over and const queries on a shared solver are validated event by event, every result is compared with the sequential execution of the same programs (bit-identical except matrix exponentials), nothing may remain in an ended thread's cache, and a TSan build that records nothing must be silent.",
   note="Race freedom of the real executions is observed by ThreadSanitizer on the executed schedules; libgsl is not instrumented."),
})
NA = {}
def main():
    checks = []
    for pid in ALL:
        if pid not in CHECKS: continue
        c = CHECKS[pid]
        checks.append({"property_id": pid,
          "quick_cmd": "python3 tools/check.py %s --tier quick" % pid,
          "thorough_cmd": "python3 tools/check.py %s --tier thorough" % pid,
          "evidence_file": "evidence/%s.json" % pid,
          "replay_cmd_template": "python3 tools/check.py %s --replay {path}" % pid,
          "engine": "tlc+replay",
          "level_claimed": {"category": c["cat"], "text": c["text"], "design_ref": "DESIGN.md section " + c["sec"]},
          "level_note": c["note"], "technique": c["tech"]})
    na = [{"property_id": p, "reason": NA.get(p, "check not built yet in this round; planned in DESIGN.md section 13")} for p in ALL if p not in CHECKS]
    try:
        commits = subprocess.run(["git", "-C", "/repo", "log", "--format=%h %s"], capture_output=True, text=True).stdout.splitlines()
    except Exception:
        commits = []
    hooks = [c.split()[0] for c in commits if c.split(" ", 1)[1].startswith("verif hook")]
    m = {"version": 1,
         "setup_cmd": "mkdir -p build evidence replays && python3 tools/check.py --help >/dev/null",
         "hooks": {"guard": "SQUIDS_VERIF", "enable": "checks compile /repo/src/*.cpp and the harnesses with -DSQUIDS_VERIF (tools/vlib.py BASEFLAGS); the repository's own Makefile never defines it",
                   "baseline_off_cmd": "cd /repo && make -s && make -s test", "source_commits": hooks, "add_only": True},
         "engines": [{"name": "tlc+replay", "path": "tools/check.py", "serves_properties": sorted(CHECKS.keys()),
                      "kind_free_text": "TLA+ specifications in spec/ checked by TLC; transitions exported by TLC replayed on the real code (harness/), traces recorded from the real code validated by TLC"}],
         "checks": checks, "not_applicable": na,
         "notes": "One entry point tools/check.py <ID>. Exit 2 = infrastructure error (never a VIOLATION). Known findings: known_findings.json."}
    with open(os.path.join(V, "MANIFEST.json"), "w") as f:
        json.dump(m, f, indent=1)
main()
