"""Shared machinery for the SQuIDS model-based checks.

Everything a property check needs that is not specific to the property:
  * content-hashed build cache for /repo sources and harness programs
  * TLC runner (timeout, metadir, coverage / statistics parsing, EDGE export parsing)
  * known-findings classification, VIOLATION / KNOWN-FINDING lines
  * evidence writer
Exit codes: 0 = property held on everything explored (known findings allowed),
1 = violation (with a VIOLATION line), 2 = infrastructure error (never with a VIOLATION line).
"""
import hashlib, json, os, re, shutil, subprocess, sys, time, fnmatch

VERIF = os.path.dirname(os.path.dirname(os.path.abspath(__file__)))
REPO = os.environ.get("VERIF_REPO", "/repo")
BUILD = os.path.join(VERIF, "build")
SPEC = os.path.join(VERIF, "spec")
HARNESS = os.path.join(VERIF, "harness")
EVID = os.path.join(VERIF, "evidence")
REPLAYS = os.path.join(VERIF, "replays")
GUARD = "SQUIDS_VERIF"
NCPU = os.cpu_count() or 4


class Infra(Exception):
    """infrastructure failure: exit 2, never a VIOLATION"""


def log(*a):
    print(*a, file=sys.stderr, flush=True)


def sh(cmd, timeout=None, cwd=None, env=None, check=False, stdin=None):
    e = dict(os.environ)
    if env:
        e.update(env)
    try:
        p = subprocess.run(cmd, cwd=cwd, env=e, timeout=timeout, stdout=subprocess.PIPE,
                           stderr=subprocess.PIPE, input=stdin, text=True, errors="replace")
    except subprocess.TimeoutExpired as ex:
        raise Infra("timeout after %ss: %s" % (timeout, " ".join(cmd[:6])))
    if check and p.returncode != 0:
        raise Infra("command failed (%d): %s\n%s\n%s" % (p.returncode, " ".join(cmd[:8]), p.stdout[-3000:], p.stderr[-3000:]))
    return p


# ----------------------------------------------------------------------------
# build cache
# ----------------------------------------------------------------------------
def _hash_files(paths, extra=""):
    h = hashlib.sha256()
    h.update(extra.encode())
    for p in sorted(paths):
        h.update(p.encode())
        try:
            with open(p, "rb") as f:
                h.update(f.read())
        except OSError:
            h.update(b"<missing>")
    return h.hexdigest()[:20]


def repo_files():
    out = []
    for sub in ("include", "src"):
        for root, _, files in os.walk(os.path.join(REPO, sub)):
            for f in files:
                out.append(os.path.join(root, f))
    return out


_repo_hash = None


def repo_hash():
    global _repo_hash
    if _repo_hash is None:
        _repo_hash = _hash_files(repo_files())
    return _repo_hash


FLAVORS = {
    # name: (compiler, flags)
    "plain": ("g++", ["-O2", "-g0"]),
    "o0": ("g++", ["-O0", "-g"]),
    "o3": ("g++", ["-O3"]),
    "asan": ("clang++", ["-O1", "-g", "-fsanitize=address", "-fno-omit-frame-pointer",
                         "-fsanitize=alignment,bounds,unreachable,shift,signed-integer-overflow,null,vla-bound,builtin",
                         "-fno-sanitize-recover=all"]),
    "gasan": ("g++", ["-O1", "-g", "-fsanitize=address", "-fno-omit-frame-pointer"]),
    "tsan": ("clang++", ["-O1", "-g", "-fsanitize=thread"]),
    "gtsan": ("g++", ["-O1", "-g", "-fsanitize=thread"]),     # 8-byte struct atomics inline (clang calls libatomic, which TSan does not see)
}
BASEFLAGS = ["-std=c++11", "-Wno-error", "-Wno-abi", "-w", "-fPIC", "-D" + GUARD]
LIBS = ["-lgsl", "-lgslcblas", "-lm", "-lpthread"]
LIBSRC = ["const.cpp", "SUNalg.cpp", "SQuIDS.cpp", "MatrixExp.cpp"]


def _compile(cc, flags, src, obj, extra_inc=()):
    cmd = [cc] + BASEFLAGS + flags + ["-I" + os.path.join(REPO, "include"), "-I" + HARNESS]
    for i in extra_inc:
        cmd.append("-I" + i)
    cmd += ["-c", src, "-o", obj]
    p = sh(cmd, timeout=900)
    if p.returncode != 0:
        raise Infra("compile failed: %s\n%s" % (" ".join(cmd), p.stderr[-4000:]))


def build_lib(flavor="plain", extra_defs=()):
    """Compile /repo/src/*.cpp with hooks on; returns list of object files."""
    cc, flags = FLAVORS[flavor]
    flags = list(flags) + ["-D" + d for d in extra_defs]
    key = _hash_files([], repo_hash() + flavor + " ".join(flags) + " ".join(BASEFLAGS))
    d = os.path.join(BUILD, "lib_" + flavor + "_" + key)
    objs = [os.path.join(d, s.replace(".cpp", ".o")) for s in LIBSRC]
    if all(os.path.exists(o) for o in objs):
        _touch(d)
        return objs
    os.makedirs(d, exist_ok=True)
    procs = []
    for s, o in zip(LIBSRC, objs):
        cmd = [cc] + BASEFLAGS + flags + ["-I" + os.path.join(REPO, "include"), "-c",
                                         os.path.join(REPO, "src", s), "-o", o + ".%d.tmp" % os.getpid()]
        procs.append((cmd, o, subprocess.Popen(cmd, stdout=subprocess.PIPE, stderr=subprocess.PIPE, text=True)))
    for cmd, o, p in procs:
        try:
            out, err = p.communicate(timeout=1200)
        except subprocess.TimeoutExpired:
            p.kill()
            raise Infra("library compile timed out: " + " ".join(cmd))
        if p.returncode != 0:
            raise Infra("library does not compile with hooks on (%s):\n%s" % (" ".join(cmd), err[-4000:]))
        os.replace(o + ".%d.tmp" % os.getpid(), o)      # per-process temporary, atomic publication: checks of several properties may build the same library side by side
    _gc_builds()
    return objs


def build_harness(name, flavor="plain", sources=None, link_lib=True, extra_defs=(), extra_flags=()):
    """Compile harness/<name>.cpp (+ optional extra sources) against /repo's current tree."""
    cc, flags = FLAVORS[flavor]
    flags = list(flags) + ["-D" + d for d in extra_defs] + list(extra_flags)
    srcs = [os.path.join(HARNESS, s) for s in (sources or [name + ".cpp"])]
    hdrs = [os.path.join(HARNESS, f) for f in os.listdir(HARNESS) if f.endswith(".h")]
    key = _hash_files(srcs + hdrs, repo_hash() + flavor + " ".join(flags) + str(link_lib))
    d = os.path.join(BUILD, "h_" + name + "_" + flavor + "_" + key)
    exe = os.path.join(d, name)
    if os.path.exists(exe):
        _touch(d)
        return exe
    os.makedirs(d, exist_ok=True)
    objs = build_lib(flavor, extra_defs) if link_lib else []
    hobjs = []
    procs = []
    for s in srcs:
        o = os.path.join(d, os.path.basename(s) + ".%d.o" % os.getpid())
        cmd = [cc] + BASEFLAGS + flags + ["-I" + os.path.join(REPO, "include"), "-I" + HARNESS, "-c", s, "-o", o]
        procs.append((cmd, subprocess.Popen(cmd, stdout=subprocess.PIPE, stderr=subprocess.PIPE, text=True)))
        hobjs.append(o)
    for cmd, p in procs:
        try:
            out, err = p.communicate(timeout=1500)
        except subprocess.TimeoutExpired:
            p.kill()
            raise Infra("harness compile timed out: " + " ".join(cmd))
        if p.returncode != 0:
            raise Infra("harness does not compile against the current tree (%s):\n%s" % (" ".join(cmd), err[-6000:]))
    cmd = [cc] + flags + hobjs + objs + ["-o", exe + ".%d.tmp" % os.getpid()] + LIBS
    p = sh(cmd, timeout=600)
    if p.returncode != 0:
        raise Infra("link failed: %s\n%s" % (" ".join(cmd), p.stderr[-4000:]))
    os.replace(exe + ".%d.tmp" % os.getpid(), exe)
    for o in hobjs:
        try:
            os.remove(o)
        except OSError:
            pass
    return exe


def _gc_builds(keep=120, min_age_s=4 * 3600):
    """keep the build directory bounded (disk is limited): drop build products not used for hours"""
    try:
        ds = [os.path.join(BUILD, x) for x in os.listdir(BUILD)]
        ds = [d for d in ds if os.path.isdir(d) and (os.path.basename(d).startswith("lib_") or os.path.basename(d).startswith("h_"))]
        ds.sort(key=lambda d: os.path.getmtime(d))
        now = time.time()
        for d in ds[:-keep]:
            if now - os.path.getmtime(d) > min_age_s:
                shutil.rmtree(d, ignore_errors=True)
    except OSError:
        pass


def _touch(d):
    try:
        os.utime(d, None)
    except OSError:
        pass


# ----------------------------------------------------------------------------
# TLC
# ----------------------------------------------------------------------------
TLA_JAR = "/opt/veriftools/tla/tla2tools.jar"
TLA_DEPS = "/opt/veriftools/tla/CommunityModules-deps.jar"


class TlcResult:
    def __init__(self):
        self.rc = None
        self.out = ""
        self.generated = 0
        self.distinct = 0
        self.depth = 0
        self.coverage = {}   # action name -> (taken/distinct, generated)
        self.violated = None  # name of violated invariant / property, or "deadlock", "assert"
        self.error = None
        self.edges = []
        self.wall = 0.0


_cfgdir = None


def cfgdir():
    """directory for generated TLC configurations, private to this process: two checks running side by side (other tier, other seed,
    or the same property twice) must never read each other's half-written or differently parameterised configuration"""
    global _cfgdir
    if _cfgdir is None or not os.path.isdir(_cfgdir):
        import atexit
        _cfgdir = os.path.join(BUILD, "cfg_%d" % os.getpid())
        os.makedirs(_cfgdir, exist_ok=True)
        atexit.register(shutil.rmtree, _cfgdir, True)
    return _cfgdir


def tlc(module, cfg, workers=None, timeout=600, simulate=None, depth=None, seed=None, env=None,
        coverage=True, extra=(), xmx="8g", dfs=False, edge_prefix="EDGE", keep_out=False, dump_trace=None):
    """Run TLC on spec/<module>.tla with spec/<cfg>. Returns TlcResult.
    Lines printed by PrintT(<<"EDGE", json>>) are collected (parsed JSON) in .edges."""
    os.makedirs(BUILD, exist_ok=True)
    meta = os.path.join(BUILD, "tlc_%s_%d_%d" % (os.path.basename(cfg).replace(".cfg", ""), os.getpid(), int(time.time() * 1000) % 100000))
    if (workers or NCPU) == 1:
        # trace validation: many of these run side by side; the serial collector keeps the resident set near the live data
        # (the parallel collector let each JVM grow to 2-3 GB, and a dozen of them per check exhausted the machine)
        jopts = ["-XX:+UseSerialGC", "-Xms64m", "-Xmx" + xmx, "-Xss32m", "-XX:MaxHeapFreeRatio=30", "-XX:MinHeapFreeRatio=10"]
    else:
        jopts = ["-XX:+UseParallelGC", "-Xmx" + xmx, "-Xss32m"]
    if dfs:
        jopts.append("-Dtlc2.tool.queue.IStateQueue=StateDeque")
    cmd = ["java"] + jopts + ["-cp", TLA_JAR + ":" + TLA_DEPS, "tlc2.TLC", "-metadir", meta,
                             "-workers", str(workers or NCPU), "-config", cfg, "-noGenerateSpecTE"]
    if coverage:
        cmd += ["-coverage", "1"]
    if simulate:
        cmd += ["-simulate", "num=%d" % simulate]
    if depth:
        cmd += ["-depth", str(depth)]
    if seed is not None:
        cmd += ["-seed", str(seed)]
    if dump_trace:
        cmd += ["-dumpTrace", "json", dump_trace]
    cmd += list(extra) + [module + ".tla"]
    t0 = time.time()
    r = TlcResult()
    try:
        p = sh(cmd, timeout=timeout, cwd=SPEC, env=env)
    finally:
        shutil.rmtree(meta, ignore_errors=True)
    r.wall = time.time() - t0
    r.rc = p.returncode
    out = p.stdout
    r.out = out if keep_out else out[-20000:]
    r.stderr = p.stderr[-4000:]
    pref = '<<"%s", "' % edge_prefix
    edges = []
    for line in out.splitlines():
        if line.startswith(pref):
            s = line[len(pref):]
            k = s.rfind('">>')
            s = s[:k]
            try:
                edges.append(json.loads(json.loads('"' + s + '"')))
            except Exception as ex:
                raise Infra("cannot parse exported transition: %s (%s)" % (line[:200], ex))
    r.edges = edges
    m = re.findall(r"(\d+) states generated, (\d+) distinct states found", out)
    if m:
        r.generated, r.distinct = int(m[-1][0]), int(m[-1][1])
    m = re.search(r"The depth of the complete state graph search is (\d+)", out)
    if m:
        r.depth = int(m.group(1))
    for m in re.finditer(r"^<(\w+) line \d+, col \d+ to line \d+, col \d+ of module (\w+)(?: \([\d ]+\))?>: (\d+):(\d+)", out, re.M):
        nm = m.group(1)
        a, b = int(m.group(3)), int(m.group(4))
        if nm in r.coverage:
            a = max(a, r.coverage[nm][0])
            b = max(b, r.coverage[nm][1])
        r.coverage[nm] = (a, b)
    m = re.search(r"Invariant (\w+) is violated", out)
    if m:
        r.violated = m.group(1)
    elif re.search(r"Action property (\w+) is violated", out):
        r.violated = re.search(r"Action property (\w+) is violated", out).group(1)
    elif "Deadlock reached" in out:
        r.violated = "deadlock"
    elif re.search(r"Temporal properties were violated", out):
        r.violated = "temporal"
    elif "The first argument of Assert evaluated to FALSE" in out or "Assert" in out and "Error:" in out and r.rc not in (0,):
        r.violated = "assert"
    if r.rc not in (0,) and r.violated is None:
        # parse / semantic / runtime error in the model itself
        errl = []
        lines = out.splitlines()
        for i, l in enumerate(lines):
            if l.startswith("Error:") or "Exception" in l:
                errl += [x for x in lines[i:i + 12] if not x.startswith('<<"') and not x.startswith("  |")]
        r.error = "\n".join(errl[:80]) + "\n" + p.stderr[-2000:]
    return r


def tlc_ok(r, what):
    """raise Infra unless TLC finished normally without violation"""
    if r.error:
        raise Infra("TLC failed on %s (rc=%s):\n%s" % (what, r.rc, r.error))
    return r


# ----------------------------------------------------------------------------
# findings, verdict, evidence
# ----------------------------------------------------------------------------
def load_known():
    out = []
    paths = [os.path.join(VERIF, "known_findings.json")]
    # development aid: extra (not yet merged) finding lists, colon separated
    paths += [x for x in os.environ.get("VERIF_KNOWN_EXTRA", "").split(":") if x]
    for p in paths:
        if not os.path.exists(p):
            continue
        with open(p) as f:
            d = json.load(f)
        out += [x for x in d.get("findings", [])]
    return out


class Verdict:
    """collects violations for one property run"""

    def __init__(self, pid, tier, seed):
        self.pid, self.tier, self.seed = pid, tier, seed
        self.t0 = time.time()
        self.violations = []   # (key, text, replay_payload)
        self.known_hit = {}
        self.cov = {"samples": []}
        self.assumptions = []
        self.known = [k for k in load_known() if k.get("property") == pid]
        self.notes = []

    def violation(self, key, text, replay=None):
        for k in self.known:
            if fnmatch.fnmatchcase(key, k["key"]):
                self.known_hit.setdefault(k["key"], [k, 0])
                self.known_hit[k["key"]][1] += 1
                return False
        self.violations.append((key, text, replay))
        return True

    def sample(self, s, cap=6):
        if len(self.cov["samples"]) < cap:
            self.cov["samples"].append(s)

    def add(self, name, n):
        self.cov[name] = self.cov.get(name, 0) + n

    def finish(self, level, extra_cov=None):
        if extra_cov:
            self.cov.update(extra_cov)
        wall = time.time() - self.t0
        for key, (k, n) in sorted(self.known_hit.items()):
            print("KNOWN-FINDING: property=%s %s [%s] (%d case(s))" % (self.pid, k.get("what", ""), key, n))
        rc = 0
        if self.violations:
            rc = 1
            os.makedirs(REPLAYS, exist_ok=True)
            path = os.path.join(REPLAYS, "%s_%s_%d.json" % (self.pid, self.tier, int(time.time())))
            with open(path, "w") as f:
                json.dump({"property": self.pid, "tier": self.tier, "seed": self.seed,
                           "violations": [{"key": k, "text": t, "replay": r} for k, t, r in self.violations[:200]]}, f, indent=1)
            for k, t, _ in self.violations[:10]:
                log("  violation [%s]: %s" % (k, t))
            print("VIOLATION property=%s replay=%s" % (self.pid, path))
        ev = {"property_id": self.pid, "tier": self.tier, "seed": int(self.seed), "level": level,
              "coverage": self.cov, "assumptions": self.assumptions, "wall_s": round(wall, 2),
              "violations": len(self.violations),
              "known_findings_hit": sorted(self.known_hit.keys()), "notes": self.notes,
              "repo_hash": repo_hash()}
        if not self.cov.get("samples"):
            self.cov["samples"] = ["(none recorded)"]
        evdir = EVID if (getattr(self, "write_evidence", True) and not os.environ.get("VERIF_NO_EVIDENCE")) else os.path.join(BUILD, "replay_evidence")
        os.makedirs(evdir, exist_ok=True)
        with open(os.path.join(evdir, self.pid + ".json"), "w") as f:
            json.dump(ev, f, indent=1, sort_keys=True)
        return rc


def run_lines(exe, stdin_text=None, args=(), timeout=600, env=None):
    """run a harness; return (rc, stdout lines, stderr)"""
    p = sh([exe] + list(args), timeout=timeout, env=env, stdin=stdin_text)
    return p.returncode, p.stdout.splitlines(), p.stderr


def apalache_inductive(module, timeout=1500):
    """Init => IndInv and IndInv /\\ Next => IndInv' for spec/<module>.tla (typed, with CInit) by Apalache.
    Returns None when both obligations are discharged; raises Infra otherwise (a failed induction is a model defect)."""
    import shutil, tempfile
    work = tempfile.mkdtemp(prefix="apa_", dir=BUILD)
    try:
        shutil.copy(os.path.join(VERIF, "spec", module + ".tla"), work)
        for init, length in (("Init", "0"), ("IndInv", "1")):
            p = subprocess.run(["timeout", str(timeout), "apalache-mc", "check", "--cinit=CInit", "--init=" + init, "--inv=IndInv", "--length=" + length, module + ".tla"],
                               cwd=work, capture_output=True, text=True)
            if "The outcome is: NoError" not in p.stdout:
                if "The outcome is: Error" in p.stdout:
                    raise Infra("%s: IndInv is not inductive (obligation starting from %s) - model defect: %s" % (module, init, p.stdout[-800:]))
                raise Infra("apalache-mc did not finish on %s (%s): %s %s" % (module, init, p.stdout[-600:], p.stderr[-300:]))
    finally:
        shutil.rmtree(work, ignore_errors=True)
