#!/usr/bin/env python3
"""Confirm a seeded change delivered by an independent agent and run the checks against it.

   eval_seeded.py <PROP> <k> [--checks C01,C02] [--src /tmp/mut]

Steps, all in a scratch worktree of /repo's HEAD under /tmp/try (removed afterwards):
  1. unmodified: build the library, build the demonstration, run it           -> must PASS (exit 0)
  2. apply the change: rebuild, run the repository's 24 tests                 -> must be 24/24
     rebuild the demonstration, run it                                        -> must FAIL (exit != 0)
  3. run the listed checks (default: the property's own) with VERIF_REPO = the changed tree
If 1-2 are confirmed the change is stored as /verif/seeded/<PROP>_<k>/ (patch.diff, demo.cpp, meta.json) with what was run."""
import json, os, re, shutil, subprocess, sys, time


def sh(cmd, cwd=None, timeout=1800, env=None):
    p = subprocess.run(cmd, shell=True, cwd=cwd, capture_output=True, text=True, timeout=timeout, env=env)
    return p.returncode, p.stdout + p.stderr


def main():
    prop, k = sys.argv[1], sys.argv[2]
    src = "/tmp/mut"
    checks = [prop]
    if "--checks" in sys.argv:
        checks = sys.argv[sys.argv.index("--checks") + 1].split(",")
    if "--src" in sys.argv:
        src = sys.argv[sys.argv.index("--src") + 1]
    tag = sys.argv[sys.argv.index("--tag") + 1] if "--tag" in sys.argv else ""
    D = "%s/%s/DELIVER" % (src, prop)
    meta = json.load(open("%s/meta%s.json" % (D, k)))
    patch = "%s/patch%s.diff" % (D, k)
    W = "/tmp/try/ev_%s_%s%s" % (prop, tag, k)
    os.makedirs("/tmp/try", exist_ok=True)
    subprocess.run(["git", "-C", "/repo", "worktree", "remove", "--force", W], capture_output=True)
    subprocess.run(["git", "-C", "/repo", "worktree", "prune"])
    subprocess.run(["git", "-C", "/repo", "worktree", "add", "-q", W, "HEAD"], check=True)
    res = {"property": prop, "k": k, "summary": meta.get("summary"), "needs_to_manifest": meta.get("needs_to_manifest"), "files": meta.get("files")}
    try:
        for f in ("Makefile", "settings.mk", "include/SQuIDS/version.h", "test/env_vars.sh"):
            shutil.copy("/repo/" + f, W + "/" + f)
        os.makedirs(W + "/lib", exist_ok=True)
        shutil.copy("%s/demo%s.cpp" % (D, k), W + "/demo.cpp")
        for f in os.listdir(D):                      # headers shared by the author's demonstrations
            if f.endswith(".h") or f.endswith(".hpp"):
                shutil.copy(os.path.join(D, f), W + "/" + f)
        old = "%s/%s" % (src, prop)
        build = meta.get("demo_build", "")
        build = re.sub(r"\s+\(.*$", "", build.strip())              # drop trailing remarks
        toks = []
        skip = False
        for t in build.split():
            if skip:
                skip = False; continue
            if t == "-o":
                skip = True; continue
            if t.endswith("demo%s.cpp" % k):
                t = W + "/demo.cpp"
            t = t.replace(old, W)
            toks.append(t)
        build = " ".join(toks) + " -o " + W + "/demo_bin"
        run = "LD_LIBRARY_PATH=%s/lib %s/demo_bin" % (W, W)
        res["demo_build"] = build
        env = dict(os.environ, ASAN_OPTIONS="detect_leaks=1", TSAN_OPTIONS="halt_on_error=1 exitcode=66")
        # 1. baseline
        rc, out = sh("make -s", cwd=W)
        if rc != 0:
            res["error"] = "baseline build failed: " + out[-500:]; return res
        rc, out = sh(build, cwd=W)
        if rc != 0:
            res["error"] = "demo does not build on baseline: " + out[-800:]; return res
        rc0, out0 = sh(run, cwd=W, timeout=600, env=env)
        res["baseline_demo_rc"] = rc0
        # 2. with the change
        rc, out = sh("git apply " + patch, cwd=W)
        if rc != 0:
            res["error"] = "patch does not apply: " + out[-500:]; return res
        rc, out = sh("make -s clean; make -s", cwd=W)
        if rc != 0:
            res["error"] = "does not compile with the change: " + out[-800:]; return res
        rc, out = sh("make -s test", cwd=W)
        m = re.search(r"(\d+) Tests?: (\d+) pass", out)
        res["tests"] = m.group(0) if m else out[-300:]
        res["tests_ok"] = bool(m and m.group(1) == "24" and m.group(2) == "24")
        rc, out = sh(build, cwd=W)
        if rc != 0:
            res["error"] = "demo does not build with the change: " + out[-800:]; return res
        rc1, out1 = sh(run, cwd=W, timeout=600, env=env)
        res["mutant_demo_rc"] = rc1
        res["mutant_demo_tail"] = out1[-400:]
        res["confirmed"] = (rc0 == 0 and rc1 != 0 and res["tests_ok"])
        # 3. the checks
        sh("rm -rf test/products test/Report.txt demo_bin", cwd=W)
        res["checks"] = {}
        envc = dict(os.environ, VERIF_REPO=W, VERIF_NO_EVIDENCE="1")
        for c in checks:
            t0 = time.time()
            p = subprocess.run(["python3", "/verif/tools/check.py", c, "--tier", "quick"], capture_output=True, text=True, env=envc, cwd="/verif")
            verdict = {0: "held", 1: "VIOLATION", 2: "infra-error"}.get(p.returncode, str(p.returncode))
            keys = [l.strip()[:260] for l in p.stderr.splitlines() if l.strip().startswith("violation [")][:3]
            res["checks"][c] = {"verdict": verdict, "wall_s": round(time.time() - t0, 1), "keys": keys,
                                "err": p.stderr[-600:] if verdict == "infra-error" else ""}
        return res
    finally:
        subprocess.run(["git", "-C", "/repo", "worktree", "remove", "--force", W], capture_output=True)
        subprocess.run(["git", "-C", "/repo", "worktree", "prune"])
        os.makedirs("/tmp/try/results", exist_ok=True)
        with open("/tmp/try/results/%s_%s%s.json" % (prop, tag, k), "w") as f:
            json.dump(res, f, indent=1)
        if res.get("confirmed"):
            dst = "/verif/seeded/%s_%s%s" % (prop, tag, k)
            os.makedirs(dst, exist_ok=True)
            shutil.copy(patch, dst + "/patch.diff")
            shutil.copy("%s/demo%s.cpp" % (D, k), dst + "/demo.cpp")
            for f in os.listdir(D):
                if f.endswith(".h") or f.endswith(".hpp"):
                    shutil.copy(os.path.join(D, f), dst + "/" + f)
            with open(dst + "/meta.json", "w") as f:
                json.dump({"breaks_property": prop, "summary": res["summary"], "needs_to_manifest": res["needs_to_manifest"], "files": res["files"],
                           "confirmed_by": {"baseline_demo_rc": res["baseline_demo_rc"], "tests_with_change": res["tests"], "demo_rc_with_change": res["mutant_demo_rc"],
                                            "demo_build": res["demo_build"], "how": "tools/eval_seeded.py: scratch worktree of /repo HEAD, make, demo, git apply, make clean && make, make test, demo"},
                           "checks_run_quick_tier": res.get("checks", {})}, f, indent=1)


if __name__ == "__main__":
    r = main()
    print(json.dumps({k: v for k, v in (r or {}).items() if k not in ("mutant_demo_tail",)}, indent=1)[:3000])
