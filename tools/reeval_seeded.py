#!/usr/bin/env python3
"""Re-run checks against seeded changes kept under /verif/seeded and update their meta.json.
   reeval_seeded.py <seeded id> [<check ids, comma separated>]     (default: the checks already recorded for it)
   reeval_seeded.py --all [--jobs N]
Scratch worktree of /repo HEAD under /tmp/try (removed afterwards); /repo itself is never touched."""
import json, os, shutil, subprocess, sys, tempfile, time, concurrent.futures

SEEDED = "/verif/seeded"


def one(sid, checks=None):
    d = os.path.join(SEEDED, sid)
    meta = json.load(open(d + "/meta.json"))
    rec = meta.setdefault("checks_run_quick_tier", {})
    checks = checks or sorted(rec) or [meta["breaks_property"]]
    os.makedirs("/tmp/try", exist_ok=True)
    w = tempfile.mkdtemp(prefix="re_%s_" % sid, dir="/tmp/try"); os.rmdir(w)
    subprocess.run(["git", "-C", "/repo", "worktree", "add", "-q", w, "HEAD"], check=True)
    try:
        shutil.copy("/repo/include/SQuIDS/version.h", w + "/include/SQuIDS/version.h")
        r = subprocess.run(["git", "-C", w, "apply", d + "/patch.diff"], capture_output=True, text=True)
        if r.returncode != 0:
            return sid, {"error": "patch does not apply: " + r.stderr[-300:]}
        env = dict(os.environ, VERIF_REPO=w, VERIF_NO_EVIDENCE="1")
        for c in checks:
            t0 = time.time()
            p = subprocess.run(["python3", "/verif/tools/check.py", c, "--tier", "quick"], capture_output=True, text=True, env=env, cwd="/verif")
            verdict = {0: "held", 1: "VIOLATION", 2: "infra-error"}.get(p.returncode, str(p.returncode))
            keys = [l.strip()[:260] for l in p.stderr.splitlines() if l.strip().startswith("violation [")][:3]
            rec[c] = {"verdict": verdict, "wall_s": round(time.time() - t0, 1), "keys": keys, "err": p.stderr[-600:] if verdict == "infra-error" else "", "seed": os.environ.get("VERIF_SEED", "default"),
                      "head_of_verif": subprocess.run(["git", "-C", "/verif", "rev-parse", "--short", "HEAD"], capture_output=True, text=True).stdout.strip()}
        json.dump(meta, open(d + "/meta.json", "w"), indent=1)
        return sid, {c: rec[c]["verdict"] for c in checks}
    finally:
        subprocess.run(["git", "-C", "/repo", "worktree", "remove", "--force", w], capture_output=True)
        subprocess.run(["git", "-C", "/repo", "worktree", "prune"])
        for f in os.listdir("/verif/replays") if os.path.isdir("/verif/replays") else []:
            pass


def main():
    if sys.argv[1] == "--all":
        jobs = int(sys.argv[sys.argv.index("--jobs") + 1]) if "--jobs" in sys.argv else 3
        ids = sorted(x for x in os.listdir(SEEDED) if os.path.isdir(os.path.join(SEEDED, x)))
        if "--only" in sys.argv:      # property prefixes, e.g. --only C01,C02
            pref = tuple(sys.argv[sys.argv.index("--only") + 1].split(","))
            ids = [x for x in ids if x.startswith(pref)]
        with concurrent.futures.ThreadPoolExecutor(max_workers=jobs) as ex:
            for sid, r in ex.map(one, ids):
                print(sid, json.dumps(r), flush=True)
    else:
        print(*one(sys.argv[1], sys.argv[2].split(",") if len(sys.argv) > 2 else None))


if __name__ == "__main__":
    main()
